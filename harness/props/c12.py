"""C12 - execution limits and stop requests are honoured."""
from __future__ import annotations

import json
from collections import Counter

from harness import core
from harness.engine_util import demo_schema, default_responder, event_kind, run_engine
from harness.props import unit_lts as U

LEVEL = "proof"


def run(chk: core.Check):
    quick = chk.tier == "quick"
    chk.trusted = [
        "Coq 8.16.1 kernel + vm_compute; no axioms",
        "hand-written LTS Model_C11.v (shared with C11/C05): worker loop test, cached_test_func stop test, count_failure, consumer break; "
        "atomic steps between hook points",
        "forced-schedule controller + guarded hooks in /repo; behaviour discovery on the real engine",
        "translator harness/translate.py (fail-closed Python-ast -> Gallina for count_failure / is_stopped / _STATUS_ORDER, regenerated every run, "
        "tied to the model by the C12_gen_*_eq theorems)",
        "ModelU_C12.v (outcome cache: lookup and store as separate steps) tied by logging the real get_cached_outcome / cache_outcome calls; "
        "ModelR_C12.v (sliding-window guard) is a model of FOREIGN code (pyrate_limiter), validated per run against the real limiter's grants",
        "NOT modelled (foreign code, contracts only exercised by the free-run oracle): Hypothesis max_examples / stateful_step_count, "
        "runtime jitter between grant and arrival, the stateful phase's own failure counting and step_outcomes cache",
    ]
    chk.assumptions = ["Hypothesis stops generating after max_examples valid examples when nothing fails",
                       "pyrate-limiter blocks try_acquire until the bucket has room (checked only up to +workers jitter per window)"]
    chk.rule = ("forced schedules as in C11 but biased to Stop labels and max_failures in {1,2}; free runs over (max_examples 1-12, workers 1-3, "
                "max_failures, unique_inputs, rate limit, stop at a random event); non-trivial = a limit or a stop actually took effect in the run")
    # regenerate the integer kernel from the Python source (fail closed), then build: GenProofs_C12.v must still check
    from harness import translate
    from harness.props import c12_gen

    try:
        chk.stages["regenerated_model"] = c12_gen.regenerate()
    except (translate.Untranslatable, OSError, SyntaxError) as exc:
        chk.broken.append({"kind": "translator", "what": "engine/control.py no longer fits the translated subset", "detail": f"{type(exc).__name__}: {exc}"})
    chk.proofs(["Common", "C11", "C12"])
    rng = chk.rng
    corpus = [json.loads(p.read_text()) for p in sorted((core.VERIF / "corpus" / "C12").glob("*.json"))]
    n = 20 if quick else 250
    scenarios = [dict(c) for c in corpus]
    while len(scenarios) < n + len(corpus):
        sc = U.gen_scenario(rng)
        if "Stop" not in sc["schedule"] and sc["maxf"] is None:
            if rng.random() < 0.5:
                sc["schedule"].insert(rng.randrange(len(sc["schedule"]) + 1), "Stop")
            else:
                sc["maxf"] = rng.choice([1, 2])
        scenarios.append(sc)
    records = U.run_scenarios(chk, scenarios, "forced schedules")
    over = 0
    for rec in records:
        if "events" not in rec:
            continue
        sc = rec["scenario"]
        # reported failures <= max_failures on the complete stream (unit phase counts one per failed/errored scenario)
        if sc["maxf"] is not None:
            failed = sum(1 for e in rec["events"] if event_kind(e) == "ScenarioFinished" and e.status.name in ("FAILURE", "ERROR"))
            if failed > sc["maxf"]:
                over += 1
                chk.fail(f"{failed} failed/errored scenarios reported with max_failures={sc['maxf']}", sc)
    chk.stages["forced_schedules"] = {"runs": len(records), "over_limit": over}

    # targeted search: several failing operations finish while the consumer is late, so their ScenarioFinished events are adjacent in the queue
    from harness.sched import run_forced

    n_t = 3 * (10 if chk.broken else 1)
    found = 0
    for k in range(n_t):
        workers = rng.choice([2, 2, 3])
        n_ops = rng.randint(workers, workers + 2)
        kinds = ["fail"] * n_ops
        maxf = rng.choice([1, 1, 2])
        sched = []
        for _ in range(rng.randint(20, 40)):
            sched.append(f"W{rng.randrange(workers)}")
        sched += [f"W{i}" for i in range(workers)] * 12 + ["C"] * 30
        sc = {"kinds": kinds, "workers": workers, "cof": False, "maxf": maxf, "max_examples": 1, "schedule": sched}
        r = run_forced(U.schema_with_ops(n_ops), U.make_responder(kinds), sched, workers=workers, max_examples=1, max_failures=maxf)
        failed = sum(1 for e in r["events"] if event_kind(e) == "ScenarioFinished" and e.status.name in ("FAILURE", "ERROR"))
        chk.seen({"targeted": sc}, True)
        if failed > maxf:
            found += 1
            chk.fail(f"{failed} failed/errored scenarios reported with max_failures={maxf}", sc)
    chk.stages["targeted_limit_search"] = {"runs": n_t, "over_limit": found}

    # the failure limit acts as a stop request for the workers: at most one further request per worker once it is reached
    chk.stages["requests_after_limit"] = after_limit(chk, (4 if quick else 40) * (5 if chk.broken else 1))

    free = free_runs(chk, (10 if quick else 120) * (10 if chk.broken else 1))
    chk.stages["free_runs"] = free
    from harness.props import c12_extra

    chk.stages["ctrl_c_in_consumer"] = ctrl_c_runs(chk, (4 if quick else 40) * (3 if chk.broken else 1))
    chk.stages["settings_merge"] = c12_extra.settings_stage(chk, 40 if quick else 400, 2 if quick else 12)
    chk.stages["outcome_cache_refinement"] = c12_extra.cache_refinement_stage(chk, 12 if quick else 120, (30000 if quick else 1000000) * (10 if chk.broken else 1))
    chk.stages["unique_inputs"] = c12_extra.unique_stage(chk, (8 if quick else 80) * (3 if chk.broken else 1))
    # the stateful phase's thread (real execute_state_machine_loop under a scripted Hypothesis) vs ModelP_C11: steps after the stop
    from harness.props import stateful_producer as SP

    chk.stages["stateful_producer"] = SP.stage(chk, (80 if quick else 2000) * (3 if chk.broken else 1), c12=True)
    chk.stages["rate_limit"] = c12_extra.rate_stage(chk, (3 if quick else 25) * (3 if chk.broken else 1))
    for f in chk.findings:
        if f.get("region") == "stateful_scenario_after_stop":
            chk.known(f, SP.scenarios_after_stop(SP.run_real(f["witness"])) >= 1)
        else:
            chk.known(f, False)


def after_limit(chk, n):
    import time as _time

    from harness.loopback import Recorder

    rng = chk.rng
    found = 0
    for k in range(n):
        workers = rng.choice([2, 2, 3])
        n_ops = workers + rng.randint(0, 1)
        kinds = ["fail"] + ["ok"] * (n_ops - 1)
        maxf = 1
        me = rng.randint(8, 14)

        def responder(item, kinds=kinds):
            i = U.op_index(item["target"])
            if i is not None and kinds[i] == "fail":
                return 500, [("Content-Type", "application/json")], b"{}"
            _time.sleep(0.03)  # the passing operations are still in the middle of their examples when the limit is reached
            return 200, [("Content-Type", "application/json")], b"{}"

        rec = Recorder(responder)
        box = {}

        def on_event(ev, stream, box=box, rec=rec):
            if event_kind(ev) == "ScenarioFinished" and ev.status.name in ("FAILURE", "ERROR") and "at" not in box:
                box["at"] = len(rec.requests)

        try:
            evs, reqs = run_engine(U.schema_with_ops(n_ops), None, phases=["fuzzing"], workers=workers, max_examples=me, seed=k + 1,
                                   max_failures=maxf, on_event=on_event, rec=rec)
        finally:
            rec.close()
        cfg = {"after_limit": True, "workers": workers, "ops": n_ops, "max_examples": me, "seed": k}
        chk.seen(cfg, "at" in box)
        if "at" in box:
            after = len(reqs) - box["at"]
            # one in flight per worker, plus one each that may slip in before the consumer sets the flag
            if after > 2 * workers:
                found += 1
                chk.fail(f"{after} requests sent after the failure limit was reached with {workers} workers", cfg)
    return {"runs": n, "over": found}


def ctrl_c_runs(chk, n):
    """A real KeyboardInterrupt in the consumer (main) thread while the workers are busy - not EventStream.stop(): the stop flag is
    NOT set beforehand.  The handler has to set it while the workers are still running; afterwards at most one further request per
    worker (plus the one that may slip in before the flag is visible) may arrive."""
    import time as _time

    from schemathesis.core import _verif

    from harness.loopback import Recorder

    rng = chk.rng
    found = 0
    for k in range(n):
        workers = rng.choice([1, 2, 2, 3])
        n_ops = workers * 3 + rng.randint(0, 2)
        me = rng.randint(6, 12)
        nth = rng.randint(3, 8)
        where = rng.choice(["c_get", "c_post"])

        def responder(item):
            _time.sleep(0.01)
            return 200, [("Content-Type", "application/json")], b"{}"

        rec = Recorder(responder)
        box = {"n": 0}

        class CtrlC:
            def point(self, name, ctx, box=box, rec=rec, where=where, nth=nth):
                import threading as _threading

                if name == where and _threading.current_thread() is _threading.main_thread():
                    box["n"] += 1
                    if box["n"] == nth:
                        box["at"] = len(rec.requests)
                        raise KeyboardInterrupt

        _verif.set_controller(CtrlC())
        try:
            evs, reqs = run_engine(U.schema_with_ops(n_ops), None, phases=["fuzzing"], workers=workers, max_examples=me, seed=k + 1, rec=rec)
        finally:
            _verif.set_controller(None)
            rec.close()
        cfg = {"ctrl_c_in_consumer": where, "nth_visit": nth, "workers": workers, "ops": n_ops, "max_examples": me, "seed": k}
        chk.seen(cfg, "at" in box)
        if "at" in box:
            after = len(reqs) - box["at"]
            started_after = 0
            if after > 2 * workers:
                found += 1
                chk.fail(f"{after} requests sent after Ctrl-C reached the consumer ({workers} workers): the workers were not told to stop", cfg)
            if not any(event_kind(e) == "Interrupted" for e in evs):
                chk.fail("Ctrl-C in the consumer: no Interrupted event", cfg)
    return {"runs": n, "over": found}


def ops_schema(n_ops):
    return U.schema_with_ops(n_ops)


def free_runs(chk, n):
    rng = chk.rng
    stats = Counter()
    for k in range(n):
        kind = rng.choice(["max_examples", "max_failures", "stop", "unique", "rate", "steps"])
        workers = rng.randint(1, 3)
        stats[kind] += 1
        if kind == "max_examples":
            me = rng.randint(1, 12)
            n_ops = rng.randint(1, 3)
            evs, reqs = run_engine(ops_schema(n_ops), U.make_responder(["ok"] * n_ops), phases=["fuzzing"], workers=workers, max_examples=me, seed=k)
            per = Counter(U.op_index(r["target"]) for r in reqs)
            chk.seen({"max_examples": me, "ops": n_ops, "workers": workers, "seed": k}, True)
            for i, c in per.items():
                if c > me:
                    chk.fail(f"{c} requests sent to operation {i} in the fuzzing phase with max_examples={me} and no failing check",
                             {"max_examples": me, "ops": n_ops, "workers": workers, "seed": k})
        elif kind == "max_failures":
            mf = rng.choice([1, 2, 3])
            n_ops = rng.randint(2, 5)
            kinds = [rng.choice(["fail", "fail", "ok"]) for _ in range(n_ops)]
            evs, reqs = run_engine(ops_schema(n_ops), U.make_responder(kinds), workers=workers, max_examples=2, max_failures=mf, seed=k,
                                   phases=["examples", "coverage", "fuzzing", "stateful"])
            cfg = {"max_failures": mf, "kinds": kinds, "workers": workers, "seed": k}
            chk.seen(cfg, kinds.count("fail") >= mf)
            failed = sum(1 for e in evs if event_kind(e) == "ScenarioFinished" and e.status.name in ("FAILURE", "ERROR"))
            if failed > mf:
                chk.fail(f"{failed} failed/errored scenarios reported with max_failures={mf}", cfg)
            # once the limit is reached every later phase is skipped with that reason
            reached = False
            for e in evs:
                if event_kind(e) == "PhaseStarted" and reached:
                    pass
                if event_kind(e) == "PhaseFinished":
                    if reached and e.phase.is_enabled:
                        reason = getattr(e.phase.skip_reason, "name", None)
                        if e.status.name != "SKIP" or reason != "FAILURE_LIMIT_REACHED":
                            chk.fail(f"phase {e.phase.name.name} after the failure limit: status {e.status.name}, reason {reason}", cfg)
                    if failed >= mf and any(event_kind(x) == "ScenarioFinished" for x in evs):
                        # the limit is reached inside the phase in which the mf-th failure was reported
                        seen_fail = sum(1 for x in evs[: evs.index(e)] if event_kind(x) == "ScenarioFinished" and x.status.name in ("FAILURE", "ERROR"))
                        if seen_fail >= mf:
                            reached = True
        elif kind == "stop":
            n_ops = rng.randint(1, 4)
            stop_at = rng.randint(3, 14)
            box = {}

            rec_holder = {}

            def on_event(ev, stream, box=box, stop_at=stop_at):
                box.setdefault("n", 0)
                box["n"] += 1
                if box["n"] == stop_at:
                    box["req_at_stop"] = len(rec_holder["rec"].requests)
                    box["ev_at_stop"] = box["n"]
                    stream.stop()

            from harness.loopback import Recorder

            rec = Recorder(U.make_responder(["ok"] * n_ops))
            rec_holder["rec"] = rec
            try:
                evs, reqs = run_engine(ops_schema(n_ops), None, phases=["fuzzing"], workers=workers, max_examples=rng.randint(3, 10), seed=k,
                                       on_event=on_event, rec=rec)
            finally:
                rec.close()
            cfg = {"stop_at_event": stop_at, "ops": n_ops, "workers": workers, "seed": k}
            chk.seen(cfg, "req_at_stop" in box)
            if "req_at_stop" in box:
                after = len(reqs) - box["req_at_stop"]
                if after > workers:
                    chk.fail(f"{after} requests sent after the stop request with {workers} worker(s)", cfg)
                started_after = sum(1 for e in evs[box["ev_at_stop"] :] if event_kind(e) == "ScenarioStarted")
                if started_after > 0:
                    chk.fail(f"{started_after} scenario(s) announced after the stop request", cfg)
        elif kind == "unique":
            raw = ops_schema(2)
            for path in raw["paths"].values():
                path["get"]["parameters"][0]["schema"] = {"type": "integer", "minimum": 1, "maximum": 3}
            evs, reqs = run_engine(raw, U.make_responder(["ok", "ok"]), phases=["coverage", "fuzzing"], workers=workers, max_examples=15, seed=k,
                                   unique_inputs=True)
            cfg = {"unique_inputs": True, "workers": workers, "seed": k}
            dup = [t for t, c in Counter((r["method"], r["target"], r["body"]) for r in reqs).items() if c > 1]
            chk.seen(cfg, len(reqs) > 2)
            if dup:
                # every operation is handled by one worker (C12_unique_never_sent_twice, hypothesis checked in stage unique_inputs)
                chk.fail(f"the same request was sent {len(dup)} time(s) twice with unique_inputs", {**cfg, "dup": str(dup[:2])})
        elif kind == "rate":
            limit = rng.choice([5, 10, 20])
            evs, reqs = run_engine(ops_schema(2), U.make_responder(["ok", "ok"]), phases=["fuzzing"], workers=workers, max_examples=limit + 3, seed=k,
                                   rate_limit=f"{limit}/s")
            ts = sorted(r["t"] for r in reqs)
            worst = 0
            for i, t0 in enumerate(ts):
                worst = max(worst, sum(1 for t in ts[i:] if t < t0 + 1.0))
            cfg = {"rate": f"{limit}/s", "workers": workers, "seed": k, "requests": len(ts)}
            chk.seen(cfg, len(ts) > limit)
            if worst > limit + workers:
                chk.fail(f"{worst} requests within one second with rate limit {limit}/s (jitter allowance {workers})", cfg)
        elif kind == "steps":
            steps = rng.randint(1, 4)
            evs, reqs = run_engine(demo_schema(), default_responder, phases=["stateful"], workers=1, max_examples=4, seed=k, step_count=steps)
            cfg = {"stateful_step_count": steps, "seed": k}
            chk.seen(cfg, True)
            for e in evs:
                if event_kind(e) == "ScenarioFinished" and e.recorder is not None and len(e.recorder.cases) > steps:
                    chk.fail(f"a stateful scenario has {len(e.recorder.cases)} steps with stateful_step_count={steps}", cfg)
    return dict(stats)


def replay(payload) -> int:
    from harness.props.c11 import replay as r11

    return r11(payload)
