"""C07 - exactly the selected API operations are tested, in every phase.

Stages: proofs (Properties_C07.v) -> correspondence of the Coq model (run_case / run_cli evaluated by vm_compute) with the
real schema object (from_dict(raw).include(..).exclude(..): get_all_operations, statistic, _operation_iter, as_state_machine)
over a small universe (exhaustive pairs of filters in the thorough tier, random chains in the quick tier) -> an independent
oracle of the property text on every case -> pytest lazy-fixture run -> short real engine runs against the counting
loopback API -> replay of the listed findings.
"""
from __future__ import annotations

import copy
import itertools
import json
import re
import subprocess
import sys
import tempfile
import textwrap

from harness import core
from harness.core import cN, cbool, cjson, clist, copt, cstr, ctuple, pstr

LEVEL = "proof"
IMPORTS = ["Common.Str", "Common.Json", "C07.Model_C07"]

HTTP = ["get", "put", "post", "delete", "options", "head", "patch", "trace"]
ATTRS = ["name", "method", "path", "tag", "operation_id"]
COQ_ATTR = {"name": "ALabel", "method": "AMethod", "path": "APath", "tag": "ATag", "operation_id": "AOperationId"}
ERR_KIND = {
    "Passing expected value and regex simultaneously is not allowed": "ErrExpectedAndRegex",
    "Filter can not be empty": "ErrEmpty",
    "Filter already exists": "ErrExists",
}


# ----------------------------------------------------------------------------------------
# documents of the universe
# ----------------------------------------------------------------------------------------
def base_doc(paths: dict) -> dict:
    return {
        "openapi": "3.0.2",
        "info": {"title": "t", "version": "1"},
        "components": {
            "parameters": {"Id": {"name": "id", "in": "query", "schema": {"type": "string"}}},
            "x-ops": {
                "tagged": {"tags": ["t1"], "operationId": "opR", "deprecated": True, "responses": {"200": {"description": "ok"}}},
            },
        },
        "paths": paths,
    }


def op(tags=None, oid=None, deprecated=None, params=None, links=None, extra=None) -> dict:
    d: dict = {}
    if tags is not None:
        d["tags"] = tags
    if oid is not None:
        d["operationId"] = oid
    if deprecated is not None:
        d["deprecated"] = deprecated
    if params == "ref":
        d["parameters"] = [{"$ref": "#/components/parameters/Id"}]
    elif params == "inline":
        d["parameters"] = [{"name": "id", "in": "query", "schema": {"type": "string"}}]
    elif params == "other":
        d["parameters"] = [{"name": "q", "in": "query", "schema": {"type": "string"}}]
    elif params == "ref+inline":
        d["parameters"] = [{"$ref": "#/components/parameters/Id"}, {"name": "q", "in": "query", "schema": {"type": "string"}}]
    resp: dict = {"description": "ok"}
    if links:
        resp["links"] = links
    d["responses"] = {"200": resp}
    if extra:
        d.update(extra)
    return d


def ref_of(path: str, method: str) -> str:
    return "#/paths/" + path.replace("~", "~0").replace("/", "~1") + "/" + method


def fixed_docs() -> list[dict]:
    """Hand-picked shapes: shared path items, referenced definitions, missing tags/operationId, mixed-case keys,
    links by id and by reference, duplicate ids, dangling targets."""
    shared = {"get": op(tags=["t1"], oid="getX"), "delete": op(tags=["t2"], deprecated=True)}
    docs = [
        # 0: plain
        base_doc({
            "/a": {"get": op(tags=["t1"], oid="opA"), "post": op(tags=["t1", "t2"], oid="opB", deprecated=True), "delete": op()},
            "/b": {"get": op(tags=["t2"], deprecated=False), "put": op(oid="opC", tags=[])},
        }),
        # 1: references inside operations (parameters, whole operation)
        base_doc({
            "/a": {"get": op(params="ref", tags=["t1"]), "post": op(params="inline", oid="opB")},
            "/b": {"get": {"$ref": "#/components/x-ops/tagged"}, "delete": op(params="ref+inline", deprecated=True, tags=["t2"])},
        }),
        # 2: links by id and by reference, shared path item (duplicate operationId)
        base_doc({
            "/src": {"post": op(oid="mk", tags=["t1"], links={"L": {"operationId": "getX"}, "M": {"operationRef": ref_of("/b", "delete")}})},
            "/a": shared,
            "/b": shared,
        }),
        # 3: mixed-case method keys and non-method keys
        base_doc({
            "/a": {"GET": op(tags=["t1"], oid="upper"), "post": op(tags=["t1"]), "parameters": [], "summary": "s", "x-ext": {"a": 1}},
            "/a/b": {"Post": op(), "get": op(oid="opA", links={"L": {"operationRef": ref_of("/a", "post")}})},
        }),
        # 4: link chain, tilde in a path, references to parameters
        base_doc({
            "/c~d": {"post": op(oid="c1", params="ref", links={"next": {"operationRef": ref_of("/c~d", "get")}, "other": {"operationId": "opA"}}),
                     "get": op(oid="c2", tags=["t2"], links={"del": {"operationId": "c3"}}),
                     "delete": op(oid="c3", deprecated=True)},
            "/a": {"get": op(oid="opA", tags=["t1"], params="inline")},
        }),
        # 5: dangling link targets
        base_doc({
            "/a": {"get": op(oid="opA", links={"L": {"operationId": "nope"}}), "post": op(links={"R": {"operationRef": ref_of("/zz", "get")}})},
            "/b": {"get": op(tags=["t1"], links={"ok": {"operationId": "opA"}})},
        }),
        # 6: no paths at all / empty path item
        base_doc({}),
        base_doc({"/a": {}, "/b": {"get": op()}}),
    ]
    return docs


def gen_doc(rng) -> dict:
    paths = {}
    pool = ["/a", "/b", "/a/b", "/c~d"]
    rng.shuffle(pool)
    chosen = pool[: rng.choice([1, 2, 2, 3])]
    ids = ["opA", "opB", "opC", "opA"]
    keys = ["get", "post", "delete", "put", "GET", "Post", "parameters", "summary"]
    all_ops = []
    for p in chosen:
        item = {}
        for k in rng.sample(keys, rng.choice([1, 2, 2, 3])):
            if k == "parameters":
                item[k] = rng.choice([[], [{"name": "s", "in": "query", "schema": {"type": "string"}}]])
            elif k == "summary":
                item[k] = "text"
            else:
                if rng.random() < 0.12:
                    item[k] = {"$ref": "#/components/x-ops/tagged"}
                else:
                    item[k] = op(
                        tags=rng.choice([None, [], ["t1"], ["t2"], ["t1", "t2"]]),
                        oid=rng.choice([None, None] + ids),
                        deprecated=rng.choice([None, None, True, False]),
                        params=rng.choice([None, None, "ref", "inline", "other", "ref+inline"]),
                    )
                    all_ops.append((p, k))
        paths[p] = item
    if rng.random() < 0.15 and len(chosen) >= 2:
        paths[chosen[1]] = paths[chosen[0]]  # shared path item
        all_ops = [(p, k) for p in paths for k, v in paths[p].items() if isinstance(v, dict) and "responses" in v]
    # links
    for p, k in all_ops:
        if rng.random() < 0.45:
            links = {}
            for name in rng.sample(["L", "M", "N"], rng.choice([1, 1, 2])):
                r = rng.random()
                if r < 0.4:
                    links[name] = {"operationId": rng.choice(ids)}
                elif r < 0.85 and all_ops:
                    tp, tk = rng.choice(all_ops)
                    links[name] = {"operationRef": ref_of(tp, tk)}
                elif r < 0.93:
                    links[name] = {"operationRef": ref_of("/zz", "get")}
                else:
                    links[name] = {"operationId": "nope"}
            paths[p][k]["responses"]["200"]["links"] = links
    return base_doc(paths)


# ----------------------------------------------------------------------------------------
# filters of the universe
# ----------------------------------------------------------------------------------------
VALUES = {
    "name": ["GET /a", "POST /a", "DELETE /b", "get /a", ["GET /a", "GET /b"], ["POST /src", "GET /c~d"]],
    "method": ["get", "GET", "Post", "delete", ["get", "POST"], ["PUT", "trace"]],
    "path": ["/a", "/b", "/a/b", "/c~d", "/src", ["/a", "/src"], []],
    "tag": ["t1", "t2", "t3", ["t2", "t3"], ""],
    "operation_id": ["opA", "opB", "getX", "mk", ["opA", "c3"], "opR"],
}
REGEXES = {
    "name": [("prefix", "GET"), ("sub", "/a"), ("suffix", "/b"), ("exact", "POST /a"), ("sub", " /c~")],
    "method": [("exact", "get"), ("prefix", "p"), ("sub", "E"), ("suffix", "T")],
    "path": [("prefix", "/a"), ("sub", "b"), ("suffix", "d"), ("exact", "/a")],
    "tag": [("prefix", "t"), ("exact", "t2"), ("sub", "1")],
    "operation_id": [("suffix", "A"), ("sub", "op"), ("prefix", "c"), ("exact", "getX")],
}
FUNCS = [
    ("expr", "/parameters/0/name", "==", "id"),
    ("expr", "/parameters/0/name", "!=", "id"),
    ("expr", "/parameters/-1/name", "==", "q"),
    ("expr", "/deprecated", "==", True),
    ("expr", "/deprecated", "!=", True),
    ("expr", "/tags/0", "==", "t1"),
    ("expr", "/tags/1", "==", "t2"),
    ("expr", "/tags/-1", "!=", "t2"),
    ("expr", "/tags/-1", "==", "t2"),
    ("expr", "/tags/01", "==", "t2"),
    ("expr", "/tags/+1", "==", "t2"),
    ("expr", "/operationId", "==", "opA"),
    ("expr", "/responses/200/description", "==", "ok"),
    ("expr", "/tags", "==", ["t1", "t2"]),
    ("expr", "/x~0y/~1z", "==", None),
    ("expr", "tags", "==", "t1"),
    ("expr", "/parameters/x", "!=", "id"),
    ("deprecated",),
    ("path_len_even",),
    ("safe_method",),
]


def single_calls() -> list[dict]:
    """Every one-matcher call of the universe (include and exclude)."""
    out = []
    for kind in ("include", "exclude"):
        for a in ATTRS:
            for v in VALUES[a]:
                out.append({"kind": kind, a: v})
            for r in REGEXES[a]:
                out.append({"kind": kind, a + "_regex": list(r)})
        for f in FUNCS:
            out.append({"kind": kind, "func": list(f)})
        out.append({"kind": "exclude", "deprecated": True}) if kind == "exclude" else None
    return out


def gen_call(rng) -> dict:
    c: dict = {"kind": rng.choice(["include", "exclude"])}
    r = rng.random()
    if r < 0.03:
        return c  # empty filter
    n = rng.choice([1, 1, 1, 2, 2, 3])
    for a in rng.sample(ATTRS, n):
        k = rng.random()
        if k < 0.55:
            c[a] = rng.choice(VALUES[a])
        elif k < 0.95:
            c[a + "_regex"] = list(rng.choice(REGEXES[a]))
        else:
            c[a] = rng.choice(VALUES[a])
            c[a + "_regex"] = list(rng.choice(REGEXES[a]))
    if rng.random() < 0.3:
        c["func"] = list(rng.choice(FUNCS))
        if rng.random() < 0.4:
            for a in ATTRS:
                c.pop(a, None)
                c.pop(a + "_regex", None)
    if c["kind"] == "exclude" and rng.random() < 0.15:
        c["deprecated"] = True
    return c


def rx_pattern(r) -> str:
    kind, lit = r
    e = re.escape(lit)
    return {"sub": e, "prefix": "^" + e, "suffix": e + "$", "exact": "^" + e + "$"}[kind]


def _hashable(x):
    return json.dumps(x, sort_keys=True)


class Funcs:
    """Python function objects for function matchers; one object per spec (so that using a spec twice is a duplicate,
    as with is_deprecated), identified in the model by a number (0 = filters.is_deprecated)."""

    def __init__(self):
        self.objs: dict[str, tuple[int, object]] = {}

    def get(self, spec):
        from schemathesis import filters

        key = _hashable(spec)
        if key in self.objs:
            return self.objs[key]
        if spec[0] == "deprecated":
            obj, ident = filters.is_deprecated, 0
        elif spec[0] == "expr":
            _, pointer, opr, value = spec
            text = f"{pointer} {opr} {json.dumps(value)}"
            obj, ident = filters.expression_to_filter_function(text), len(self.objs) + 1
        elif spec[0] == "path_len_even":
            obj, ident = (lambda ctx: len(ctx.operation.path) % 2 == 0), len(self.objs) + 1
        elif spec[0] == "safe_method":
            obj, ident = (lambda ctx: ctx.operation.method.upper() in ("GET", "HEAD")), len(self.objs) + 1
        else:
            raise ValueError(spec)
        self.objs[key] = (ident, obj)
        return self.objs[key]


def c_func(spec, ident) -> str:
    if spec[0] == "deprecated":
        return "is_deprecated"
    if spec[0] == "expr":
        _, pointer, opr, value = spec
        return f"(expr_filter {cstr(pointer)} {cbool(opr == '==')} {cjson(value)})"
    return {"path_len_even": "fn_path_len_even", "safe_method": "fn_safe_method"}[spec[0]]


def c_fvalue(v) -> str:
    if isinstance(v, list):
        return f"(FList {clist([cstr(x) for x in v], 'str')})"
    return f"(FStr {cstr(v)})"


def c_rx(r) -> str:
    ctor = {"sub": "RxSub", "prefix": "RxPrefix", "suffix": "RxSuffix", "exact": "RxExact"}[r[0]]
    return f"(rx_of {cstr(rx_pattern(r))} ({ctor} {cstr(r[1])}))"


def c_args(call, funcs: Funcs) -> str:
    fields = []
    if call.get("func") is not None:
        ident, _ = funcs.get(call["func"])
        fields.append(f"a_func := Some ({cN(ident)}, {c_func(call['func'], ident)})")
    else:
        fields.append("a_func := None")
    for a, field in zip(ATTRS, ["a_name", "a_method", "a_path", "a_tag", "a_operation_id"]):
        e = call.get(a)
        r = call.get(a + "_regex")
        fields.append(
            f"{field} := {{| aa_expected := {copt(None if e is None else c_fvalue(e), 'fvalue')}; "
            f"aa_regex := {copt(None if r is None else c_rx(r), 'rx_arg')} |}}"
        )
    return "{| " + "; ".join(fields) + " |}"


def c_call(call, funcs: Funcs) -> str:
    if call["kind"] == "include":
        return f"(CInclude {c_args(call, funcs)})"
    return f"(CExclude {c_args(call, funcs)} {cbool(bool(call.get('deprecated')))})"


def py_kwargs(call, funcs: Funcs) -> dict:
    kw = {}
    if call.get("func") is not None:
        kw["func"] = funcs.get(call["func"])[1]
    for a in ATTRS:
        if call.get(a) is not None:
            kw[a] = copy.deepcopy(call[a])
        if call.get(a + "_regex") is not None:
            kw[a + "_regex"] = rx_pattern(call[a + "_regex"])
    if call["kind"] == "exclude" and call.get("deprecated"):
        kw["deprecated"] = True
    return kw


# ----------------------------------------------------------------------------------------
# the model's view of a document (fact extraction through the real resolver)
# ----------------------------------------------------------------------------------------
def model_doc(raw) -> list:
    """[(path, [(key, raw_entry, resolved_entry)])] using the schema's own reference resolution."""
    import schemathesis
    from schemathesis.specs.openapi.schemas import in_scope

    s = schemathesis.openapi.from_dict(copy.deepcopy(raw))
    out = []
    for path, item in s.raw_schema.get("paths", {}).items():
        scope, item = s._resolve_path_item(item)
        entries = []
        with in_scope(s.resolver, scope):
            for key, entry in item.items():
                if isinstance(entry, dict) and key.lower() in HTTP:  # schema[path]['POST'] reaches a key 'Post' too
                    resolved = s._resolve_operation(entry)
                else:
                    resolved = entry
                entries.append((key, entry, resolved))
        out.append((path, entries))
    return out


def c_doc(mdoc) -> str:
    items = []
    for path, entries in mdoc:
        es = [ctuple(cstr(k), f"{{| od_raw := {cjson(r)}; od_resolved := {cjson(z)} |}}") for k, r, z in entries]
        items.append(ctuple(cstr(path), clist(es, "(str * opdef)")))
    return clist(items, "(str * path_item)")


# ----------------------------------------------------------------------------------------
# observing the implementation
# ----------------------------------------------------------------------------------------
STD_KEYS = {"schema", "bundles", "_response_matchers", "_transitions"}


def build_schema(raw, calls, funcs: Funcs):
    """from_dict(raw).include(..).exclude(..)...  -> schema | ('rejected', kind, index)"""
    import schemathesis
    from schemathesis.core.errors import IncorrectUsage

    schema = schemathesis.openapi.from_dict(copy.deepcopy(raw))
    for i, call in enumerate(calls):
        kw = py_kwargs(call, funcs)
        func = kw.pop("func", None)
        try:
            schema = schema.include(func, **kw) if call["kind"] == "include" else schema.exclude(func, **kw)
        except IncorrectUsage as exc:
            return ("rejected", ERR_KIND.get(str(exc), str(exc)), i)
    return schema


def observe_schema(schema) -> dict:
    from schemathesis.core.result import Ok

    results = list(schema.get_all_operations())
    offered = [(r.ok().path, r.ok().method) for r in results if isinstance(r, Ok)]
    errors = [type(r.err()).__name__ for r in results if not isinstance(r, Ok)]
    st = schema.statistic
    stat = (st.operations.total, st.operations.selected, st.links.total, st.links.selected)
    iterated = len(list(schema._operation_iter()))
    rules = None
    try:
        sm = schema.as_state_machine()
        trs = []
        for source, t in sm._transitions.operations.items():
            for link in t.outgoing:
                assert link.source.label == source
                trs.append((source, str(link.status_code), link.name, link.target.label))
        trs.sort()
        rules = sorted(k for k, v in vars(sm).items() if k not in STD_KEYS and not k.startswith("__"))
    except Exception as exc:  # noqa: BLE001
        trs = None
        rules = type(exc).__name__
    maps = []
    for path in schema.raw_schema.get("paths", {}):
        mm = schema[path]
        keys = list(mm)
        assert len(mm) == len(keys)
        # generation/hypothesis/builder.py:507 (the default unexpected methods, HEAD left out)
        unspecified = sorted({"get", "put", "post", "delete", "options", "patch", "trace"} - set(mm))
        maps.append((path, keys, unspecified))
    return {"offered": offered, "errors": errors, "stat": stat, "iterated": iterated, "transitions": trs, "rules": rules, "maps": maps}


def _sym(v):
    """Constructor arguments that are bare identifiers come back as core.Sym."""
    if isinstance(v, core.Sym):
        return None if v.name == "None" else v.name
    return v


def canon_model(v) -> dict:
    if isinstance(v, tuple) and v[0] == "ORejected":
        return {"rejected": (_sym(v[1]), v[2])}
    assert isinstance(v, tuple) and v[0] == "OOk", v
    _, offered, stat, iterated, trs = v
    trs = _sym(trs)
    t = None
    if trs is not None:
        t = sorted((pstr(a), pstr(b), pstr(c), pstr(d)) for a, b, c, d in trs[1])
    return {
        "offered": [(pstr(p), pstr(m)) for p, m in offered],
        "stat": tuple(stat),
        "iterated": iterated,
        "transitions": t,
    }


def canon_maps(maps) -> list:
    return [(pstr(p), [pstr(k) for k in keys], sorted(pstr(m) for m in uns)) for p, keys, uns in maps]


def canon_impl(obs) -> dict:
    if isinstance(obs, tuple):
        return {"rejected": (obs[1], obs[2])}
    return {"offered": obs["offered"], "stat": tuple(obs["stat"]), "iterated": obs["iterated"], "transitions": obs["transitions"],
            "maps": obs["maps"]}


# ----------------------------------------------------------------------------------------
# the independent oracle: the property text, evaluated naively on the resolved definitions
# ----------------------------------------------------------------------------------------
def _attr(a, path, key, definition):
    if a == "name":
        return f"{key.upper()} {path}"
    if a == "method":
        return key.upper()
    if a == "path":
        return path
    if a == "tag":
        return definition.get("tags")
    return definition.get("operationId")


def _pointer(doc, pointer):
    if pointer == "":
        return True, doc
    if not pointer.startswith("/"):
        return False, None
    cur = doc
    for tok in pointer.split("/")[1:]:
        tok = tok.replace("~1", "/").replace("~0", "~")
        if isinstance(cur, dict):
            if tok not in cur:
                return False, None
            cur = cur[tok]
        elif isinstance(cur, list):
            # RFC 6901: an array index is "0" or ASCII digits without a leading zero (what a JSON pointer denotes)
            if re.fullmatch(r"0|[1-9][0-9]*", tok, flags=re.ASCII) is None or int(tok) >= len(cur):
                return False, None
            cur = cur[int(tok)]
        else:
            return False, None
    return True, cur


def _matcher(call_key, spec, path, key, definition) -> bool:
    if call_key == "func":
        if spec[0] == "deprecated":
            return definition.get("deprecated") is True
        if spec[0] == "path_len_even":
            return len(path) % 2 == 0
        if spec[0] == "safe_method":
            return key.upper() in ("GET", "HEAD")
        found, value = _pointer(definition, spec[1])
        eq = found and value == spec[3] and type(value) is type(spec[3])
        return eq if spec[2] == "==" else not eq
    if call_key.endswith("_regex"):
        a = call_key[: -len("_regex")]
        value = _attr(a, path, key, definition)
        flags = re.IGNORECASE if a == "method" else 0
        rx = re.compile(rx_pattern(spec), flags)
        if value is None:
            return False
        if isinstance(value, list):
            return any(rx.search(v) for v in value)
        return bool(rx.search(value))
    value = _attr(call_key, path, key, definition)
    expected = spec
    if call_key == "method":
        expected = [e.upper() for e in spec] if isinstance(spec, list) else spec.upper()
    if value is None:
        return False
    wanted = expected if isinstance(expected, list) else [expected]
    if isinstance(value, list):
        return any(v in wanted for v in value)
    return value in wanted


def oracle_filters(calls) -> tuple[list, list]:
    """Chain of calls -> (include filters, exclude filters), each a list of (key, spec) conjunctions."""
    inc, exc = [], []
    for call in calls:
        ms = [(k, v) for k, v in call.items() if k not in ("kind", "deprecated") and v is not None]
        if call["kind"] == "include":
            inc.append(ms)
        else:
            if call.get("deprecated"):
                if any(k == "func" for k, _ in ms):
                    exc.append([("func", ["deprecated"])])
                else:
                    ms = ms + [("func", ["deprecated"])]
            exc.append(ms)
    return inc, exc


def oracle_selected(calls, path, key, definition) -> bool:
    inc, exc = oracle_filters(calls)
    hit = lambda f: all(_matcher(k, s, path, key, definition) for k, s in f)  # noqa: E731
    if any(hit(f) for f in exc):
        return False
    return not inc or any(hit(f) for f in inc)


def check_property(chk, raw, mdoc, calls, obs, where: str):
    """The property itself on one observation of the implementation."""
    case = {"doc": raw["paths"], "calls": calls}
    ops = [(p, k, r, z) for p, entries in mdoc for k, r, z in entries if k in HTTP]
    want = [(p, k) for p, k, r, z in ops if oracle_selected(calls, p, k, z)]
    if obs["offered"] != want:
        chk.fail(f"{where}: offered operations differ from the selected ones", case, {"offered": obs["offered"], "selected": want})
        return
    defined = {(p, k) for p, k, r, z in ops}
    for p, keys, unspecified in obs.get("maps", []):
        for m in unspecified:
            if (p, m) in defined:
                chk.fail(
                    f"{where}: the coverage phase would send {m.upper()} {p} as an unspecified method although that operation is "
                    f"defined ({'selected' if (p, m) in want else 'NOT selected'})", case, {"schema[path]": keys, "unspecified": unspecified},
                    region=None if len({k.lower() for k, _r, _z in dict(mdoc)[p]}) == len(dict(mdoc)[p]) else "case_variant_keys",
                )
    independent = all(oracle_selected(calls, p, k, r) == oracle_selected(calls, p, k, z) for p, k, r, z in ops)
    if obs["stat"][0] != len(ops):
        chk.fail(f"{where}: total operation count differs from the number of operations", case, obs["stat"])
    if obs["stat"][1] != len(want):
        chk.fail(
            f"{where}: reported selected operations {obs['stat'][1]} but {len(want)} offered", case, obs["stat"],
            region=None if independent else "statistic_on_raw_definition",
        )
    if obs["transitions"] is not None:
        labels = {f"{k.upper()} {p}" for p, k in want}
        for t in obs["transitions"]:
            if t[3] not in labels or t[0] not in labels:
                chk.fail(f"{where}: state machine has a transition from/to an operation that is not selected", case, t)
        ids = [z.get("operationId") for p, k, r, z in ops if isinstance(r, dict) and r.get("operationId") is not None]
        dup = len(ids) != len(set(ids))
        if obs["stat"][3] != len(obs["transitions"]):
            region = None
            odd_ref = False
            for _p, _k, r, _z in ops:
                for resp in (r.get("responses", {}) or {}).values() if isinstance(r, dict) else []:
                    for ldef in (resp.get("links") or {}).values():
                        ref = ldef.get("operationRef") if "operationId" not in ldef else None
                        if ref is not None and ref.rsplit("/", 1)[-1] not in HTTP:
                            odd_ref = True
            if not independent:
                region = "statistic_on_raw_definition"
            elif dup:
                region = "duplicate_operation_id"
            elif odd_ref:
                region = "ref_to_non_method_key"
            chk.fail(
                f"{where}: reported selected links {obs['stat'][3]} but {len(obs['transitions'])} transitions", case,
                {"stat": obs["stat"], "transitions": obs["transitions"]}, region=region,
            )
        if isinstance(obs["rules"], list):
            n_link_rules = len([r for r in obs["rules"] if not r.startswith("RANDOM_")])
            if n_link_rules != len(obs["transitions"]):
                chk.fail(f"{where}: {n_link_rules} link rules for {len(obs['transitions'])} transitions", case, obs["rules"])


# ----------------------------------------------------------------------------------------
def compare_batch(chk, raw, chains, stage: str):
    """One document, many chains of calls: implementation vs model (one Coq expression per <= 40 chains)."""
    mdoc = model_doc(raw)
    cdoc = c_doc(mdoc)
    impl = []
    exprs = []
    CH = 40
    for i in range(0, len(chains), CH):
        part = chains[i : i + CH]
        cases = []
        for calls in part:
            funcs = Funcs()
            cases.append(clist([c_call(c, funcs) for c in calls], "call"))
            built = build_schema(raw, calls, funcs)
            impl.append(built if isinstance(built, tuple) else observe_schema(built))
        exprs.append(f"(let d := {cdoc} in (doc_maps fs_empty d, map (run_case d) {clist(cases, '(list call)')}))")
    return mdoc, impl, exprs


def run_correspondence(chk, work: list[tuple[dict, list]], stage: str):
    """work: [(raw doc, [chain, ...])]"""
    all_exprs, index = [], []
    for raw, chains in work:
        mdoc, impl, exprs = compare_batch(chk, raw, chains, stage)
        index.append((raw, mdoc, chains, impl, len(exprs)))
        all_exprs += exprs
    model = core.coq_eval(IMPORTS, all_exprs, shard=12, jobs=8)
    pos = 0
    n = 0
    for raw, mdoc, chains, impl, ne in index:
        flat = [v for part in model[pos : pos + ne] for v in part[1]]
        m_maps = canon_maps(model[pos][0]) if ne else []
        pos += ne
        assert len(flat) == len(chains)
        for calls, obs, mv in zip(chains, impl, flat):
            n += 1
            case = {"doc": raw["paths"], "calls": calls}
            ci, cm = canon_impl(obs), canon_model(mv)
            rejected = "rejected" in ci
            if not rejected:
                cm["maps"] = m_maps
            chk.seen(case, nontrivial=not rejected and 0 < len(ci["offered"]) < ci["stat"][0])
            chk.count(f"{stage}:calls={len(calls)}")
            chk.count(f"{stage}:" + ("rejected:" + ci["rejected"][0] if rejected else "sm=" + ("raises" if ci["transitions"] is None else "ok")))
            if not rejected and obs["errors"]:
                chk.disagree(f"{stage}: get_all_operations yielded errors on a universe document", case, obs["errors"], None)
                continue
            if ci != cm:
                chk.disagree(f"{stage}: real schema object vs Model_C07.run_case", case, ci, cm)
            if not rejected:
                if ci["transitions"]:
                    chk.count(f"{stage}:with-transitions")
                check_property(chk, raw, mdoc, calls, obs, stage)
                chk.sample({"paths": {p: list(i) if isinstance(i, dict) else i for p, i in raw["paths"].items()}, "calls": calls,
                            "offered": ci["offered"], "stat": ci["stat"]}) if ci["transitions"] else None
    return n


# ----------------------------------------------------------------------------------------
# pytest: direct parametrization and lazy fixtures (one pytest session for a list of configurations)
# ----------------------------------------------------------------------------------------
PYTEST_MODULE = r"""
import json, os
import pytest
from hypothesis import settings, HealthCheck
import schemathesis
from harness.props import c07

CFG = json.load(open(os.environ["C07_PYTEST_CFG"]))
SEEN = {}


def apply(schema, calls, funcs):
    for call in calls:
        kw = c07.py_kwargs(call, funcs)
        func = kw.pop("func", None)
        schema = schema.include(func, **kw) if call["kind"] == "include" else schema.exclude(func, **kw)
    return schema


def make(i, cfg):
    funcs = c07.Funcs()
    raw = c07.base_doc(cfg["paths"])

    @pytest.fixture(name=f"api_{i}")
    def api():
        return apply(schemathesis.openapi.from_dict(raw), cfg["fixture_calls"], funcs)

    lazy = apply(schemathesis.pytest.from_fixture(f"api_{i}"), cfg["lazy_calls"], funcs)

    @lazy.parametrize()
    @settings(max_examples=1, deadline=None, database=None, suppress_health_check=list(HealthCheck))
    def test_lazy(case):
        SEEN.setdefault(f"lazy_{i}", []).append(case.operation.label)

    try:
        direct = apply(apply(schemathesis.openapi.from_dict(raw), cfg["fixture_calls"], funcs), cfg["lazy_calls"], funcs)
    except schemathesis.core.errors.IncorrectUsage:
        SEEN[f"direct_{i}"] = "rejected"

        def test_direct():
            pass

        return api, test_lazy, test_direct

    @direct.parametrize()
    @settings(max_examples=1, deadline=None, database=None, suppress_health_check=list(HealthCheck))
    def test_direct(case):
        SEEN.setdefault(f"direct_{i}", []).append(case.operation.label)

    return api, test_lazy, test_direct


for _i, _cfg in enumerate(CFG):
    globals()[f"api_{_i}"], globals()[f"test_lazy_{_i}"], globals()[f"test_direct_{_i}"] = make(_i, _cfg)


def test_zzz_dump():
    json.dump(SEEN, open(os.environ["C07_PYTEST_OUT"], "w"))
"""


def pytest_session(configs: list[dict]) -> dict:
    """Labels of the operations whose test body ran, per configuration, for the lazy and the direct parametrization."""
    import os

    td = tempfile.mkdtemp(dir=core.SCRATCH, prefix="c07_pytest_")
    try:
        mod = os.path.join(td, "test_c07_generated.py")
        with open(mod, "w") as fd:
            fd.write(PYTEST_MODULE)
        cfg, out = os.path.join(td, "cfg.json"), os.path.join(td, "out.json")
        with open(cfg, "w") as fd:
            json.dump(configs, fd)
        env = dict(os.environ, C07_PYTEST_CFG=cfg, C07_PYTEST_OUT=out, PYTHONPATH=os.pathsep.join(p for p in sys.path if p))
        p = subprocess.run(
            [sys.executable, "-m", "pytest", "-q", "--continue-on-collection-errors", "-p", "no:cacheprovider", "--no-header", mod],
            capture_output=True, text=True, timeout=600, cwd=td, env=env,
        )
        if not os.path.exists(out):
            raise RuntimeError(f"pytest session produced no output: rc={p.returncode} {p.stdout[-1500:]} {p.stderr[-500:]}")
        return json.load(open(out))
    finally:
        import shutil

        shutil.rmtree(td, ignore_errors=True)


def run_pytest_stage(chk, configs: list[dict]):
    seen = pytest_session(configs)
    exprs = []
    for cfg in configs:
        funcs = Funcs()
        raw = base_doc(cfg["paths"])
        cdoc = c_doc(model_doc(raw))
        fix = clist([c_call(c, funcs) for c in cfg["fixture_calls"]], "call")
        lazy = clist([c_call(c, funcs) for c in cfg["lazy_calls"]], "call")
        exprs.append(
            f"(let d := {cdoc} in (match apply_calls {fix} fs_empty 0, apply_calls {lazy} fs_empty 0 with "
            f"| inl f, inl l => Some (map op_label (lazy_operations f l d)) | _, _ => None end, "
            f"match apply_calls ({fix} ++ {lazy}) fs_empty 0 with inl b => Some (map op_label (get_all_operations b d)) | inr _ => None end))"
        )
    model = core.coq_eval(IMPORTS, exprs, shard=20)
    for i, (cfg, mv) in enumerate(zip(configs, model)):
        case = {"pytest": cfg}
        chk.seen(case, True)
        chk.count("pytest:" + ("fixture-filtered" if cfg["fixture_calls"] else "fixture-unfiltered"))
        lazy_seen = sorted(set(seen.get(f"lazy_{i}", [])))
        direct_seen = seen.get(f"direct_{i}", [])
        direct_seen = direct_seen if direct_seen == "rejected" else sorted(set(direct_seen))
        m_lazy, m_direct = (_sym(part) for part in mv)
        m_lazy = None if m_lazy is None else sorted(pstr(x) for x in m_lazy[1])
        m_direct = "rejected" if m_direct is None else sorted(pstr(x) for x in m_direct[1])
        if lazy_seen != m_lazy:
            chk.disagree("pytest lazy fixture: tested operations vs Model_C07.lazy_operations", case, lazy_seen, m_lazy)
        if direct_seen != m_direct:
            chk.disagree("pytest parametrize: tested operations vs Model_C07.get_all_operations", case, direct_seen, m_direct)
        if direct_seen == "rejected":
            chk.count("pytest:combined-chain-rejected")
            continue
        # the property: both the fixture's and the lazy schema's filters decide
        mdoc = model_doc(base_doc(cfg["paths"]))
        calls = cfg["fixture_calls"] + cfg["lazy_calls"]
        want = sorted(f"{k.upper()} {p}" for p, es in mdoc for k, r, z in es if k in HTTP and oracle_selected(calls, p, k, z))
        if direct_seen != want:
            chk.fail("pytest parametrize: tested operations differ from the selected ones", case, {"tested": direct_seen, "selected": want})
        if lazy_seen != want:
            chk.fail(
                "pytest lazy fixture: tested operations differ from the selected ones", case, {"tested": lazy_seen, "selected": want},
                region="lazy_fixture_filters_dropped" if cfg["fixture_calls"] else None,
            )


def gen_pytest_configs(rng, n: int) -> list[dict]:
    docs = fixed_docs()
    singles = [c for c in single_calls() if "func" not in c or c["func"][0] != "expr" or True]
    out = []
    for _ in range(n):
        d = rng.choice([docs[0], docs[0], docs[2], docs[3], docs[4]])
        k = rng.random()
        fixture_calls = [] if k < 0.4 else [rng.choice(singles)]
        lazy_calls = [] if rng.random() < 0.3 else [rng.choice(singles)]
        if fixture_calls and lazy_calls and _hashable(fixture_calls[0]) == _hashable(lazy_calls[0]):
            lazy_calls = []
        out.append({"paths": d["paths"], "fixture_calls": fixture_calls, "lazy_calls": lazy_calls})
    return out


# ----------------------------------------------------------------------------------------
# engine runs against the counting loopback API
# ----------------------------------------------------------------------------------------
def engine_doc() -> dict:
    user = {"type": "object", "properties": {"name": {"type": "string", "example": "bob"}}, "required": ["name"], "additionalProperties": False}
    created = {"type": "object", "properties": {"id": {"type": "integer"}}, "required": ["id"]}
    id_param = {"name": "id", "in": "path", "required": True, "schema": {"type": "integer", "minimum": 1, "maximum": 50}}
    ok = {"200": {"description": "ok", "content": {"application/json": {"schema": {"type": "object"}}}}}
    raw = base_doc({
        "/users": {
            "post": {
                "operationId": "createUser", "tags": ["users", "write"],
                "requestBody": {"required": True, "content": {"application/json": {"schema": user}}},
                "responses": {"201": {"description": "created", "content": {"application/json": {"schema": created}},
                                      "links": {"get": {"operationId": "getUser", "parameters": {"id": "$response.body#/id"}},
                                                "delete": {"operationRef": ref_of("/users/{id}", "delete"), "parameters": {"id": "$response.body#/id"}},
                                                "update": {"operationId": "updateUser", "parameters": {"id": "$response.body#/id"}}}}},
            },
            "get": {"operationId": "listUsers", "tags": ["users"], "parameters": [{"$ref": "#/components/parameters/Id"}], "responses": ok},
        },
        "/users/{id}": {
            "parameters": [id_param],
            "get": {"operationId": "getUser", "tags": ["users"], "responses": {**ok, "404": {"description": "nf"}},
                    },
            "delete": {"operationId": "deleteUser", "tags": ["users", "danger"], "deprecated": True, "responses": ok},
            "put": {"operationId": "updateUser", "tags": ["write"],
                    "requestBody": {"required": True, "content": {"application/json": {"schema": user}}},
                    "responses": {"200": {"description": "ok", "content": {"application/json": {"schema": created}},
                                          "links": {"again": {"operationId": "getUser", "parameters": {"id": "$response.body#/id"}}}}}},
        },
        "/items": {"get": {"tags": ["items"], "responses": ok}, "delete": {"$ref": "#/components/x-ops/wipe"}},
        "/health": {"get": {"responses": ok}},
    })
    raw["components"]["x-ops"]["wipe"] = {"operationId": "wipeItems", "tags": ["danger"], "responses": ok}
    return raw


ENGINE_CALLS = [
    [],
    [{"kind": "exclude", "method": "DELETE"}],
    [{"kind": "exclude", "method": "delete"}, {"kind": "include", "tag": "users"}],
    [{"kind": "exclude", "tag": "danger"}],
    [{"kind": "include", "tag": ["users", "items"]}, {"kind": "exclude", "deprecated": True}],
    [{"kind": "exclude", "operation_id": "getUser"}],
    [{"kind": "exclude", "operation_id_regex": ["prefix", "delete"]}],
    [{"kind": "include", "path": "/users"}],
    [{"kind": "include", "path_regex": ["prefix", "/users"]}, {"kind": "exclude", "name": "PUT /users/{id}"}],
    [{"kind": "include", "method": ["post", "GET"]}],
    [{"kind": "exclude", "func": ["expr", "/deprecated", "==", True]}],
    [{"kind": "exclude", "func": ["expr", "/tags/-1", "==", "danger"]}],
    [{"kind": "exclude", "func": ["expr", "/tags/1", "==", "danger"]}],
    [{"kind": "exclude", "func": ["expr", "/tags/01", "==", "danger"]}],
    [{"kind": "include", "func": ["expr", "/parameters/0/name", "==", "id"]}],
    [{"kind": "include", "name_regex": ["suffix", "}"]}],
    [{"kind": "include", "operation_id": ["createUser", "getUser"]}],
    [{"kind": "exclude", "func": ["safe_method"]}],
    [{"kind": "exclude", "path": "/users/{id}", "method": "PUT"}, {"kind": "exclude", "tag_regex": ["exact", "items"]}],
]


def engine_responder(item):
    path = item["target"].split("?")[0]
    if item["method"] == "POST" and path == "/users":
        return 201, [("Content-Type", "application/json")], b'{"id": 7}'
    if item["method"] == "PUT" and path.startswith("/users/"):
        return 200, [("Content-Type", "application/json")], b'{"id": 7}'
    return 200, [("Content-Type", "application/json")], b"{}"


def run_engine_on(schema, rec, phases, seed, max_examples=3, negative=False):
    import hypothesis

    from schemathesis.generation import GenerationConfig, GenerationMode

    from schemathesis.engine import from_schema
    from schemathesis.engine.config import EngineConfig, ExecutionConfig, NetworkConfig
    from schemathesis.engine.phases import PhaseName

    schema.configure(base_url=rec.url)
    settings = hypothesis.settings(max_examples=max_examples, deadline=None, database=None, derandomize=False,
                                   suppress_health_check=list(hypothesis.HealthCheck), stateful_step_count=4)
    gen = GenerationConfig(modes=GenerationMode.all()) if negative else GenerationConfig()
    schema.generation_config = gen
    exe = ExecutionConfig(phases=[PhaseName.from_str(p) for p in phases], hypothesis_settings=settings, seed=seed, workers_num=2,
                          generation=gen)
    config = EngineConfig(execution=exe, network=NetworkConfig(headers={}))
    rec.take()
    evs = [type(ev).__name__ for ev in from_schema(schema, config=config).execute()]
    return evs, rec.take()


def classify_request(raw, item):
    """Received request -> (path template, method key) of the document, or None."""
    path = item["target"].split("?")[0]
    for template, pitem in raw["paths"].items():
        rx = "^" + re.sub(r"\\\{[^/]*?\\\}", "[^/]+", re.escape(template)) + "$"
        if re.match(rx, path):
            key = item["method"].lower()
            if key in pitem and key in HTTP:
                return (template, key)
    return None


def derive_children(schema, calls, read_statistic: bool) -> list:
    """Derive (and drop) children from the schema that is about to be run: a wider include when it has includes, a
    sweeping exclude when it has excludes.  The parent must not change."""
    from schemathesis.core.errors import IncorrectUsage

    done = []
    if read_statistic:
        schema.statistic
        done.append("statistic")
    try:
        if schema.filter_set._includes:
            schema.include(path_regex="^/")
            done.append("include(path_regex='^/')")
        if schema.filter_set._excludes:
            schema.exclude(method=["get", "post", "put", "delete"])
            done.append("exclude(method=[get,post,put,delete])")
    except IncorrectUsage:
        pass
    return done


def gen_pre_access(rng, raw) -> list:
    """What user code, an earlier phase or an earlier run may have done with the schema object before the engine runs
    it (same vocabulary as the access histories): lookups never consult the filters, so any operation may be named."""
    ops = [(p, k) for p, item in raw["paths"].items() for k, v in item.items() if k in HTTP and isinstance(v, dict)]
    ids = [v["operationId"] for p, item in raw["paths"].items() for k, v in item.items() if k in HTTP and isinstance(v, dict) and "operationId" in v]
    out = []
    for _ in range(rng.choice([1, 1, 2, 3])):
        k = rng.random()
        if k < 0.35:
            out.append(["machine"])
        elif k < 0.7:
            p, m = rng.choice(ops)
            out.append(["item", p, rng.choice([m, m.upper()])])
        elif k < 0.85:
            out.append(["id", rng.choice(ids)])
        else:
            out.append(["traverse"])
    return out


def run_engine_stage(chk, n: int):
    import schemathesis
    from harness.loopback import Recorder

    rng = chk.rng
    raw = engine_doc()
    mdoc = model_doc(raw)
    ops = [(p, k, r, z) for p, entries in mdoc for k, r, z in entries if k in HTTP]
    rec = Recorder(engine_responder)
    runs = 0
    try:
        configs = list(ENGINE_CALLS)
        rng.shuffle(configs)
        # filters that exclude some methods of a path while others of the same path stay selected (by method, tag,
        # operationId, name, deprecated, expression): always run first, with the coverage phase in negative mode
        partial = [c for c in ENGINE_CALLS if c and 0 < len({(p, k) for p, k, r, z in ops if oracle_selected(c, p, k, z) and p == "/users/{id}"}) < 3]
        rng.shuffle(partial)
        n_forced = min(len(partial), max(5, n // 3))
        plan = [(c, ["coverage"] if i % 2 == 0 else ["coverage", "fuzzing", "stateful"], True) for i, c in enumerate(partial[:n_forced])]
        for calls in (configs * (1 + n // len(configs)))[: max(0, n - len(plan))]:
            phases = rng.choice([["examples", "coverage", "fuzzing", "stateful"], ["fuzzing", "stateful"], ["coverage", "stateful"], ["examples", "fuzzing"], ["coverage"]])
            plan.append((calls, phases, rng.random() < 0.6))
        for calls, phases, negative in plan:
            via_cli = rng.random() < 0.35 and cli_expressible(calls)
            funcs = Funcs()
            if via_cli:
                schema = schemathesis.openapi.from_dict(copy.deepcopy(raw))
                schema.filter_set = cli_filter_arguments(calls).into()
            else:
                schema = build_schema(raw, calls, funcs)
            seed = rng.randrange(1, 10**6)
            derived = derive_children(schema, calls, rng.random() < 0.5) if rng.random() < 0.7 else []
            accessed = gen_pre_access(rng, raw) if rng.random() < 0.5 else []
            run_access_impl(schema, accessed)
            twice = "stateful" in phases and len(phases) > 1 and rng.random() < 0.2
            case = {"engine": {"calls": calls, "phases": phases, "seed": seed, "via_cli": via_cli, "negative": negative,
                               "children_derived_before_the_run": derived, "accessed_before_the_run": accessed,
                               "second_run_on_the_same_schema_object": twice}}
            evs, got = run_engine_on(schema, rec, phases, seed, negative=negative)
            if twice:
                evs2, got2 = run_engine_on(schema, rec, phases, seed + 1, negative=negative)
                evs, got = evs + evs2, got + got2
            runs += 1
            chk.seen(case, True)
            chk.count("engine:phases=" + "+".join(phases) + (":modes=all" if negative else ":modes=positive"))
            want = {(p, k) for p, k, r, z in ops if oracle_selected(calls, p, k, z)}
            hit: dict = {}
            for item in got:
                c = classify_request(raw, item)
                if c is not None:
                    hit[c] = hit.get(c, 0) + 1
            chk.count("engine:requests", len(got))
            for c, cnt in hit.items():
                if c not in want:
                    chk.fail(f"engine sent {cnt} request(s) to an operation that is not selected: {c[1].upper()} {c[0]}", case, {"hit": {f'{k.upper()} {p}': v for (p, k), v in hit.items()}})
            if "fuzzing" in phases or "coverage" in phases:
                for c in want:
                    if c not in hit:
                        chk.fail(f"selected operation never received a request: {c[1].upper()} {c[0]}", case, {"hit": {f'{k.upper()} {p}': v for (p, k), v in hit.items()}, "events": evs[-6:]})
            if runs <= 2:
                chk.sample({"engine_case": case["engine"], "requests_per_operation": {f"{k.upper()} {p}": v for (p, k), v in sorted(hit.items())}})
    finally:
        rec.close()
    return {"runs": runs}


def cli_expressible(calls) -> bool:
    """One value / regex per option and call, no lists, only expression functions and deprecated."""
    seen_rx = set()
    for c in calls:
        keys = [k for k in c if k not in ("kind", "deprecated")]
        if len(keys) + (1 if c.get("deprecated") else 0) != 1:
            return False
        for k in keys:
            if k == "func":
                if c[k][0] not in ("expr", "deprecated"):
                    return False
                if (c["kind"], "by") in seen_rx and c[k][0] == "expr":
                    return False
                seen_rx.add((c["kind"], "by"))
            elif k.endswith("_regex"):
                if (c["kind"], k) in seen_rx:
                    return False
                seen_rx.add((c["kind"], k))
            elif isinstance(c[k], list):
                return False
        if c.get("func") and c["func"][0] == "deprecated" and c["kind"] == "include":
            return False
    return True


def cli_filter_arguments(calls):
    from schemathesis.cli.commands.run.filters import FilterArguments

    kw: dict = {}
    for mode in ("include", "exclude"):
        for by in ("path", "method", "name", "tag", "operation_id"):
            kw[f"{mode}_{by}"] = []
            kw[f"{mode}_{by}_regex"] = None
    kw.update(include_by=None, exclude_by=None, exclude_deprecated=False)
    for c in calls:
        mode = c["kind"]
        if c.get("deprecated"):
            kw["exclude_deprecated"] = True
        for k, v in c.items():
            if k in ("kind", "deprecated"):
                continue
            if k == "func":
                if v[0] == "deprecated":
                    kw["exclude_deprecated"] = True
                else:
                    kw[f"{mode}_by"] = f"{v[1]} {v[2]} {json.dumps(v[3])}"
            elif k.endswith("_regex"):
                kw[f"{mode}_{k}"] = rx_pattern(v)
            else:
                kw[f"{mode}_{k}"].append(v)
    return FilterArguments(**kw)


# ----------------------------------------------------------------------------------------
# derivation histories: a tree of schemas, every node observed
# ----------------------------------------------------------------------------------------
def gen_history(rng, singles) -> list:
    events = []
    nodes = 1  # optimistic count (a rejected derivation just makes later indices point at earlier nodes or nowhere)
    for _ in range(rng.choice([2, 3, 4, 5, 6, 7])):
        if rng.random() < 0.25:
            events.append(["stat", rng.randrange(nodes + 1)])
            continue
        call = rng.choice(singles) if rng.random() < 0.8 else gen_call(rng)
        # aliasing needs a parent that already has a filter of the same kind: prefer recent nodes and repeat the kind
        parent = rng.randrange(nodes) if rng.random() < 0.5 else nodes - 1
        if events and rng.random() < 0.5:
            prev = [e for e in events if e[0] == "derive"]
            if prev:
                call = dict(call, kind=prev[-1][2]["kind"])
                if call["kind"] == "include":
                    call.pop("deprecated", None)
        events.append(["derive", parent, call])
        nodes += 1
    return events


def run_history_impl(raw, events, funcs: Funcs):
    import schemathesis
    from schemathesis.core.errors import IncorrectUsage

    nodes = [schemathesis.openapi.from_dict(copy.deepcopy(raw))]
    chains: list[list] = [[]]
    for ev in events:
        if ev[0] == "derive":
            _, p, call = ev
            if p >= len(nodes):
                continue
            kw = py_kwargs(call, funcs)
            func = kw.pop("func", None)
            try:
                child = nodes[p].include(func, **kw) if call["kind"] == "include" else nodes[p].exclude(func, **kw)
            except IncorrectUsage:
                continue
            nodes.append(child)
            chains.append(chains[p] + [call])
        else:
            if ev[1] < len(nodes):
                nodes[ev[1]].statistic  # cached_property
    return [observe_schema(n) for n in nodes], chains


def c_event(ev, funcs: Funcs) -> str:
    if ev[0] == "derive":
        return f"(EDerive {ev[1]}%nat {c_call(ev[2], funcs)})"
    return f"(EStat {ev[1]}%nat)"


def run_history_stage(chk, n_docs: int, per_doc: int):
    rng = chk.rng
    singles = single_calls()
    docs = fixed_docs()[:5]
    exprs, index = [], []
    for i in range(n_docs):
        raw = docs[i % len(docs)] if i < 2 * len(docs) else gen_doc(rng)
        mdoc = model_doc(raw)
        cdoc = c_doc(mdoc)
        hs, impls = [], []
        for _ in range(per_doc):
            events = gen_history(rng, singles)
            funcs = Funcs()
            rendered = clist([c_event(e, funcs) for e in events], "event")
            impls.append((events,) + run_history_impl(raw, events, funcs))
            hs.append(rendered)
        exprs.append(f"(let d := {cdoc} in map (run_history d) {clist(hs, '(list event)')})")
        index.append((raw, mdoc, impls))
    model = core.coq_eval(IMPORTS, exprs, shard=8)
    n = 0
    for (raw, mdoc, impls), mvs in zip(index, model):
        for (events, obs_nodes, chains), mv in zip(impls, mvs):
            n += 1
            case = {"doc": raw["paths"], "history": events}
            chk.seen(case, len(obs_nodes) >= 3)
            chk.count(f"history:nodes={len(obs_nodes)}")
            impl_c = [(o["offered"], tuple(o["stat"]), o["transitions"]) for o in obs_nodes]
            model_c = []
            for offered, stat, trs in mv:
                trs = _sym(trs)
                model_c.append(([(pstr(p), pstr(m)) for p, m in offered], tuple(stat),
                                None if trs is None else sorted((pstr(a), pstr(b), pstr(c), pstr(d)) for a, b, c, d in trs[1])))
            if impl_c != model_c:
                chk.disagree("history: every node of the schema tree vs Model_C07.run_history", case, impl_c, model_c)
            # the property, node by node: each schema answers for ITS OWN chain of calls only
            for i, (obs, chain) in enumerate(zip(obs_nodes, chains)):
                if obs["errors"]:
                    continue
                check_property(chk, raw, mdoc, chain, obs, f"history node {i} of {len(obs_nodes)} (own chain {json.dumps(chain)[:200]}, history {json.dumps(events)[:300]})")
    return {"histories": n, "documents": n_docs}


# ----------------------------------------------------------------------------------------
# access histories: lookups / traversals / statistics / state machines on ONE schema object (the operation cache)
# ----------------------------------------------------------------------------------------
def access_universe(raw, mdoc) -> dict:
    """What can be looked up on this document: operation ids (raw and resolved, plus an unknown one), references to
    every operation-like entry (mixed-case keys included, plus dangling ones), schema[path][method] spellings."""
    ids, refs, items, owner = [], [], [], {}
    for path, entries in mdoc:
        for key, r, z in entries:
            if not isinstance(r, dict) or key.lower() not in HTTP:
                continue
            refs.append(ref_of(path, key))
            owner[ref_of(path, key)] = (path, key)
            for spelling in (key, key.upper(), key.lower(), key.capitalize()):
                if (path, spelling) not in items:
                    items.append((path, spelling))
                    owner[(path, spelling)] = (path, key.lower())
            for definition in (r, z):
                i = definition.get("operationId") if isinstance(definition, dict) else None
                if isinstance(i, str) and i not in ids:
                    ids.append(i)
                if isinstance(i, str):
                    owner.setdefault(("id", i), []).append((path, key))
    return {"ids": ids, "refs": refs, "items": items, "owner": owner,
            "bad_ids": ["nope"], "bad_refs": [ref_of("/zz", "get")] + [ref_of(p, "patch") for p, _ in mdoc[:1]],
            "bad_items": [(p, "patch") for p, _ in mdoc[:1]] + [("/zz", "get")]}


def gen_access_history(rng, uni, unselected: set) -> list:
    """A random access history; lookups prefer operations that are defined but NOT selected, and every history ends
    with a traversal and a statistic measurement (what a later phase / a second run does)."""
    def lookup():
        k = rng.random()
        prefer = rng.random() < 0.6

        def pick(cands, owners_of):
            if prefer:
                hot = [c for c in cands if any(o in unselected for o in owners_of(c))]
                if hot:
                    return rng.choice(hot)
            return rng.choice(cands)

        if k < 0.35 and (uni["ids"] or uni["bad_ids"]):
            if uni["ids"] and rng.random() < 0.9:
                return ["id", pick(uni["ids"], lambda i: uni["owner"].get(("id", i), []))]
            return ["id", rng.choice(uni["bad_ids"])]
        if k < 0.6 and uni["refs"]:
            if rng.random() < 0.9:
                return ["ref", pick(uni["refs"], lambda r: [uni["owner"][r]])]
            return ["ref", rng.choice(uni["bad_refs"])]
        if uni["items"]:
            if rng.random() < 0.9:
                return ["item", *pick(uni["items"], lambda it: [uni["owner"][it]])]
            return ["item", *rng.choice(uni["bad_items"])]
        return ["traverse"]

    h = []
    for _ in range(rng.choice([1, 1, 2, 2, 3, 4, 6])):
        k = rng.random()
        if k < 0.55:
            h.append(lookup())
        elif k < 0.7:
            h.append(["machine"])
        elif k < 0.85:
            h.append(["traverse"])
        else:
            h.append([rng.choice(["stat", "measure"])])
    h.append(["traverse"])
    h.append([rng.choice(["stat", "measure"])])
    if rng.random() < 0.5:
        h += [["machine"], ["traverse"]]
    return h


def observe_machine(schema):
    """Sorted transitions of as_state_machine(), or None when building raises."""
    try:
        sm = schema.as_state_machine()
    except Exception:  # noqa: BLE001
        return None
    trs = []
    for source, t in sm._transitions.operations.items():
        for link in t.outgoing:
            trs.append((source, str(link.status_code), link.name, link.target.label))
    return sorted(trs)


def run_access_impl(schema, history) -> list:
    """The history on the real schema object -> one canonical observation per access."""
    from schemathesis.core.result import Ok

    out = []
    for a in history:
        kind = a[0]
        if kind in ("id", "ref", "item"):
            try:
                if kind == "id":
                    o = schema.get_operation_by_id(a[1])
                elif kind == "ref":
                    o = schema.get_operation_by_reference(a[1])
                else:
                    o = schema[a[1]][a[2]]
                out.append(("lookup", (o.path, o.method)))
            except Exception:  # noqa: BLE001  (OperationNotFound, LookupError, RefResolutionError)
                out.append(("lookup", None))
        elif kind == "traverse":
            results = list(schema.get_all_operations())
            errors = [type(r.err()).__name__ for r in results if not isinstance(r, Ok)]
            if errors:
                out.append(("offered-errors", errors))
            else:
                out.append(("offered", [(r.ok().path, r.ok().method) for r in results]))
        elif kind in ("stat", "measure"):
            st = schema.statistic if kind == "stat" else schema._measure_statistic()
            out.append(("statistic", (st.operations.total, st.operations.selected, st.links.total, st.links.selected)))
        elif kind == "machine":
            out.append(("machine", observe_machine(schema)))
        else:
            raise ValueError(a)
    return out


def c_access(a) -> str:
    kind = a[0]
    if kind == "id":
        return f"(AById {cstr(a[1])})"
    if kind == "ref":
        return f"(AByRef {cstr(a[1])})"
    if kind == "item":
        return f"(AItem {cstr(a[1])} {cstr(a[2])})"
    return {"traverse": "ATraverse", "stat": "AStat", "measure": "AMeasure", "machine": "AMachine"}[kind]


def canon_aobs(v):
    tag = v[0]
    if tag == "OLookup":
        r = _sym(v[1])
        return ("lookup", None if r is None else (pstr(r[1][0]), pstr(r[1][1])))
    if tag == "OOffered":
        return ("offered", [(pstr(p), pstr(m)) for p, m in v[1]])
    if tag == "OStatistic":
        return ("statistic", tuple(v[1]))
    if tag == "OMachine":
        r = _sym(v[1])
        return ("machine", None if r is None else sorted((pstr(a), pstr(b), pstr(c), pstr(d)) for a, b, c, d in r[1]))
    raise ValueError(v)


def links_region(ops, independent: bool):
    """Listed regions in which 'links selected' is known to differ from the number of transitions."""
    ids = [z.get("operationId") for p, k, r, z in ops if isinstance(r, dict) and r.get("operationId") is not None]
    odd_ref = False
    for _p, _k, r, _z in ops:
        for resp in (r.get("responses", {}) or {}).values() if isinstance(r, dict) else []:
            for ldef in (resp.get("links") or {}).values():
                ref = ldef.get("operationRef") if "operationId" not in ldef else None
                if ref is not None and ref.rsplit("/", 1)[-1] not in HTTP:
                    odd_ref = True
    if not independent:
        return "statistic_on_raw_definition"
    if len(ids) != len(set(ids)):
        return "duplicate_operation_id"
    if odd_ref:
        return "ref_to_non_method_key"
    return None


def item_access_inconsistent(mdoc, accesses) -> bool:
    """Region of finding C07-F6 (Model_C07.item_accesses_consistent = false): some schema[path][method] access files the
    operation it builds under an operationId that a fresh get_operation_by_id resolves to ANOTHER (or no) operation."""
    by_path = dict(mdoc)
    for a in accesses:
        if a[0] != "item" or a[1] not in by_path:
            continue
        hit = [(k, r, z) for k, r, z in by_path[a[1]] if k.lower() == a[2].lower()]
        if not hit or not isinstance(hit[-1][2], dict) or not isinstance(hit[-1][2].get("operationId"), str):
            continue
        rid = hit[-1][2]["operationId"]
        fresh = [(p, k) for p, entries in mdoc for k, r, z in entries if k in HTTP and isinstance(r, dict) and r.get("operationId") == rid]
        if not fresh or fresh[-1] != (a[1], a[2].lower()):
            return True
    return False


def access_failures(mdoc, calls, history, obs) -> list:
    """The property on one access history of the implementation (independent oracle): every traversal offers exactly
    the selected operations, every statistic reports their number, no transition touches an unselected operation,
    the reported number of selected links is the number of transitions.  -> [(what, step, detail, region)]"""
    ops = [(p, k, r, z) for p, entries in mdoc for k, r, z in entries if k in HTTP]
    ops_all = ops
    want = [(p, k) for p, k, r, z in ops if oracle_selected(calls, p, k, z)]
    labels = {f"{k.upper()} {p}" for p, k in want}
    independent = all(oracle_selected(calls, p, k, r) == oracle_selected(calls, p, k, z) for p, k, r, z in ops)
    out = []
    last_stat = None
    for step, (a, o) in enumerate(zip(history, obs)):
        tag, value = o
        before = [x for x in history[:step] if x[0] not in ("stat", "measure")]
        if tag == "offered":
            if value != want:
                extra = [f"{k.upper()} {p}" for p, k in value if (p, k) not in want]
                missing = [f"{k.upper()} {p}" for p, k in want if (p, k) not in value]
                what = "access history: traversal offers " + (
                    f"{', '.join(extra)} although it is NOT selected" if extra else
                    f"not {', '.join(missing)} although it is selected" if missing else "the selected operations in another order / twice")
                out.append((what + f" (step {step}, after {json.dumps(before)[:200]})", step, {"offered": value, "selected": want}, None))
        elif tag == "statistic":
            last_stat = value
            if value[0] != len(ops):
                out.append((f"access history: total operation count {value[0]} differs from the number of operations {len(ops)} (step {step})", step, value, None))
            if value[1] != len(want):
                out.append((f"access history: reported selected operations {value[1]} but {len(want)} selected (step {step})", step, value,
                            None if independent else "statistic_on_raw_definition"))
        elif tag == "machine" and value is not None:
            for t in value:
                if t[0] not in labels or t[3] not in labels:
                    out.append((f"access history: state machine has a transition from/to an operation that is not selected: {t[0]} -> {t[3]} "
                                f"(step {step}, after {json.dumps(before)[:200]})", step, t, None))
    # reported selected links vs transitions actually built on this object
    if last_stat is not None:
        for step, (tag, value) in enumerate(obs):
            if tag == "machine" and value is not None and len(value) != last_stat[3]:
                before = [x for x in history[:step] if x[0] not in ("stat", "measure")]
                out.append((f"access history: reported selected links {last_stat[3]} but {len(value)} transitions "
                            f"(step {step}, after {json.dumps(before)[:200]})", step, {"statistic": last_stat, "transitions": value},
                            links_region(ops_all, independent)
                            or ("item_access_refiles_operation_id" if item_access_inconsistent(mdoc, history[:step]) else None)))
    # reported count vs offered count inside ONE history (whatever the oracle thinks is selected)
    offered_lens = {len(v) for t, v in obs if t == "offered"}
    if last_stat is not None and offered_lens and offered_lens != {last_stat[1]}:
        out.append((f"access history: {sorted(offered_lens)} operations offered by the traversals of one schema object, {last_stat[1]} reported as selected",
                    len(obs) - 1, {"statistic": last_stat}, None if independent else "statistic_on_raw_definition"))
    return out


def access_case_fails(raw, mdoc, calls, history, what_prefix: str) -> bool:
    """Does a (shortened) history still violate the property on a FRESH schema object?  (for minimisation)"""
    schema = build_schema(raw, calls, Funcs())
    if isinstance(schema, tuple):
        return False
    obs = run_access_impl(schema, history)
    return any(w.split(" (step")[0] == what_prefix and region is None for w, _s, _d, region in access_failures(mdoc, calls, history, obs))


def run_access_stage(chk, n_docs: int, chains_per_doc: int, histories_per_chain: int, corpus=()):
    rng = chk.rng
    singles = single_calls()
    docs = fixed_docs()[:6]
    exprs, index = [], []
    for c in corpus:  # hand-picked / minimised histories first
        raw = base_doc(c["paths"])
        mdoc = model_doc(raw)
        funcs = Funcs()
        c_calls = clist([c_call(x, funcs) for x in c["calls"]], "call")
        schema = build_schema(raw, c["calls"], funcs)
        impl = None if isinstance(schema, tuple) else run_access_impl(schema, c["accesses"])
        exprs.append(f"(let d := {c_doc(mdoc)} in map (fun ch : list call * list access => run_access false d (fst ch) (snd ch)) "
                     f"[{ctuple(c_calls, clist([c_access(a) for a in c['accesses']], 'access'))}])")
        index.append((raw, mdoc, [(c["calls"], c["accesses"], impl)]))
    for i in range(n_docs):
        raw = docs[i % len(docs)] if i < 2 * len(docs) else gen_doc(rng)
        mdoc = model_doc(raw)
        cdoc = c_doc(mdoc)
        uni = access_universe(raw, mdoc)
        ops = [(p, k, z) for p, entries in mdoc for k, r, z in entries if k in HTTP]
        rendered, cases = [], []
        for _ in range(chains_per_doc):
            # filter sets that leave SOME operation out are the interesting ones; keep the empty chain as well
            for _try in range(6):
                calls = [] if rng.random() < 0.08 else [rng.choice(singles) if rng.random() < 0.7 else gen_call(rng) for _ in range(rng.choice([1, 1, 2]))]
                unselected = {(p, k) for p, k, z in ops if not oracle_selected(calls, p, k, z)}
                if unselected and len(unselected) < len(ops):
                    break
            for _ in range(histories_per_chain):
                history = gen_access_history(rng, uni, unselected)
                funcs = Funcs()
                c_calls = clist([c_call(c, funcs) for c in calls], "call")
                schema = build_schema(raw, calls, funcs)
                impl = None if isinstance(schema, tuple) else run_access_impl(schema, history)
                rendered.append(ctuple(c_calls, clist([c_access(a) for a in history], "access")))
                cases.append((calls, history, impl))
        exprs.append(f"(let d := {cdoc} in map (fun ch : list call * list access => run_access false d (fst ch) (snd ch)) "
                     f"{clist(rendered, '(list call * list access)')})")
        index.append((raw, mdoc, cases))
    model = core.coq_eval(IMPORTS, exprs, shard=6)
    n = 0
    reported = set()
    for (raw, mdoc, cases), mvs in zip(index, model):
        for (calls, history, impl), mv in zip(cases, mvs):
            n += 1
            case = {"doc": raw["paths"], "calls": calls, "accesses": history}
            mv = _sym(mv)
            cm = None if mv is None else [canon_aobs(o) for o in mv[1]]
            chk.seen(case, impl is not None and any(a[0] in ("id", "ref", "item", "machine") for a in history[:-2]))
            chk.count("access:" + ("rejected" if impl is None else f"len={len(history)}"))
            if impl is None or cm is None:
                if not (impl is None and cm is None):
                    chk.disagree("access history: chain of calls accepted by one side only", case, impl, cm)
                continue
            for a, o in zip(history, impl):
                chk.count(f"access:{a[0]}:" + ("raises" if o[1] is None else "ok"))
            ci = [(t, v) for t, v in impl]
            if ci != cm:
                chk.disagree("access history: one real schema object vs Model_C07.run_access", case, ci, cm)
            for what, step, detail, region in access_failures(mdoc, calls, history, impl):
                key = (what.split(" (step")[0], json.dumps(calls, sort_keys=True))
                if region is None and key in reported:
                    chk.count("access:further-failing-histories-of-a-reported-kind")
                    continue
                if region is None and len(reported) >= 12:
                    chk.count("access:further-failing-histories-beyond-the-report-cap")
                    continue
                if region is None:
                    # a concrete failing input: cut the history down to what is needed (fresh schema object each time)
                    reported.add(key)
                    prefix = what.split(" (step")[0]
                    short = core.shrink_list(history[: step + 1], lambda h: access_case_fails(raw, mdoc, calls, h, prefix))
                    if access_case_fails(raw, mdoc, calls, short, prefix):
                        sobs = run_access_impl(build_schema(raw, calls, Funcs()), short)
                        w2, _s2, d2, _r2 = next(f for f in access_failures(mdoc, calls, short, sobs) if f[0].split(" (step")[0] == prefix and f[3] is None)
                        chk.fail(w2, {"doc": raw["paths"], "calls": calls, "accesses": short}, {"observations": sobs, **({"oracle": d2} if isinstance(d2, dict) else {"at": d2})})
                        continue
                chk.fail(what, case, detail, region=region)
    out = {"histories": n, "documents": n_docs}
    bad = [b for b in chk.broken if b.get("what", "").startswith("access history: one real schema object")][:40]
    if bad:
        # diagnosis: does the implementation behave like the SENTINEL variant (traversal reuses the cache before the filters)?
        exprs = []
        for b in bad:
            funcs = Funcs()
            c = b["input"]
            exprs.append(f"run_access true {c_doc(model_doc(base_doc(c['doc'])))} {clist([c_call(x, funcs) for x in c['calls']], 'call')} "
                         f"{clist([c_access(a) for a in c['accesses']], 'access')}")
        like = 0
        for b, mv in zip(bad, core.coq_eval(IMPORTS, exprs, shard=10)):
            mv = _sym(mv)
            like += mv is not None and [canon_aobs(o) for o in mv[1]] == b["implementation"]
        out["disagreeing_histories_explained_by_the_cache_reuse_sentinel"] = f"{like} of {len(bad)}"
        chk.notes.append(f"access histories: {like} of {len(bad)} disagreeing histories are reproduced exactly by the sentinel model "
                         f"run_access true (get_all_operations takes operation-cache hits before the filter test)")
    return out


# ----------------------------------------------------------------------------------------
# CLI: FilterArguments.into()
# ----------------------------------------------------------------------------------------
CLI_BY = ["name", "method", "path", "tag", "operation_id"]


def gen_cli(rng) -> dict:
    def side():
        sd: dict = {"by": None}
        for a in CLI_BY:
            vals = [v for v in VALUES[a] if isinstance(v, str) and v != ""]
            k = rng.random()
            sd[a] = [] if k < 0.65 else rng.sample(vals, 1) if k < 0.9 else rng.sample(vals, 2) if k < 0.99 else [vals[0], vals[0]]
            if a == "method" and rng.random() < 0.03:
                sd[a] = ["get", "GET"]
            sd[a + "_regex"] = list(rng.choice(REGEXES[a])) if rng.random() < 0.15 else None
        if rng.random() < 0.2:
            sd["by"] = list(rng.choice([f for f in FUNCS if f[0] == "expr" and f[1].startswith("/") and f[3] is not None]))
        return sd

    return {"include": side(), "exclude": side(), "exclude_deprecated": rng.random() < 0.2}


def c_cli(cli) -> str:
    def side(sd, ident):
        by = sd["by"]
        fields = [f"cl_by := {copt(None if by is None else ctuple(cN(ident), c_func(by, ident)), '(N * (ctx -> bool))')}"]
        for a, f in zip(CLI_BY, ["cl_name", "cl_method", "cl_path", "cl_tag", "cl_operation_id"]):
            fields.append(f"{f} := {clist([cstr(v) for v in sd[a]], 'str')}")
        for a, f in zip(CLI_BY, ["cl_name_regex", "cl_method_regex", "cl_path_regex", "cl_tag_regex", "cl_operation_id_regex"]):
            r = sd[a + "_regex"]
            fields.append(f"{f} := {copt(None if r is None else c_rx(r), 'rx_arg')}")
        return "{| " + "; ".join(fields) + " |}"

    return (f"{{| cli_include := {side(cli['include'], 1)}; cli_exclude := {side(cli['exclude'], 2)}; "
            f"cli_exclude_deprecated := {cbool(cli['exclude_deprecated'])} |}}")


def py_cli(cli):
    from schemathesis.cli.commands.run.filters import FilterArguments

    kw: dict = {"exclude_deprecated": cli["exclude_deprecated"]}
    for mode in ("include", "exclude"):
        sd = cli[mode]
        for a in CLI_BY:
            kw[f"{mode}_{a}"] = list(sd[a])
            r = sd[a + "_regex"]
            kw[f"{mode}_{a}_regex"] = None if r is None else rx_pattern(r)
        by = sd["by"]
        kw[f"{mode}_by"] = None if by is None else f"{by[1]} {by[2]} {json.dumps(by[3])}"
    return FilterArguments(**kw)


def cli_as_calls(cli) -> list[dict]:
    """The meaning of the options according to the documentation, for the oracle."""
    calls = []
    inc, exc = cli["include"], cli["exclude"]
    if inc["by"]:
        calls.append({"kind": "include", "func": inc["by"]})
    for a in CLI_BY:
        calls += [{"kind": "include", a: v} for v in inc[a]]
    rx = {a + "_regex": inc[a + "_regex"] for a in CLI_BY if inc[a + "_regex"] is not None}
    if rx:
        calls.append({"kind": "include", **rx})
    if exc["by"]:
        calls.append({"kind": "exclude", "func": exc["by"]})
    for a in CLI_BY:
        calls += [{"kind": "exclude", a: v} for v in exc[a]]
    for a in CLI_BY:
        if exc[a + "_regex"] is not None:
            calls.append({"kind": "exclude", a + "_regex": exc[a + "_regex"]})
    if cli["exclude_deprecated"]:
        calls.append({"kind": "exclude", "func": ["deprecated"]})
    return calls


def run_cli_stage(chk, n: int):
    import click
    import schemathesis
    from schemathesis.core.errors import IncorrectUsage

    rng = chk.rng
    docs = fixed_docs()[:5]
    exprs, impls, cases = [], [], []
    cdocs = [(d, model_doc(d)) for d in docs]
    for _ in range(n):
        raw, mdoc = rng.choice(cdocs)
        cli = gen_cli(rng)
        try:
            fs = py_cli(cli).into()
            schema = schemathesis.openapi.from_dict(copy.deepcopy(raw))
            schema.filter_set = fs  # cli/commands/run/executor.py:72
            impl = observe_schema(schema)
        except (click.UsageError, IncorrectUsage) as exc:
            impl = ("usage-error", type(exc).__name__)
        impls.append(impl)
        cases.append((raw, mdoc, cli))
        exprs.append(f"run_cli {c_doc(mdoc)} {c_cli(cli)}")
    model = core.coq_eval(IMPORTS, exprs, shard=40)
    maps_of = {id(raw): canon_maps(v) for (raw, mdoc), v in
               zip(cdocs, core.coq_eval(IMPORTS, [f"doc_maps fs_empty {c_doc(mdoc)}" for _raw, mdoc in cdocs]))}
    for (raw, mdoc, cli), impl, mv in zip(cases, impls, model):
        case = {"doc": raw["paths"], "cli": cli}
        mv = _sym(mv)
        ci = "usage-error" if isinstance(impl, tuple) else canon_impl(impl)
        cm = "usage-error" if mv is None else {**canon_model(mv[1]), "maps": maps_of[id(raw)]}
        chk.seen(case, not isinstance(impl, tuple))
        chk.count("cli:" + ("usage-error:" + impl[1] if isinstance(impl, tuple) else "ok"))
        if ci != cm:
            chk.disagree("FilterArguments.into() on a real schema vs Model_C07.run_cli", case, ci, cm)
        if not isinstance(impl, tuple):
            check_property(chk, raw, mdoc, cli_as_calls(cli), impl, "cli")
    return {"cases": n}


# ----------------------------------------------------------------------------------------
def run(chk: core.Check):
    quick = chk.tier == "quick"
    chk.trusted = [
        "Coq 8.16.1 kernel, vm_compute (witness lemmas and model evaluation); no native_compute; no axioms",
        "hand-written model theories/C07/Model_C07.v of filters.py, _should_skip, get_all_operations, _measure_statistic, "
        "_operation_iter, operation lookup by id / reference, collect_transitions, lazy get_schema, FilterArguments.into",
        "correspondence harness harness/props/c07.py: encoders, Coq output parser, the fact extractor model_doc (raw and "
        "resolved definition of every entry through the schema's own resolver), the independent oracle of the property text",
        "reference resolution (resolve_all) is not modelled: a definition enters the model as (raw, resolved)",
        "operation cache (specs/openapi/_cache.py): modelled as three newest-first association lists keyed by operationId, "
        "(path, method) and reference; one resolution scope (path items behind $ref are outside the fragment)",
    ]
    chk.assumptions = [
        "hash(label) of two different matcher labels differ (Matcher equality is by hash only)",
        "filter values for methods are ASCII (str.upper is modelled by ASCII upper-casing)",
        "tags are a list of strings, operationId is a string, no float / int-vs-bool comparisons in expressions",
        "responses and links are not behind $ref; operationRef targets are local references below #/paths/",
        "re.search agrees with the four-constructor regex fragment used by the universe (checked through the correspondence)",
        "access histories: schema[path][method] / get_operation_by_reference name dictionary-valued entries whose key is an HTTP "
        "method up to case; method names are ASCII (str.lower = ASCII lower-casing); the schema object is used from one thread",
    ]
    chk.rule = (
        "universe: 8 hand-picked + random documents over 4 paths x keys {get,post,delete,put,GET,Post,parameters,summary} x tags x "
        "operationId (with duplicates) x deprecated x parameters (inline / $ref) x whole-operation $ref x links (by id, by reference, "
        "dangling); filter calls over name/method/path/tag/operation_id by value, list, regex and functions (expressions ==/!=, "
        "is_deprecated, lambdas), include/exclude, deprecated=True, chains of 0-3 calls (thorough: every ordered pair of "
        "one-matcher calls on every hand-picked document); non-trivial = accepted chain selecting a proper non-empty subset; "
        "access histories: on ONE schema object with a filter set that leaves some operation out, 3-10 accesses out of "
        "get_operation_by_id / get_operation_by_reference / schema[path][method] (60 % aimed at an operation that is NOT selected; "
        "case variants, unknown ids, dangling references), as_state_machine(), get_all_operations(), schema.statistic, "
        "_measure_statistic(), always ending with a traversal and a statistic; non-trivial = a lookup or a state machine precedes "
        "the final traversal; engine runs: half of them on a schema object that was accessed that way before, a fifth of the "
        "stateful ones run twice on the same object"
    )
    chk.proofs(["Common", "C07"])
    rng = chk.rng

    docs = fixed_docs()
    corpus = [json.loads(p.read_text()) for p in sorted((core.VERIF / "corpus" / "C07").glob("*.json"))]
    singles = single_calls()
    work = []
    # corpus first
    for c in corpus:
        work.append((base_doc(c["paths"]) if "paths" in c else c["raw"], [c["calls"]]))
    # every single call on every fixed document, plus the empty chain
    for d in docs:
        work.append((d, [[]] + [[c] for c in singles]))
    if quick:
        for d in docs[:6]:
            work.append((d, [[rng.choice(singles), rng.choice(singles)] for _ in range(100)]))
        for _ in range(60):
            d = gen_doc(rng)
            work.append((d, [[gen_call(rng) for _ in range(rng.choice([1, 2, 2, 3]))] for _ in range(20)]))
    else:
        for d in docs[:5]:
            work.append((d, [[a, b] for a in singles for b in singles]))
        for _ in range(400):
            d = gen_doc(rng)
            work.append((d, [[gen_call(rng) for _ in range(rng.choice([1, 2, 2, 3]))] for _ in range(40)]))
    n = run_correspondence(chk, work, "schema")
    chk.stages["correspondence_schema"] = {"cases": n, "documents": len(work), "corpus": len(corpus), "single_calls": len(singles)}

    # ---- derivation histories (trees of schemas, cached statistic reads in between)
    chk.stages["correspondence_histories"] = run_history_stage(chk, 16 if quick else 300, 25 if quick else 40)

    # ---- access histories on ONE schema object (operation cache: lookups, state machines, repeated traversals)
    chk.stages["correspondence_access_histories"] = run_access_stage(
        chk, 24 if quick else 240, 5 if quick else 10, 4 if quick else 6, corpus=[c for c in corpus if "accesses" in c])

    # ---- CLI options
    chk.stages["correspondence_cli"] = run_cli_stage(chk, 300 if quick else 6000)

    # ---- pytest parametrization and lazy fixtures
    configs = [f["witness"] for f in chk.findings if f["witness"].get("kind") == "lazy"]
    configs = [{k: w[k] for k in ("paths", "fixture_calls", "lazy_calls")} for w in configs]
    configs += gen_pytest_configs(rng, (20 if quick else 150) * (5 if chk.broken else 1))
    run_pytest_stage(chk, configs)
    chk.stages["pytest_lazy_and_direct"] = {"configurations": len(configs)}

    # ---- oracle search: short real engine runs
    chk.stages["engine_search"] = run_engine_stage(chk, (12 if quick else 90) * (10 if chk.broken else 1))

    # real traffic to an unselected operation is the most telling failing input: keep it at the head of the replay file
    # (at most 8 of them, then the minimised access histories, then the rest: the replay file keeps the first 20)
    eng = [f for f in chk.failures if str(f["what"]).startswith("engine sent")]
    acc = [f for f in chk.failures if str(f["what"]).startswith("access history")]
    rest = [f for f in chk.failures if not str(f["what"]).startswith(("engine sent", "access history"))]
    chk.failures[:] = eng[:8] + acc + eng[8:] + rest

    for f in chk.findings:
        chk.known(f, witness_fails(f["witness"]))


def witness_fails(w) -> bool:
    if w["kind"] == "lazy":
        seen = pytest_session([{k: w[k] for k in ("paths", "fixture_calls", "lazy_calls")}])
        mdoc = model_doc(base_doc(w["paths"]))
        calls = w["fixture_calls"] + w["lazy_calls"]
        want = sorted(f"{k.upper()} {p}" for p, es in mdoc for k, r, z in es if k in HTTP and oracle_selected(calls, p, k, z))
        return sorted(set(seen.get("lazy_0", []))) != want
    raw = base_doc(w["paths"])
    funcs = Funcs()
    schema = build_schema(raw, w["calls"], funcs)
    if w["kind"] == "access_links":
        # reported selected links vs the transitions of a state machine built AFTER the accesses, on one schema object
        obs = run_access_impl(schema, w["accesses"])
        stats = [v for t, v in obs if t == "statistic"]
        machines = [v for t, v in obs if t == "machine" and v is not None]
        return bool(stats) and bool(machines) and any(len(m) != stats[-1][3] for m in machines)
    obs = observe_schema(schema)
    if w["kind"] == "stat_ops":
        return obs["stat"][1] != len(obs["offered"])
    if w["kind"] == "unspecified":
        defined = {(p, k) for p, item in w["paths"].items() for k in item if k in HTTP}
        return any((p, m) in defined for p, keys, uns in obs["maps"] for m in uns)
    if w["kind"] == "stat_links":
        return obs["transitions"] is not None and obs["stat"][3] != len(obs["transitions"])
    raise ValueError(w)


def replay(payload) -> int:
    for f in payload.get("failing_inputs", []) + payload.get("broken_obligations_or_correspondence", []):
        case = f.get("input")
        print(f.get("what"), "::", json.dumps(case)[:400])
        if isinstance(case, dict) and "doc" in case and "calls" in case and "accesses" in case:
            raw = base_doc(case["doc"])
            funcs = Funcs()
            built = build_schema(raw, case["calls"], funcs)
            impl = None if isinstance(built, tuple) else run_access_impl(built, case["accesses"])
            expr = (f"run_access false {c_doc(model_doc(raw))} {clist([c_call(c, funcs) for c in case['calls']], 'call')} "
                    f"{clist([c_access(a) for a in case['accesses']], 'access')}")
            m = _sym(core.coq_eval(IMPORTS, [expr])[0])
            print("  implementation:", impl)
            print("  model         :", None if m is None else [canon_aobs(o) for o in m[1]])
        elif isinstance(case, dict) and "doc" in case and "calls" in case:
            raw = base_doc(case["doc"])
            funcs = Funcs()
            built = build_schema(raw, case["calls"], funcs)
            impl = built if isinstance(built, tuple) else observe_schema(built)
            expr = f"run_case {c_doc(model_doc(raw))} {clist([c_call(c, funcs) for c in case['calls']], 'call')}"
            m = core.coq_eval(IMPORTS, [expr])[0]
            print("  implementation:", canon_impl(impl))
            print("  model         :", canon_model(m))
        elif isinstance(case, dict) and "engine" in case:
            import schemathesis
            from harness.loopback import Recorder

            e = case["engine"]
            raw = engine_doc()
            rec = Recorder(engine_responder)
            try:
                if e.get("via_cli"):
                    schema = schemathesis.openapi.from_dict(copy.deepcopy(raw))
                    schema.filter_set = cli_filter_arguments(e["calls"]).into()
                else:
                    schema = build_schema(raw, e["calls"], Funcs())
                if e.get("children_derived_before_the_run"):
                    derive_children(schema, e["calls"], "statistic" in e["children_derived_before_the_run"])
                run_access_impl(schema, e.get("accessed_before_the_run") or [])
                evs, got = run_engine_on(schema, rec, e["phases"], e["seed"], negative=bool(e.get("negative")))
                if e.get("second_run_on_the_same_schema_object"):
                    got = got + run_engine_on(schema, rec, e["phases"], e["seed"] + 1, negative=bool(e.get("negative")))[1]
            finally:
                rec.close()
            hit: dict = {}
            for item in got:
                c = classify_request(raw, item)
                if c is not None:
                    hit[f"{c[1].upper()} {c[0]}"] = hit.get(f"{c[1].upper()} {c[0]}", 0) + 1
            mdoc = model_doc(raw)
            want = sorted(f"{k.upper()} {p}" for p, es in mdoc for k, r, z in es if k in HTTP and oracle_selected(e["calls"], p, k, z))
            print("  requests per operation:", hit)
            print("  selected              :", want)
        elif isinstance(case, dict) and "pytest" in case:
            print("  tested:", pytest_session([case["pytest"]]))
    return 0
