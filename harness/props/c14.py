"""C14 - configured credentials and overrides reach every request; the auth token is fetched
at most once per refresh interval and cache key, also under concurrent callers.

Stages: proofs (Properties_C14.v) ->
  A. correspondence of the precedence algebra (Model_C14 Part A, evaluated by vm_compute) with the real
     functions: Override.for_operation, get_strategy_kwargs, get_parameters_value, add_coverage, prepare_headers +
     requests' header/auth merge, Case.__hash__ in-place sanitization, remove_auth, AuthStorage.set / set_on_case;
  B. the real KeyedCachingAuthProvider driven under forced schedules (instrumented dict / timer / lock / provider,
     one semaphore point per shared access) compared step by step with Model_C14.trace; free-running stress of
     CachingAuthProvider;
  C. oracle: live engine runs with canary header / basic auth / override values counted at the loopback API in
     every phase, auth providers under several workers; runs with 2-3 workers and no probing whose session set-up is
     slowed down so that the workers overlap in the lazy initialisation of the shared requests.Session;
  D. the real EngineContext.session read from 1-4 threads under forced schedules (scheduling points: the cached_property's
     look into / store to the instance dict, reads / writes of ctx._session, the construction of a requests.Session and
     every assignment to one - all harness-side wrappers) compared step by step with Model_C14.s_trace_delta; oracle:
     every session handed to a reader / used for a request carries the configured auth.
"""
from __future__ import annotations

import base64
import copy
import json
import threading
import time
from collections import Counter
from types import SimpleNamespace

from harness import core
from harness.core import cbool, clist, cN, cnat, copt, cstr, ctuple, popt, pstr

LEVEL = "proof"
IMPORTS = ["Common.Str", "Common.Json", "C14.Model_C14"]

DICT_T = "(str * str)"
PHASES = ["Examples", "Coverage", "Fuzzing", "Stateful"]
LOCS = [("query", "LQuery"), ("headers", "LHeaders"), ("cookies", "LCookies"), ("path_parameters", "LPath")]


# ----------------------------------------------------------------------------------------
# encoders
# ----------------------------------------------------------------------------------------
def enc(v) -> str:
    """values are opaque to the model: anything that is not a str travels as a tagged JSON text"""
    if isinstance(v, str):
        return v
    return "\x01" + json.dumps(v, sort_keys=True, default=str)


def cdict(d) -> str:
    return clist([ctuple(cstr(k), cstr(enc(v))) for k, v in d.items()], DICT_T)


def citems(items) -> str:
    return clist([ctuple(cstr(k), cstr(enc(v))) for k, v in items], DICT_T)


def codict(d) -> str:
    return copt(None if d is None else cdict(d), "dict")


def chdrs(h) -> str:
    from requests.structures import CaseInsensitiveDict

    if h is None:
        return "HNone"
    if isinstance(h, CaseInsensitiveDict):
        return f"(HCI {citems(list(h.items()))})"
    return f"(HPlain {cdict(h)})"


def pdict(v):
    return [(pstr(k), pstr(x)) for k, x in v]


def podict(v):
    v = popt(v)
    return None if v is None else pdict(v)


def phdrs(v):
    if v == "HNone":
        return ("none", [])
    return ({"HPlain": "plain", "HCI": "ci"}[v[0]], pdict(v[1]))


def real_hdrs(h):
    from requests.structures import CaseInsensitiveDict

    if h is None:
        return ("none", [])
    kind = "ci" if isinstance(h, CaseInsensitiveDict) else "plain"
    return (kind, [(k, enc(v)) for k, v in h.items()])


def real_odict(d):
    return None if d is None else [(k, enc(v)) for k, v in d.items()]


def ccfg(cfg) -> str:
    ov = cfg["override"] or {}
    return (
        "{| net := %s; auth := %s; has_override := %s; ov_query := %s; ov_headers := %s; ov_cookies := %s; ov_path := %s; "
        "unique_inputs := %s; sanitize := %s |}"
        % (
            cdict(cfg["headers"]),
            copt(None if cfg.get("auth_value") is None else cstr(cfg["auth_value"]), "str"),
            cbool(cfg["override"] is not None),
            cdict(ov.get("query", {})),
            cdict(ov.get("headers", {})),
            cdict(ov.get("cookies", {})),
            cdict(ov.get("path_parameters", {})),
            cbool(cfg.get("unique_inputs", False)),
            cbool(cfg.get("sanitize", True)),
        )
    )


def coper(decl) -> str:
    return "{| d_query := %s; d_headers := %s; d_cookies := %s; d_path := %s |}" % tuple(
        clist([cstr(n) for n in decl[k]], "str") for k in ("query", "headers", "cookies", "path_parameters")
    )


# ----------------------------------------------------------------------------------------
# generators
# ----------------------------------------------------------------------------------------
NAME_POOL = {
    "query": ["q", "r", "Q", "api_key", "token", "page", "x-y"],
    "headers": ["X-Over", "x-over", "X-Gen", "X-Api-Key", "X-Token", "If-Match", "user-agent"],
    "cookies": ["c", "session", "sid", "C"],
    "path_parameters": ["id", "name"],
}
NET_NAMES = ["X-Canary", "x-canary", "X-Over", "x-over", "User-Agent", "user-agent", "USER-AGENT", "Authorization", "authorization",
             "X-Gen", "X-Api-Key", "X-Schemathesis-TestCaseId", "x-schemathesis-testcaseid", "Accept", "X-B"]
VALUES = ["v", "", "OV", "a b", "[Filtered]", "é", "1", "x" * 9]


def gen_decl(rng):
    decl = {}
    for loc, pool in NAME_POOL.items():
        k = rng.choice([0, 1, 1, 2, 3])
        decl[loc] = rng.sample(pool, min(k, len(pool)))
    if not decl["path_parameters"] and rng.random() < 0.7:
        decl["path_parameters"] = ["id"]
    return decl


def gen_override(rng, decl):
    if rng.random() < 0.12:
        return None
    ov = {}
    for loc, pool in NAME_POOL.items():
        d = {}
        for name in rng.sample(pool, rng.choice([0, 1, 1, 2])):
            d[name] = rng.choice(VALUES)
        # mostly names the operation declares, sometimes others (must not apply)
        if decl[loc] and rng.random() < 0.7:
            d[rng.choice(decl[loc])] = rng.choice(VALUES)
        ov[loc] = d
    return ov


def gen_net(rng):
    k = rng.choice([0, 0, 1, 2, 3])
    d = {}
    for name in rng.sample(NET_NAMES, k):
        d[name] = rng.choice(VALUES + ["mine"])
    return d


def gen_cfg(rng, decl):
    auth = rng.choice([None, None, ("u", "p")])
    return {
        "headers": gen_net(rng),
        "auth": auth,
        "auth_value": None if auth is None else "Basic " + base64.b64encode(b"u:p").decode(),
        "override": gen_override(rng, decl),
        "unique_inputs": rng.random() < 0.4,
        "sanitize": rng.random() < 0.8,
    }


def gen_container(rng, loc, decl, extra_clash=True):
    """what a generator could have produced for a location (None = no parameters)"""
    r = rng.random()
    if r < 0.2:
        return None
    d = {}
    names = list(decl[loc])
    if extra_clash:
        names += rng.sample(NAME_POOL[loc], 1)
        if loc == "headers":
            names += [n.swapcase() for n in names[:1]]
    for n in names:
        if rng.random() < 0.7:
            d[n] = rng.choice(["g", "G2", "", "7"])
    return d


def build_schema(decl, secured=False):
    import schemathesis

    params = []
    for loc, oloc in (("path_parameters", "path"), ("query", "query"), ("headers", "header"), ("cookies", "cookie")):
        for n in decl[loc]:
            params.append({"name": n, "in": oloc, "required": oloc == "path" or n in ("q", "X-Over"), "schema": {"type": "string"}})
    path = "/p" + "".join("/{%s}" % n for n in decl["path_parameters"])
    raw = {
        "openapi": "3.0.2",
        "info": {"title": "t", "version": "1"},
        "paths": {path: {"get": {"parameters": params, "responses": {"200": {"description": "ok"}}}}},
    }
    schema = schemathesis.openapi.from_dict(raw)
    schema.configure(base_url="http://127.0.0.1:1")
    return schema, schema[path]["GET"]


def real_decl(op):
    return {
        "query": [p.name for p in op.query],
        "headers": [p.name for p in op.headers],
        "cookies": [p.name for p in op.cookies],
        "path_parameters": [p.name for p in op.path_parameters],
    }


def make_override(ov):
    from schemathesis.generation.overrides import Override

    if ov is None:
        return None
    return Override(query=dict(ov["query"]), headers=dict(ov["headers"]), cookies=dict(ov["cookies"]), path_parameters=dict(ov["path_parameters"]))


# ----------------------------------------------------------------------------------------
# stage A
# ----------------------------------------------------------------------------------------
def stage_a(chk: core.Check, n_cfg: int):
    from requests.structures import CaseInsensitiveDict

    import requests
    from schemathesis.core import NOT_SET
    from schemathesis.engine.config import EngineConfig, NetworkConfig
    from schemathesis.engine.phases.unit import get_strategy_kwargs
    from schemathesis.generation import GenerationConfig, GenerationMode
    from schemathesis.generation.hypothesis.builder import _iter_coverage_cases, add_coverage
    from schemathesis.hooks import HookContext
    from schemathesis.specs.openapi._hypothesis import get_parameters_value, make_positive_strategy
    from schemathesis.transport.prepare import prepare_headers

    rng = chk.rng
    exprs, checks = [], []   # each expr has its own result type: evaluate per family

    fam: dict[str, list] = {k: [] for k in ("entry", "kw", "gv", "cov", "covh", "prep", "wire", "hash", "sens", "probe", "probeh", "auth")}

    corpus = [json.loads(p.read_text()) for p in sorted((core.VERIF / "corpus" / "C14").glob("a_*.json"))]
    configs = []
    for c in corpus:
        configs.append((c["decl"], c["cfg"]))
    while len(configs) < n_cfg + len(corpus):
        decl = gen_decl(rng)
        configs.append((decl, gen_cfg(rng, decl)))

    schema_cache: dict[str, tuple] = {}
    for decl, cfg in configs:
        key = json.dumps(decl, sort_keys=True)
        if key not in schema_cache:
            schema_cache[key] = build_schema(decl)
        schema, op = schema_cache[key]
        decl_r = real_decl(op)
        ov = make_override(cfg["override"])
        C, O = ccfg(cfg), coper(decl_r)
        canon = {"decl": decl_r, "cfg": {k: cfg[k] for k in ("headers", "override", "unique_inputs", "sanitize")}, "auth": cfg["auth"] is not None}
        nontrivial = bool(cfg["override"]) and any(set(cfg["override"][l]) & set(decl_r[l]) for l in decl_r)
        chk.seen(canon, nontrivial or bool(cfg["headers"]))
        chk.count("cfg:override" if cfg["override"] else "cfg:no-override")
        chk.count(f"cfg:net-headers:{len(cfg['headers'])}")

        # A1 Override.for_operation
        if ov is not None:
            real = ov.for_operation(op)
            for loc, L in LOCS:
                fam["entry"].append((f"entry {C} {O} {L}", ("for_operation", canon, loc), [(k, enc(v)) for k, v in real[loc].items()], pdict))
        # A2 get_strategy_kwargs
        ctx = SimpleNamespace(config=EngineConfig(network=NetworkConfig(headers=dict(cfg["headers"]), auth=cfg["auth"]), override=ov))
        kwargs = get_strategy_kwargs(ctx, op)
        for loc, L in LOCS:
            fam["kw"].append((f"strategy_kwarg {C} {O} {L}", ("get_strategy_kwargs", canon, loc), real_odict(kwargs.get(loc)), podict))
        if set(kwargs) - {l for l, _ in LOCS}:
            chk.disagree("get_strategy_kwargs returns a key the model does not know", canon, sorted(kwargs), None)

        # A4 get_parameters_value with a scripted draw (the merge algebra of the real function)
        hctx = HookContext(op)
        gconf = GenerationConfig()
        for loc, L in LOCS:
            oloc = {"query": "query", "headers": "header", "cookies": "cookie", "path_parameters": "path"}[loc]
            for explicit in (kwargs.get(loc), rng.choice([None, {}, gen_container(rng, loc, decl_r)])):
                gen = gen_container(rng, loc, decl_r)
                try:
                    out = get_parameters_value(NOT_SET if explicit is None else copy.deepcopy(explicit), oloc, lambda s, g=gen: copy.deepcopy(g),
                                               op, hctx, None, make_positive_strategy, gconf)
                except Exception as exc:  # noqa: BLE001
                    out = f"raises {type(exc).__name__}"
                fam["gv"].append((f"gen_value {codict(explicit)} {codict(gen)}", ("get_parameters_value", {"explicit": explicit, "gen": gen}, loc),
                                  out if isinstance(out, str) else real_odict(out), podict))

        # A5 add_coverage: container update after set_on_case
        modes = list(GenerationMode)
        before = list(_iter_coverage_cases(op, modes, None))

        def dummy(case):
            return None

        add_coverage(dummy, op, modes, None, kwargs, None)
        after = [e.kwargs["case"] for e in getattr(dummy, "hypothesis_explicit_examples", [])]
        if len(after) != len(before):
            chk.disagree("add_coverage yields a different number of cases than _iter_coverage_cases", canon, len(after), len(before))
        else:
            idxs = list(range(len(before)))
            rng.shuffle(idxs)
            for i in idxs[:6]:
                b, a = before[i], after[i]
                for loc, L in LOCS:
                    kw = codict(kwargs.get(loc))
                    if loc == "headers":
                        fam["covh"].append((f"cov_apply_h {chdrs(b.headers)} {kw}", ("add_coverage headers", canon, i), real_hdrs(a.headers), phdrs))
                    else:
                        fam["cov"].append((f"cov_apply {codict(getattr(b, loc))} {kw}", ("add_coverage " + loc, canon, i), real_odict(getattr(a, loc)), podict))
            chk.count("coverage-cases", len(before))

        # A3 prepare_headers + requests merge
        for _ in range(3):
            shape = rng.choice(["none", "ci", "ci", "plain"])
            base = gen_container(rng, "headers", decl_r) or {}
            h = None if shape == "none" else (CaseInsensitiveDict(base) if shape == "ci" else dict(base))
            case = op.Case(headers=None)
            case.headers = copy.deepcopy(h)
            net = dict(cfg["headers"])
            final = prepare_headers(case, net)
            fam["prep"].append((f"prepare_headers {chdrs(h)} {cdict(net)} {cstr('UA')} {cstr(case.id)}", ("prepare_headers", {"h": real_hdrs(h), "net": net}, None),
                                _fix_ua(real_hdrs(final)), phdrs))
            # wire: requests.Session exactly as EngineContext.session builds it
            session = requests.Session()
            defaults = list(session.headers.items())
            if cfg["auth"] is not None:
                session.auth = cfg["auth"]
            if net:
                session.headers.update(net)
            try:
                prepared = session.prepare_request(requests.Request("GET", "http://127.0.0.1:1/", headers=final))
                real_wire = sorted((k.lower(), enc(v)) for k, v in prepared.headers.items())
            except Exception as exc:  # noqa: BLE001 (invalid header value for requests: not a precedence question)
                chk.count(f"wire_skipped:{type(exc).__name__}")
                continue
            a = copt(None if cfg["auth_value"] is None else cstr(cfg["auth_value"]), "str")
            fam["wire"].append((f"wire_headers {citems(defaults)} {cdict(net)} (prepare_headers {chdrs(h)} {cdict(net)} {cstr('UA')} {cstr(case.id)}) {a}",
                                ("requests merge", {"h": real_hdrs(h), "net": net, "auth": cfg["auth"] is not None}, None),
                                [kv for kv in _fix_ua(("x", real_wire))[1]], lambda v: sorted((k.lower(), x) for k, x in pdict(v))))

        # A6 Case.__hash__ sanitizes query / cookies in place
        q = gen_container(rng, "query", decl_r)
        ck = gen_container(rng, "cookies", decl_r)
        hd = gen_container(rng, "headers", decl_r)
        pp = {n: "1" for n in decl_r["path_parameters"]}
        schema.output_config = schema.output_config.replace(sanitize=cfg["sanitize"])
        case = op.Case(query=copy.deepcopy(q), cookies=copy.deepcopy(ck), headers=copy.deepcopy(hd), path_parameters=pp)
        try:
            hash(case)
            u = "{| net := []; auth := None; has_override := false; ov_query := []; ov_headers := []; ov_cookies := []; ov_path := []; unique_inputs := true; sanitize := %s |}" % cbool(cfg["sanitize"])
            fam["hash"].append((f"(pre_send {u} {codict(q)}, pre_send {u} {codict(ck)})", ("Case.__hash__ in place", {"query": q, "cookies": ck, "sanitize": cfg["sanitize"]}, None),
                                (real_odict(case.query), real_odict(case.cookies)), lambda v: (podict(v[0]), podict(v[1]))))
            if real_hdrs(case.headers)[1] != real_hdrs(CaseInsensitiveDict(hd) if hd is not None else None)[1]:
                chk.disagree("Case.__hash__ changed case.headers (model: only query and cookies)", {"headers": hd}, real_hdrs(case.headers), hd)
        except Exception as exc:  # noqa: BLE001
            chk.count(f"hash_skipped:{type(exc).__name__}")
        schema.output_config = schema.output_config.replace(sanitize=True)

    # sensitive names
    from schemathesis.core.output.sanitization import DEFAULT_KEYS_TO_SANITIZE, sanitize_value

    names = sorted(DEFAULT_KEYS_TO_SANITIZE) + [n for pool in NAME_POOL.values() for n in pool] + NET_NAMES
    names += ["".join(rng.choice("aKeytoknsx_-") for _ in range(rng.randint(0, 8))) for _ in range(150)]
    for n in names:
        d = {n: "v"}
        sanitize_value(d)
        fam["sens"].append((f"sensitive {cstr(n)}", ("sanitize_value key", n, None), d[n] != "v", lambda v: v))

    # A7 remove_auth
    from schemathesis.specs.openapi.checks import _remove_auth_from_explicit_headers, remove_auth

    decl_p = {"query": ["q", "api_key"], "headers": ["X-Api-Key", "X-Gen"], "cookies": ["session", "c"], "path_parameters": ["id"]}
    schema_p, op_p = build_schema(decl_p)
    for _ in range(40 if chk.tier == "quick" else 300):
        sec = []
        for _i in range(rng.choice([1, 1, 2, 3])):
            where = rng.choice(["header", "query", "cookie"])
            nm = rng.choice({"header": ["X-Api-Key", "x-api-key", "Authorization", "X-Gen"], "query": ["api_key", "q", "Q"], "cookie": ["session", "c"]}[where])
            sec.append({"in": where, "name": nm})
        q = gen_container(rng, "query", decl_p)
        ck = gen_container(rng, "cookies", decl_p)
        hd = gen_container(rng, "headers", decl_p)
        kind = rng.choice(["ci", "ci", "plain"])
        case = op_p.Case(query=copy.deepcopy(q), cookies=copy.deepcopy(ck), headers=copy.deepcopy(hd), path_parameters={"id": "1"})
        if kind == "plain" and hd is not None:
            case.headers = dict(hd)
        h_before = case.headers
        probe = remove_auth(case, sec)
        names_of = lambda w: clist([cstr(s["name"]) for s in sec if s["in"] == w], "str")  # noqa: E731
        fam["probe"].append((f"(probe_dict {names_of('query')} {codict(q)}, probe_dict {names_of('cookie')} {codict(ck)})", ("remove_auth", {"sec": sec, "query": q, "cookies": ck}, None),
                             (real_odict(probe.query), real_odict(probe.cookies)), lambda v: (podict(v[0]), podict(v[1]))))
        fam["probeh"].append((f"probe_headers {names_of('header')} {chdrs(h_before)}", ("remove_auth headers", {"sec": sec, "headers": real_hdrs(h_before)}, None),
                              real_hdrs(probe.headers), phdrs))
        if real_odict(case.query) != real_odict(q) or real_odict(case.cookies) != real_odict(ck):
            chk.disagree("remove_auth mutated the original case", {"sec": sec}, real_odict(case.query), real_odict(q))
        net = gen_net(rng)
        hcopy = dict(net)
        _remove_auth_from_explicit_headers(hcopy, sec)
        fam["probe"].append((f"(Some (probe_explicit {names_of('header')} {cdict(net)}), @None dict)", ("_remove_auth_from_explicit_headers", {"sec": sec, "net": net}, None),
                             (real_odict(hcopy), None), lambda v: (podict(v[0]), podict(v[1]))))
        chk.seen({"probe": sec, "q": q, "c": ck, "h": hd}, True)

    # A8 AuthStorage.set / set_on_case
    stage_auth(chk, fam)

    # evaluate every family in one batch each and compare
    total = 0
    from concurrent.futures import ThreadPoolExecutor

    names_ = [n for n, items in fam.items() if items]
    with ThreadPoolExecutor(max_workers=6) as ex:
        results = dict(zip(names_, ex.map(lambda n: core.coq_eval(IMPORTS, [e for e, *_ in fam[n]], jobs=3), names_)))
    for name, items in fam.items():
        if not items:
            continue
        vals = results[name]
        for (expr, what, real, parse), v in zip(items, vals):
            total += 1
            try:
                m = parse(v)
            except Exception as exc:  # noqa: BLE001
                m = f"unparsable model value {v!r}: {exc}"
            if _norm(m) != _norm(real):
                chk.disagree(f"{what[0]} vs model ({name})", {"input": what[1], "where": what[2], "expr": expr[:600]}, _norm(real), _norm(m))
        chk.count(f"family:{name}", len(items))
    chk.stages["A_correspondence"] = {"configurations": len(configs), "corpus": len(corpus), "comparisons": total, "families": {k: len(v) for k, v in fam.items()}}


def regression_prefix(chk):
    """The regression model get_strategy_kwargs_prefix (code before 9a3b607c) must DIFFER from today's function on the F1 input
    and agree with the current model elsewhere (evaluated, not assumed)."""
    from schemathesis.engine.config import EngineConfig, NetworkConfig
    from schemathesis.engine.phases.unit import get_strategy_kwargs

    decl = {"query": ["q"], "headers": ["X-Over"], "cookies": [], "path_parameters": ["id"]}
    schema, op = build_schema(decl)
    cfg = {"headers": {"X-Canary": "CAN"}, "auth": None, "auth_value": None, "unique_inputs": False, "sanitize": True,
           "override": {"query": {"q": "QV"}, "headers": {"X-Over": "OV"}, "cookies": {}, "path_parameters": {}}}
    ctx = SimpleNamespace(config=EngineConfig(network=NetworkConfig(headers=dict(cfg["headers"])), override=make_override(cfg["override"])))
    real = real_odict(get_strategy_kwargs(ctx, op).get("headers"))
    C, O = ccfg(cfg), coper(real_decl(op))
    old, new = core.coq_eval(IMPORTS, [f"get_strategy_kwargs_prefix {C} {O} LHeaders", f"strategy_kwarg {C} {O} LHeaders"])
    if _norm(podict(new)) != _norm(real):
        chk.disagree("get_strategy_kwargs vs model on the F1 configuration", cfg, real, podict(new))
    if _norm(podict(old)) == _norm(real):
        chk.disagree("get_strategy_kwargs behaves like the regression model get_strategy_kwargs_prefix (finding C14-F1 is back)", cfg, real, podict(old))
    chk.stages["A_regression_model"] = {"get_strategy_kwargs": real, "prefix_model": podict(old)}


def _norm(x):
    return json.loads(json.dumps(x, default=str))


def _fix_ua(h):
    """the model is evaluated with ua = 'UA': map the real USER_AGENT constant to it"""
    from schemathesis.core.transport import USER_AGENT

    return (h[0], [(k, "UA" if v == USER_AGENT else v) for k, v in h[1]])


def stage_auth(chk, fam):
    from schemathesis import auths
    from schemathesis.filters import FilterSet

    rng = chk.rng
    decl = {"query": [], "headers": [], "cookies": [], "path_parameters": []}
    schema, op = build_schema(decl)
    ctx = auths.AuthContext(operation=op, app=None)

    def mk_storage(spec):
        """spec: list of (id, matches, data, cached)"""
        st = auths.AuthStorage()
        for pid, matches, data, cached in spec:
            class P:
                def __init__(self, pid=pid, data=data):
                    self.pid, self.data = pid, data

                def get(self, case, context):
                    return self.data

                def set(self, case, data, context):
                    case._applied = (self.pid, data)

            inst = P()
            prov = auths.CachingAuthProvider(inst) if cached else inst
            if matches is not None:
                fs = FilterSet()
                fs.include(lambda c, m=matches: m)
                prov = auths.SelectiveAuthProvider(prov, fs)
            st.providers.append(prov)
        return st

    def cspec(spec):
        return clist(["{| p_id := %s; p_matches := %s; p_data := %s |}" % (cN(pid), cbool(matches is not False), copt(None if data is None else cN(data), "N"))
                      for pid, matches, data, _ in spec], "provider")

    def gspec():
        return [(i + 1, rng.choice([None, True, False]), rng.choice([None, None, 10 + i]), rng.random() < 0.5) for i in range(rng.choice([0, 1, 2, 3]))]

    saved_global = list(auths.GLOBAL_AUTH_STORAGE.providers)
    try:
        for _ in range(60 if chk.tier == "quick" else 600):
            test, sch, glob = rng.choice([None, None, gspec()]), gspec(), gspec()
            schema.auth.providers = mk_storage(sch).providers
            auths.GLOBAL_AUTH_STORAGE.providers = mk_storage(glob).providers
            case = op.Case()
            try:
                auths.set_on_case(case, ctx, None if test is None else mk_storage(test))
                applied = getattr(case, "_applied", None)
                real = "AuthNone" if applied is None else ["AuthSet", applied[0], applied[1]]
                if (applied is not None) != case._has_explicit_auth:
                    chk.disagree("_has_explicit_auth does not follow the applied provider", {"test": test, "schema": sch, "global": glob}, case._has_explicit_auth, applied)
            except Exception as exc:  # noqa: BLE001
                real = "AuthRaises" if type(exc).__name__ == "IncorrectUsage" else f"raises {type(exc).__name__}"
            expr = f"set_on_case {copt(None if test is None else cspec(test), '(list provider)')} {cspec(sch)} {cspec(glob)}"
            fam["auth"].append((expr, ("set_on_case", {"test": test, "schema": sch, "global": glob}, None), real, lambda v: list(v) if isinstance(v, tuple) else v))
            chk.seen({"auth": [test, sch, glob]}, bool(sch or glob or test))
    finally:
        auths.GLOBAL_AUTH_STORAGE.providers = saved_global
        schema.auth.providers = []


# ----------------------------------------------------------------------------------------
# stage B: forced schedules on the real caching provider
# ----------------------------------------------------------------------------------------
TAG_POINT = {0: None, 1: "read", 2: "timer", 3: "acq", 4: "read", 5: "timer", 6: "rel", 7: "fetch", 8: "timer", 9: "set", 10: "rel"}


class Abort(Exception):
    pass


class Ctl:
    def __init__(self, n):
        self.cv = threading.Condition()
        self.at: dict[int, str] = {}
        self.gen = Counter()
        self.released: set[int] = set()
        self.busy = [False] * n
        self.abort = False
        self.tls = threading.local()

    def point(self, name):
        tid = self.tls.tid
        with self.cv:
            self.at[tid] = name
            self.gen[tid] += 1
            self.cv.notify_all()
            while tid not in self.released:
                if self.abort:
                    raise Abort()
                self.cv.wait(0.2)
            self.released.discard(tid)
            del self.at[tid]

    def wait_blocked_or_idle(self, tid, gen, timeout=10.0):
        end = time.time() + timeout
        with self.cv:
            while True:
                if tid in self.at and self.gen[tid] != gen:
                    return True
                if not self.busy[tid] and tid not in self.released:
                    return True
                if time.time() > end:
                    return False
                self.cv.wait(0.05)


def run_real_schedule(n, iv, sched, keyed=True):
    """Drives the real provider; returns the list of observations after each label (or raises)."""
    from schemathesis import auths

    ctl = Ctl(n)
    clock = [0]
    fetch_log: list = []
    rets: list = []
    holder: list = [None]

    class IDict(dict):
        def get(self, key, default=None):
            ctl.point("read")
            return dict.get(self, key, default)

        def __setitem__(self, key, value):
            ctl.point("set")
            dict.__setitem__(self, key, value)

    class ILock:
        def __init__(self):
            self.inner = threading.Lock()

        def __enter__(self):
            while True:
                ctl.point("acq")
                if self.inner.acquire(blocking=False):
                    holder[0] = ctl.tls.tid
                    return self

        def __exit__(self, *a):
            ctl.point("rel")
            holder[0] = None
            self.inner.release()
            return False

    class Prov:
        def get(self, case, context):
            ctl.point("fetch")
            tok = len(fetch_log) + 1
            fetch_log.append((case, clock[0], tok))
            return tok

        def set(self, case, data, context):
            pass

    def timer():
        ctl.point("timer")
        return clock[0]

    entries = IDict()
    provider = auths.KeyedCachingAuthProvider(Prov(), refresh_interval=iv, timer=timer, _refresh_lock=ILock(),
                                              cache_by_key=lambda case, context: case, cache_entries=entries)
    requests_q: list[list] = [[] for _ in range(n)]

    def worker(tid):
        ctl.tls.tid = tid
        try:
            while True:
                with ctl.cv:
                    while not requests_q[tid]:
                        if ctl.abort:
                            return
                        ctl.cv.wait(0.2)
                    key = requests_q[tid].pop(0)
                if key is None:
                    return
                tok = provider.get(key, None)
                with ctl.cv:
                    rets.append((tid, key, tok))
                    ctl.busy[tid] = False
                    ctl.cv.notify_all()
        except Abort:
            return

    threads = [threading.Thread(target=worker, args=(i,), daemon=True) for i in range(n)]
    for t in threads:
        t.start()

    def observe():
        cache = [(k, (e.data, e.expires)) for k, e in dict.items(entries)]
        return {"clock": clock[0], "cache": cache, "lock": holder[0], "at": [ctl.at.get(i) for i in range(n)],
                "fetches": list(fetch_log), "rets": list(rets)}

    out = []
    try:
        for lab in sched:
            if lab[0] == "Tick":
                clock[0] += lab[1]
            elif lab[0] == "Call":
                t, k = lab[1], lab[2]
                if t < n and not ctl.busy[t]:
                    with ctl.cv:
                        gen = ctl.gen[t]
                        ctl.busy[t] = True
                        requests_q[t].append(k)
                        ctl.cv.notify_all()
                    if not ctl.wait_blocked_or_idle(t, gen):
                        raise TimeoutError(f"thread {t} did not reach its first point")
            else:
                t = lab[1]
                if t < n and t in ctl.at:
                    with ctl.cv:
                        gen = ctl.gen[t]
                        ctl.released.add(t)
                        ctl.cv.notify_all()
                    if not ctl.wait_blocked_or_idle(t, gen):
                        raise TimeoutError(f"thread {t} did not come back after a step (deadlock in the implementation?)")
            out.append(observe())
    finally:
        with ctl.cv:
            ctl.abort = True
            for q in requests_q:
                q.append(None)
            ctl.cv.notify_all()
        for t in threads:
            t.join(timeout=2)
    return out


def c_sched(sched):
    items = []
    for lab in sched:
        if lab[0] == "Tick":
            items.append(f"Tick {cN(lab[1])}")
        elif lab[0] == "Call":
            items.append(f"Call {cnat(lab[1])} {cN(lab[2])}")
        else:
            items.append(f"Th {cnat(lab[1])}")
    return clist(items, "label")


def gen_schedule(rng, n, iv, length):
    sched = []
    keys = [1, 1, 1, 2]
    for _ in range(length):
        r = rng.random()
        if r < 0.12:
            sched.append(("Tick", rng.choice([0, 1, max(iv - 1, 0), iv, iv + 1, 2 * iv + 3])))
        elif r < 0.3:
            sched.append(("Call", rng.randrange(n + (1 if rng.random() < 0.1 else 0)), rng.choice(keys)))
        else:
            t = rng.randrange(n)
            # bursts make calls finish; single steps interleave
            for _b in range(rng.choice([1, 1, 1, 2, 3, 7])):
                sched.append(("Th", t))
    return sched


def model_obs(v):
    clock, cache, lock, tags, fetches, rets = v
    return {
        "clock": clock,
        "cache": [(k, (de[0], de[1])) for k, de in cache],
        "lock": popt(lock),
        "at": [TAG_POINT[t] for t in tags],
        "fetches": [tuple(f) for f in fetches],
        "rets": [(r[0], r[1], r[2]) for r in rets],
    }


def sep_violation(fetches, iv):
    last = {}
    for k, tm, tok in fetches:
        if k in last and not (last[k] + iv <= tm):
            return (k, last[k], tm)
        last[k] = tm
    return None


def stage_b(chk: core.Check, n_sched: int):
    rng = chk.rng
    corpus = [json.loads(p.read_text()) for p in sorted((core.VERIF / "corpus" / "C14").glob("b_*.json"))]
    cases = [(c["n"], c["iv"], [tuple(l) for l in c["sched"]]) for c in corpus]
    for _ in range(n_sched):
        n = rng.choice([1, 2, 2, 3, 4])
        iv = rng.choice([0, 5, 5, 300])
        cases.append((n, iv, gen_schedule(rng, n, iv, rng.choice([10, 25, 40]))))
    exprs = [f"trace true {cN(iv)} {c_sched(s)} (init {cnat(n)})" for n, iv, s in cases]
    models = core.coq_eval(IMPORTS, exprs, shard=20)
    agree = 0
    refetch = 0
    for (n, iv, sched), mv in zip(cases, models):
        canon = {"n": n, "iv": iv, "sched": [list(l) for l in sched]}
        try:
            real = run_real_schedule(n, iv, sched)
        except Exception as exc:  # noqa: BLE001
            chk.disagree("forced schedule on the real KeyedCachingAuthProvider did not complete", canon, f"{type(exc).__name__}: {exc}", None)
            continue
        mobs = [model_obs(v) for v in mv]
        interesting = len(real[-1]["fetches"]) >= 2 or any(o["lock"] is not None and sum(a == "acq" for a in o["at"]) for o in real)
        chk.seen(canon, interesting)
        chk.count(f"sched:threads:{n}")
        chk.count(f"sched:fetches:{min(len(real[-1]['fetches']), 4)}")
        if len({k for k, _, _ in real[-1]["fetches"]}) < len(real[-1]["fetches"]):
            refetch += 1
        bad = None
        for i, (r, m) in enumerate(zip(real, mobs)):
            if _norm(r) != _norm(m):
                bad = (i, r, m)
                break
        if bad is not None:
            i, r, m = bad
            chk.disagree(f"real provider vs Model_C14.trace at step {i} ({sched[i]})", canon, _norm(r), _norm(m))
        else:
            agree += 1
        viol = sep_violation(real[-1]["fetches"], iv)
        if viol is not None:
            chk.fail(f"two provider fetches for key {viol[0]} at {viol[1]} and {viol[2]} (interval {iv}) under a forced schedule", canon)
        if len(chk.samples) < 4 and interesting:
            chk.sample({"schedule": canon, "fetch_log": real[-1]["fetches"], "returns": real[-1]["rets"]})
    # the regression model really differs on the race schedule (evaluated, not assumed)
    race = [("Call", 0, 7), ("Call", 1, 7), ("Th", 0), ("Th", 1)] + [("Th", 0)] * 7 + [("Th", 1)] * 9
    reg = core.coq_eval(IMPORTS, [f"(sep_ok 300%N (fetches (run false 300%N {c_sched(race)} (init 2%nat))), sep_ok 300%N (fetches (run true 300%N {c_sched(race)} (init 2%nat))))"])[0]
    if list(reg) != [False, True]:
        chk.disagree("regression model (no re-check) should violate separation on the race schedule, the real model should not", race, None, reg)
    real_race = run_real_schedule(2, 300, race)
    if sep_violation(real_race[-1]["fetches"], 300) is not None or len(real_race[-1]["fetches"]) != 1:
        chk.fail("race schedule: the real provider fetched more than once", {"n": 2, "iv": 300, "sched": [list(l) for l in race]}, real_race[-1]["fetches"])

    # free-running stress of the un-keyed CachingAuthProvider (OS scheduler, fake clock)
    stress = stress_unkeyed(chk, 6 if chk.tier == "quick" else 60)
    chk.stages["B_forced_schedules"] = {"schedules": len(cases), "corpus": len(corpus), "agree_step_by_step": agree,
                                        "schedules_with_a_refetch_of_a_key": refetch, "stress_runs": stress}


def stress_unkeyed(chk, runs):
    from schemathesis import auths

    rng = chk.rng
    done = 0
    for _ in range(runs):
        iv = rng.choice([1, 3, 50])
        clock = [0]
        log = []
        lk = threading.Lock()

        class Prov:
            def get(self, case, context):
                with lk:
                    log.append((0, clock[0], len(log) + 1))
                time.sleep(0.0005)
                return len(log)

            def set(self, case, data, context):
                pass

        prov = auths.CachingAuthProvider(Prov(), refresh_interval=iv, timer=lambda: clock[0])
        stop = [False]
        expired = []

        def caller():
            while not stop[0]:
                prov.get(None, None)

        ths = [threading.Thread(target=caller, daemon=True) for _ in range(rng.choice([2, 4, 8]))]
        for t in ths:
            t.start()
        for _i in range(40):
            time.sleep(0.0007)
            clock[0] += rng.choice([0, 1, 1, iv])
        stop[0] = True
        for t in ths:
            t.join(timeout=5)
        viol = sep_violation(log, iv)
        chk.seen({"stress": iv, "fetches": len(log)}, len(log) > 1)
        if viol is not None:
            chk.fail(f"CachingAuthProvider fetched twice within one interval under free-running threads: {viol}", {"iv": iv, "log": log[:20]})
        done += 1
    return done


# ----------------------------------------------------------------------------------------
# stage D: forced schedules on the real EngineContext.session (lazy initialisation of the shared requests.Session)
# ----------------------------------------------------------------------------------------
# model pc tag -> the point the real reader is blocked at (None = not inside ctx.session)
SESS_TAG = {0: None, 1: "call", 2: "cget", 3: "sread", 4: "sread", 5: "create", 6: "set:verify", 7: "set:auth", 8: "set:headers",
            9: "set:cert", 10: "set:proxies", 11: "?conf-nothing", 12: "publish", 13: "swrite", 14: "sread", 15: "sread"}
SESS_FIELDS = ("verify", "auth", "headers", "cert", "proxies")


def basic_value(auth):
    return None if auth is None else "Basic " + base64.b64encode(":".join(auth).encode("latin1")).decode()


def sess_snapshot(o):
    """the attributes EngineContext.session assigns, canonical"""
    auth = getattr(o, "auth", None)
    if isinstance(auth, (tuple, list)) and len(auth) == 2:
        a = basic_value(tuple(auth))
    else:
        a = None if auth is None else enc(repr(auth))
    cert = getattr(o, "cert", None)
    return (enc(getattr(o, "verify", None)), a, [(k, enc(v)) for k, v in o.headers.items()], None if cert is None else enc(cert),
            [(k, enc(v)) for k, v in dict.items(o.proxies)])


def c_sess(x) -> str:
    v, a, h, ce, px = x
    return "{| s_verify := %s; s_auth := %s; s_headers := %s; s_cert := %s; s_proxies := %s |}" % (
        cstr(v), copt(None if a is None else cstr(a), "str"), citems(h), copt(None if ce is None else cstr(ce), "str"), citems(px))


def c_ncfg(net) -> str:
    return "{| n_verify := %s; n_auth := %s; n_headers := %s; n_cert := %s; n_proxy := %s |}" % (
        cstr(enc(net["verify"])), copt(None if net["auth"] is None else cstr(basic_value(tuple(net["auth"]))), "str"), cdict(net["headers"]),
        copt(None if net["cert"] is None else cstr(enc(_cert(net["cert"]))), "str"), copt(None if net["proxy"] is None else cstr(net["proxy"]), "str"))


def _cert(c):
    return tuple(c) if isinstance(c, list) else c


def c_ssched(sched) -> str:
    return clist([{"Call": "SCall", "Th": "STh", "Use": "SUse"}[l[0]] + " " + cnat(l[1]) for l in sched], "slabel")


def run_real_session(n, net, explicit, sched):
    """Drives the real EngineContext.session from n reader threads under a forced schedule.  Scheduling points (all harness-side):
    the reader's call, the cached_property's look into / store to the instance dict (a __dict__ proxy of a harness subclass of
    EngineContext), reads / writes of ctx._session, the construction of a requests.Session and every assignment to one.
    Returns (observations after each label, library default headers, explicit snapshot or None)."""
    import requests
    from requests.structures import CaseInsensitiveDict

    import schemathesis
    from schemathesis.engine.config import EngineConfig, NetworkConfig
    from schemathesis.engine.context import EngineContext

    ctl = Ctl(n)
    objs: list = []
    gots: list = []
    sends: list = []
    held: list = [None] * n
    unprepared: list = []

    def point(name):
        if getattr(ctl.tls, "tid", None) is not None:
            ctl.point(name)

    class IHeaders(CaseInsensitiveDict):
        _armed = False

        def __init__(self, data=None):
            super().__init__(data)
            self._armed = True

        def update(self, *a, **kw):
            if self._armed:
                point("set:headers")
                self._armed = False
                try:
                    super().update(*a, **kw)
                finally:
                    self._armed = True
            else:
                super().update(*a, **kw)

        def __setitem__(self, k, v):
            if self._armed:
                point("set:headers")
            super().__setitem__(k, v)

    class IProxies(dict):
        def __setitem__(self, k, v):
            point("set:proxies")
            dict.__setitem__(self, k, v)

        def update(self, *a, **kw):
            point("set:proxies")
            dict.update(self, *a, **kw)

    orig_session = requests.Session

    class ISession(orig_session):
        def __init__(self):
            point("create")
            object.__setattr__(self, "_verif_ready", False)
            super().__init__()
            object.__setattr__(self, "headers", IHeaders(list(self.headers.items())))
            object.__setattr__(self, "proxies", IProxies(self.proxies))
            with ctl.cv:
                objs.append(self)
            object.__setattr__(self, "_verif_ready", True)

        def __setattr__(self, name, value):
            if self.__dict__.get("_verif_ready") and name in SESS_FIELDS + ("trust_env", "cookies", "hooks", "params", "stream", "max_redirects"):
                point("set:" + name)
            object.__setattr__(self, name, value)

    real_dict = None
    for klass in EngineContext.__mro__:
        if "__dict__" in klass.__dict__:
            real_dict = klass.__dict__["__dict__"]
            break
    assert real_dict is not None, "EngineContext has no instance dict"

    class DictProxy:
        def __init__(self, d):
            self.d = d

        def get(self, k, default=None):
            if k == "session":
                point("cget")
            return self.d.get(k, default)

        def __getitem__(self, k):
            if k == "session":
                point("cget")
            return self.d[k]

        def __contains__(self, k):
            if k == "session":
                point("cget")
            return k in self.d

        def __setitem__(self, k, v):
            if k == "session":
                point("publish")
            self.d[k] = v

        def setdefault(self, k, v):
            if k == "session":
                point("publish")
            return self.d.setdefault(k, v)

    class ICtx(EngineContext):
        @property
        def __dict__(self):
            return DictProxy(real_dict.__get__(self))

        def __getattribute__(self, name):
            if name == "_session":
                point("sread")
            return object.__getattribute__(self, name)

        def __setattr__(self, name, value):
            if name in ("_session", "session"):
                point("swrite")
            object.__setattr__(self, name, value)

    defaults = list(requests.utils.default_headers().items())
    netcfg = NetworkConfig(auth=None if net["auth"] is None else tuple(net["auth"]), headers=dict(net["headers"]), tls_verify=net["verify"],
                           proxy=net["proxy"], cert=_cert(net["cert"]))
    schema = schemathesis.openapi.from_dict({"openapi": "3.0.2", "info": {"title": "t", "version": "1"}, "paths": {}})
    want_auth = basic_value(None if net["auth"] is None else tuple(net["auth"]))
    requests.Session = ISession
    threads = []
    out = []
    try:
        ex_obj = None
        if explicit is not None:
            ex_obj = ISession()
            object.__setattr__(ex_obj, "auth", tuple(explicit["auth"]) if explicit.get("auth") else None)
            dict.update(ex_obj.proxies, explicit.get("proxies") or {})
            for k, v in (explicit.get("headers") or {}).items():
                CaseInsensitiveDict.__setitem__(ex_obj.headers, k, v)
            object.__setattr__(ex_obj, "verify", explicit.get("verify", True))
        ex_snap = None if ex_obj is None else sess_snapshot(ex_obj)
        ctx = ICtx(schema=schema, stop_event=threading.Event(), config=EngineConfig(network=netcfg), session=ex_obj)
        requests_q: list[list] = [[] for _ in range(n)]

        def idx(o):
            for i, x in enumerate(objs):
                if x is o:
                    return i
            return None if o is None else -1

        def reader(tid):
            ctl.tls.tid = tid
            try:
                while True:
                    with ctl.cv:
                        while not requests_q[tid]:
                            if ctl.abort:
                                return
                            ctl.cv.wait(0.2)
                        item = requests_q[tid].pop(0)
                    if item is None:
                        return
                    ctl.point("call")
                    sess = ctx.session if tid % 2 == 0 else ctx.transport_kwargs["session"]
                    with ctl.cv:
                        gots.append((tid, idx(sess), sess_snapshot(sess)))
                        held[tid] = sess
                        ctl.busy[tid] = False
                        ctl.cv.notify_all()
            except Abort:
                return
            except BaseException as exc:  # noqa: BLE001 (the property under test raised: report, do not hang)
                with ctl.cv:
                    gots.append((tid, None, f"raises {type(exc).__name__}: {exc}"))
                    ctl.busy[tid] = False
                    ctl.cv.notify_all()

        threads = [threading.Thread(target=reader, args=(i,), daemon=True) for i in range(n)]
        for t in threads:
            t.start()

        def observe():
            d = real_dict.__get__(ctx)
            return {"heap": [sess_snapshot(o) for o in objs], "cached": idx(d.get("session")), "sattr": idx(d.get("_session")),
                    "at": [ctl.at.get(i) for i in range(n)], "gots": list(gots), "sends": list(sends)}

        for lab in sched:
            kind, t = lab[0], lab[1]
            if kind == "Call":
                if t < n and not ctl.busy[t]:
                    with ctl.cv:
                        gen = ctl.gen[t]
                        ctl.busy[t] = True
                        requests_q[t].append(1)
                        ctl.cv.notify_all()
                    if not ctl.wait_blocked_or_idle(t, gen):
                        raise TimeoutError(f"reader {t} did not reach its first point")
            elif kind == "Th":
                if t < n and t in ctl.at:
                    with ctl.cv:
                        gen = ctl.gen[t]
                        ctl.released.add(t)
                        ctl.cv.notify_all()
                    if not ctl.wait_blocked_or_idle(t, gen):
                        raise TimeoutError(f"reader {t} did not come back after a step (deadlock in the implementation?)")
            else:  # Use: reader t sends a request through the session it obtained last
                if t < n and held[t] is not None:
                    o = held[t]
                    sends.append((t, idx(o), sess_snapshot(o)))
                    try:
                        prepared = orig_session.prepare_request(o, requests.Request("GET", "http://127.0.0.1:1/", headers={"X-Verif": "1"}))
                        got_auth = prepared.headers.get("Authorization")
                    except Exception as exc:  # noqa: BLE001
                        got_auth = f"raises {type(exc).__name__}"
                    if ex_obj is None and want_auth is not None and got_auth != want_auth:
                        unprepared.append((t, idx(o), got_auth))
            out.append(observe())
    finally:
        requests.Session = orig_session
        with ctl.cv:
            ctl.abort = True
            for q in locals().get("requests_q", []):
                q.append(None)
            ctl.cv.notify_all()
        for t in threads:
            t.join(timeout=2)
    return out, defaults, ex_snap, unprepared


def model_sdelta(v):
    heap, cached, sattr, tags, gots, sends = v

    def ps(x):
        ver, a, h, ce, px = x
        a, ce = popt(a), popt(ce)
        return (pstr(ver), None if a is None else pstr(a), pdict(h), None if ce is None else pstr(ce), pdict(px))

    def plog(e):
        return (e[0], e[1], ps(e[2]))

    return {"heap_changes": [(i, ps(x)) for i, x in heap], "cached": popt(cached), "sattr": popt(sattr), "at": [SESS_TAG[t] for t in tags],
            "handed_out": [plog(e) for e in gots], "sent_through": [plog(e) for e in sends]}


def real_sdeltas(obs, explicit_snap):
    """the change made by each label, from the full observations (mirror of Model_C14.s_delta)"""
    prev = {"heap": [] if explicit_snap is None else [explicit_snap], "gots": [], "sends": []}
    out = []
    for o in obs:
        changes = [(i, x) for i, x in enumerate(o["heap"]) if i >= len(prev["heap"]) or _norm(prev["heap"][i]) != _norm(x)]
        out.append({"heap_changes": changes, "cached": o["cached"], "sattr": o["sattr"], "at": o["at"],
                    "handed_out": o["gots"][len(prev["gots"]):], "sent_through": o["sends"][len(prev["sends"]):]})
        prev = o
    return out


NET_SAFE_NAMES = ["X-Canary", "x-canary", "User-Agent", "user-agent", "Accept", "accept-encoding", "X-B", "Authorization", "Connection"]


def gen_netcfg(rng):
    hs = {}
    for name in rng.sample(NET_SAFE_NAMES, rng.choice([0, 0, 1, 2, 3])):
        hs[name] = rng.choice(["v", "CAN", "mine", "1", "a b"])
    return {
        "verify": rng.choice([True, True, False, "/ca/bundle.pem"]),
        "auth": rng.choice([None, ["u", "p"], ["u", "p"], ["user", "pa:ss"]]),
        "headers": hs,
        "cert": rng.choice([None, None, "/c/client.pem", ["/c/client.pem", "/c/key.pem"]]),
        "proxy": rng.choice([None, None, "http://127.0.0.1:9"]),
    }


def gen_sess_schedule(rng, n, length):
    sched = []
    for _ in range(length):
        r = rng.random()
        if r < 0.22:
            sched.append(("Call", rng.randrange(n + (1 if rng.random() < 0.1 else 0))))
        elif r < 0.34:
            sched.append(("Use", rng.randrange(n)))
        else:
            t = rng.randrange(n)
            for _b in range(rng.choice([1, 1, 1, 2, 3, 5, 12])):
                sched.append(("Th", t))
    return sched


def preemption_sweep(n, depth):
    """reader 0 is stopped after k of its steps (k = 0..depth); then every other reader runs to the end and sends a request; then
    reader 0 finishes: hits every window between two shared accesses of the initialising reader"""
    out = []
    for k in range(depth + 1):
        sched = [("Call", t) for t in range(n)] + [("Th", 0)] * k
        for t in range(1, n):
            sched += [("Th", t)] * depth + [("Use", t)]
        sched += [("Th", 0)] * depth + [("Use", 0)] + [("Use", t) for t in range(1, n)]
        out.append(sched)
    return out


def stage_d(chk: core.Check, n_sched: int):
    rng = chk.rng
    corpus = [json.loads(p.read_text()) for p in sorted((core.VERIF / "corpus" / "C14").glob("c_*.json"))]
    cases = [(c["n"], c["net"], c.get("explicit"), [tuple(l) for l in c["sched"]]) for c in corpus]
    full = {"verify": False, "auth": ["u", "p"], "headers": {"X-Canary": "CAN"}, "cert": "/c/client.pem", "proxy": "http://127.0.0.1:9"}
    only_auth = {"verify": True, "auth": ["u", "p"], "headers": {}, "cert": None, "proxy": None}
    for sched in preemption_sweep(2, 11):
        cases.append((2, full, None, sched))
    for sched in preemption_sweep(3 if chk.seed % 2 else 2, 7)[:: 1 if chk.tier != "quick" else 2]:
        cases.append((3 if chk.seed % 2 else 2, only_auth, None, sched))
    for _ in range(n_sched):
        n = rng.choice([1, 2, 2, 3, 3, 4])
        explicit = None
        if rng.random() < 0.15:
            explicit = {"auth": rng.choice([None, ["e", "x"]]), "headers": {"X-E": "1"}, "verify": rng.choice([True, False]), "proxies": {}}
        cases.append((n, gen_netcfg(rng), explicit, gen_sess_schedule(rng, n, rng.choice([8, 16, 30]))))
    reals = []
    for n, net, explicit, sched in cases:
        canon = {"n": n, "net": net, "explicit": explicit, "sched": [list(l) for l in sched]}
        try:
            reals.append(run_real_session(n, net, explicit, sched))
        except Exception as exc:  # noqa: BLE001
            chk.disagree("forced schedule on the real EngineContext.session did not complete", canon, f"{type(exc).__name__}: {exc}", None)
            reals.append(None)
    exprs = []
    for (n, net, explicit, sched), real in zip(cases, reals):
        if real is None:
            exprs.append(f"s_trace_delta true {c_ncfg(net)} [] [] (s_init 0%nat None)")  # placeholder of the same type
            continue
        _, defaults, ex_snap, _ = real
        ex = "None" if ex_snap is None else f"(Some {c_sess(ex_snap)})"
        exprs.append(f"s_trace_delta true {c_ncfg(net)} {citems(defaults)} {c_ssched(sched)} (s_init {cnat(n)} {ex})")
    models = core.coq_eval(IMPORTS, exprs, shard=8)
    agree = both_built = handed = 0
    for (n, net, explicit, sched), real, mv in zip(cases, reals, models):
        if real is None:
            continue
        canon = {"n": n, "net": net, "explicit": explicit, "sched": [list(l) for l in sched]}
        obs, _, ex_snap, unprepared = real
        mobs = [model_sdelta(v) for v in mv]
        last = obs[-1] if obs else {"heap": [], "gots": [], "sends": []}
        interesting = len(last["heap"]) - (1 if explicit else 0) >= 2 or any(
            sum(a is not None and a.startswith("set:") or a in ("publish", "create") for a in o["at"]) >= 1 and any(a in ("call", "cget") for a in o["at"]) for o in obs)
        chk.seen(canon, interesting)
        chk.count(f"sess:readers:{n}")
        chk.count(f"sess:objects_built:{min(len(last['heap']), 4)}")
        both_built += len(last["heap"]) - (1 if explicit else 0) >= 2
        handed += len(last["gots"])
        bad = None
        for i, (r, m) in enumerate(zip(real_sdeltas(obs, ex_snap), mobs)):
            if _norm(r) != _norm(m):
                bad = (i, r, m)
                break
        if bad is not None:
            i, r, m = bad
            chk.disagree(f"real EngineContext.session vs Model_C14.s_trace_delta at step {i} ({sched[i]})", canon, _norm(r), _norm(m))
        else:
            agree += 1
        # oracle, independent of the model: what a reader is handed / sends through carries the configured credentials
        want = basic_value(None if net["auth"] is None else tuple(net["auth"]))
        if explicit is None and want is not None:
            problem = None
            for kind, log in (("was handed", last["gots"]), ("sent a request through", last["sends"])):
                for t, o, snap in log:
                    if problem is None and isinstance(snap, str):
                        problem = (f"reader {t}: ctx.session {snap} under a forced schedule", None)
                    elif problem is None and snap[1] != want:
                        problem = (f"reader {t} {kind} a requests.Session (object #{o}) whose auth is {snap[1]!r}, configured {want!r}, "
                                   f"under a forced schedule of {n} readers of EngineContext.session", {"session_attributes": snap})
            for t, o, got_auth in unprepared:
                if problem is None:
                    problem = (f"reader {t}: the request prepared through the session it holds (object #{o}) carries Authorization={got_auth!r}, configured {want!r}", None)
            if problem is not None:
                chk.fail(problem[0], canon, problem[1])
        if len(chk.samples) < 6 and interesting and bad is None:
            chk.sample({"session_schedule": canon, "handed_out": [(t, o) for t, o, _ in last["gots"]]})
    # the regression model (publish first) really differs on the witness schedule (evaluated, not assumed)
    w = [("Call", 0), ("Call", 1), ("Th", 0), ("Th", 0), ("Th", 0), ("Th", 1), ("Th", 1), ("Use", 1)]
    C = c_ncfg(only_auth)
    reg = core.coq_eval(IMPORTS, [f"(forallb (auth_ok {C}) (sends (s_run false {C} [] {c_ssched(w)} (s_init 2%nat None))), "
                                  f"forallb (auth_ok {C}) (sends (s_run true {C} [] {c_ssched(preemption_sweep(2, 11)[5])} (s_init 2%nat None))))"])[0]
    if list(reg) != [False, True]:
        chk.disagree("regression model (publish first) should hand out an unconfigured session on the witness schedule, the model of the code should not", w, None, reg)
    chk.stages["D_session_forced_schedules"] = {"schedules": len(cases), "corpus": len(corpus), "agree_step_by_step": agree,
                                                "schedules_where_two_readers_built_a_session": both_built, "sessions_handed_out": handed}


# ----------------------------------------------------------------------------------------
# stage C: live engine oracle
# ----------------------------------------------------------------------------------------
def oracle_schema(links=True, secured=False, small=False):
    from harness.engine_util import demo_schema

    item = {
        "get": {
            "operationId": "getItem",
            "parameters": [
                {"name": "iid", "in": "path", "required": True, "schema": {"type": "integer", "minimum": 1}},
                {"name": "q", "in": "query", "required": True, "schema": {"type": "string", "example": "exq"}},
                {"name": "r", "in": "query", "schema": {"type": "integer", "minimum": 3}},
                {"name": "api_key", "in": "query", "schema": {"type": "string", "example": "exk"}},
                {"name": "X-Over", "in": "header", "required": True, "schema": {"type": "string", "example": "exh"}},
                {"name": "X-Gen", "in": "header", "schema": {"type": "string", "enum": ["a", "b"]}},
                {"name": "X-Canary", "in": "header", "schema": {"type": "string", "example": "generated"}},
                {"name": "c", "in": "cookie", "schema": {"type": "string", "example": "exc"}},
                {"name": "session", "in": "cookie", "schema": {"type": "string"}},
            ],
            "responses": {"200": {"description": "ok"}},
        }
    }
    if small:  # the coverage phase sends ~20 requests per parameter: keep one parameter of each kind
        item["get"]["parameters"] = [p for p in item["get"]["parameters"] if p["name"] in ("iid", "q", "api_key", "X-Over", "X-Canary", "session")]
    if secured:
        item["get"]["security"] = [{"key": []}]
    raw = demo_schema({"/items/{iid}": item}, links=links)
    if links:
        raw["paths"]["/users"]["post"]["responses"]["201"]["links"]["item"] = {"operationId": "getItem", "parameters": {"iid": "$response.body#/id", "q": "$response.body#/id"}}
    if secured:
        raw["components"] = {"securitySchemes": {"key": {"type": "apiKey", "in": "header", "name": "X-Canary"}}}
    return raw


def probe_ids(events):
    ids = set()
    for ev in events:
        rec = getattr(ev, "recorder", None)
        if rec is None:
            continue
        for cid, node in rec.cases.items():
            if node.parent_id is not None and node.transition is None:
                ids.add(cid)
    return ids


def region_of(cfg, phase, what, name):
    """Python mirror of the model's region predicates"""
    from schemathesis.core.output.sanitization import sanitize_value

    if what == "override-header" and name.lower() in {k.lower() for k in (cfg.get("headers") or {})}:
        return "header_and_override_same_name"
    if what in ("override-query", "override-cookie") and phase != "stateful" and cfg.get("unique_inputs") and cfg.get("sanitize", True):
        d = {name: "v"}
        sanitize_value(d)
        if d[name] != "v":
            return "override_sanitized_in_place_with_unique_inputs"
    if what == "net-header" and phase in ("coverage", "stateful") and name.lower() in ("user-agent", "x-schemathesis-testcaseid") and name not in ("User-Agent", "X-Schemathesis-TestCaseId"):
        return "default_header_on_plain_dict_beats_user_header"
    return None


def live_once(chk, cfg, phase, *, workers=1, secured=False, max_examples=4, stats=None):
    """One engine run; checks every non-probe request for the configured values."""
    from harness.engine_util import run_engine
    from schemathesis.generation import GenerationMode
    from schemathesis.specs.openapi.checks import ignored_auth

    raw = oracle_schema(secured=secured, small=(phase == "coverage" and chk.tier == "quick"))
    ov = make_override(cfg.get("override"))
    checks = [ignored_auth] if secured else None

    def responder(item):
        path = item["target"].split("?")[0]
        if secured and path.startswith("/items") and not any(k.lower() == "x-canary" and v == cfg["headers"].get("X-Canary") for k, v in item["headers"]):
            return 401, [("Content-Type", "application/json")], b"{}"
        if item["method"] == "POST" and path == "/users":
            return 201, [("Content-Type", "application/json")], b'{"id": 7}'
        return 200, [("Content-Type", "application/json")], b"{}"

    def configure(schema):
        schema.output_config = schema.output_config.replace(sanitize=cfg.get("sanitize", True))

    evs, reqs = run_engine(raw, responder, phases=[phase], workers=workers, max_examples=max_examples, seed=chk.rng.randrange(10**6),
                           headers=dict(cfg.get("headers") or {}), auth=cfg.get("auth"), override=ov, unique_inputs=cfg.get("unique_inputs", False),
                           modes=list(GenerationMode), checks=checks, configure=configure, step_count=4)
    probes = probe_ids(evs)
    declared_names = {p["name"] for p in raw["paths"]["/items/{iid}"]["get"]["parameters"]}
    canon_cfg = {"headers": cfg.get("headers"), "auth": cfg.get("auth") is not None, "override": cfg.get("override"), "unique_inputs": cfg.get("unique_inputs", False),
                 "sanitize": cfg.get("sanitize", True), "phase": phase, "workers": workers, "secured": secured}
    n_checked = 0
    n_probe = 0
    from urllib.parse import parse_qsl, urlsplit

    for r in reqs:
        hs = [(k, v) for k, v in r["headers"]]
        low = {}
        for k, v in hs:
            low[k.lower()] = v
        if low.get("x-schemathesis-testcaseid") in probes:
            n_probe += 1
            continue
        n_checked += 1
        path = urlsplit(r["target"]).path
        is_item = path.startswith("/items/")
        # network headers: every request, case-insensitively
        for name, val in (cfg.get("headers") or {}).items():
            if cfg.get("auth") is not None and name.lower() == "authorization":
                continue
            if len({v for k, v in cfg["headers"].items() if k.lower() == name.lower()}) > 1:
                continue  # the user configured two spellings with different values: no single user value (ci_user = None)
            if is_item and ov is not None and any(k.lower() == name.lower() and k in declared_names for k in cfg["override"]["headers"]):
                continue  # the more specific --set-header names it too: the override is the value demanded below
            if low.get(name.lower()) != val:
                chk.fail(f"configured header {name!r} not sent with the user's value in phase {phase}: got {low.get(name.lower())!r}", {"cfg": canon_cfg, "request": r["method"] + " " + r["target"]},
                         region=region_of(cfg, phase, "net-header", name))
        if cfg.get("auth") is not None:
            want = "Basic " + base64.b64encode(":".join(cfg["auth"]).encode()).decode()
            if low.get("authorization") != want:
                chk.fail(f"basic auth not sent in phase {phase}: got {low.get('authorization')!r}", {"cfg": canon_cfg, "request": r["method"] + " " + r["target"]})
        if is_item and ov is not None:
            query = dict(parse_qsl(urlsplit(r["target"]).query, keep_blank_values=True))
            qall = parse_qsl(urlsplit(r["target"]).query, keep_blank_values=True)
            for name, val in cfg["override"]["query"].items():
                if name in declared_names and [v for k, v in qall if k == name] != [val]:
                    chk.fail(f"query override {name}={val!r} not on the request in phase {phase}: {r['target']!r}", {"cfg": canon_cfg, "request": r["method"] + " " + r["target"]},
                             region=region_of(cfg, phase, "override-query", name))
            for name, val in cfg["override"]["headers"].items():
                if name in declared_names and low.get(name.lower()) != val:
                    chk.fail(f"header override {name}={val!r} not on the request in phase {phase}: got {low.get(name.lower())!r}", {"cfg": canon_cfg, "request": r["method"] + " " + r["target"]},
                             region=region_of(cfg, phase, "override-header", name))
            cookies = dict(p.strip().split("=", 1) for p in low.get("cookie", "").split(";") if "=" in p)
            for name, val in cfg["override"]["cookies"].items():
                if name in declared_names and cookies.get(name) != val:
                    chk.fail(f"cookie override {name}={val!r} not on the request in phase {phase}: got {low.get('cookie')!r}", {"cfg": canon_cfg, "request": r["method"] + " " + r["target"]},
                             region=region_of(cfg, phase, "override-cookie", name))
            for name, val in cfg["override"]["path_parameters"].items():
                if name == "iid" and path != f"/items/{val}":
                    chk.fail(f"path override iid={val!r} not on the request in phase {phase}: {path!r}", {"cfg": canon_cfg, "request": r["method"] + " " + r["target"]})
            del query
    if stats is not None:
        stats["runs"] += 1
        stats["requests_checked"] += n_checked
        stats["probe_requests"] += n_probe
        stats[f"requests:{phase}"] += n_checked
        if phase == "stateful":
            stats["stateful_item_requests"] += sum(1 for r in reqs if r["target"].startswith("/items/"))
    chk.seen({"live": canon_cfg}, n_checked > 0)
    return evs, reqs


ORACLE_CFGS = [
    # headers only (incl. a name the operation declares as a generated header, and odd casing)
    {"headers": {"X-Canary": "CAN", "x-gen": "USER"}},
    {"headers": {"X-Canary": "CAN"}, "auth": ("u", "p")},
    # overrides only: all four locations, names the operation declares (required and optional)
    {"override": {"query": {"q": "QV", "r": "RV"}, "headers": {"X-Over": "OV", "X-Gen": "b"}, "cookies": {"c": "CV"}, "path_parameters": {"iid": "42"}}},
    {"override": {"query": {"q": "QV", "zzz": "no"}, "headers": {}, "cookies": {"session": "SV"}, "path_parameters": {}}, "auth": ("u", "p"), "unique_inputs": True, "sanitize": False},
    # header override together with --header (was finding F1, fixed by 9a3b607c): must arrive in all four phases
    {"headers": {"X-Canary": "CAN"}, "override": {"query": {"q": "QV"}, "headers": {"X-Over": "OV"}, "cookies": {}, "path_parameters": {"iid": "9"}}},
    # F4 region: the same header named by --header and --set-header (same and different spelling)
    {"headers": {"X-Over": "NET", "x-gen": "NETG"}, "override": {"query": {}, "headers": {"X-Over": "OV", "X-Gen": "b"}, "cookies": {}, "path_parameters": {}}},
    # F2 region: sensitive names with unique_inputs
    {"override": {"query": {"api_key": "SECRET", "q": "QV"}, "headers": {}, "cookies": {"session": "SV"}, "path_parameters": {}}, "unique_inputs": True},
    # F3 region
    {"headers": {"user-agent": "mine", "X-Canary": "CAN"}},
    {"headers": {"User-Agent": "mine"}, "unique_inputs": True},
]
PHASE_NAMES = ["examples", "coverage", "fuzzing", "stateful"]


def stage_c(chk: core.Check, budget: int):
    stats = Counter()
    rng = chk.rng
    runs = []
    for cfg in ORACLE_CFGS:
        for ph in PHASE_NAMES:
            runs.append((cfg, ph, 1, False))
    # the ignored_auth probe strips the credential from its own requests only
    for ph in PHASE_NAMES:
        runs.append(({"headers": {"X-Canary": "CAN"}}, ph, 1, True))
    runs.append(({"headers": {"X-Canary": "CAN"}, "auth": ("u", "p")}, "fuzzing", 3, False))
    if chk.tier == "quick":
        # every phase of every config is too slow for the quick tier: two phases per configuration, rotating with the seed
        # (the F-region witnesses are replayed in their own phase at the end of every run)
        pick = []
        others = ["examples", "fuzzing", "stateful"]
        for i, r in enumerate(runs):
            ci = i // 4
            k = ci + chk.seed
            want = ["coverage", others[k % 3]] if k % 3 == 0 else [others[k % 3], others[(k + 1) % 3]]
            if r[3]:
                if r[1] != "coverage" or chk.seed % 2 == 0:
                    pick.append(r)
            elif r[2] > 1 or r[1] in want:
                pick.append(r)
        runs = pick[: budget + 6]
    for cfg, ph, workers, secured in runs:
        cfg = dict(cfg)
        cfg.setdefault("headers", {})
        try:
            live_once(chk, cfg, ph, workers=workers, secured=secured, stats=stats, max_examples=3 if chk.tier == "quick" else 8)
        except Exception as exc:  # noqa: BLE001
            chk.broken.append({"kind": "harness", "what": f"live engine run failed: {type(exc).__name__}: {exc}", "detail": {"cfg": str(cfg), "phase": ph}})
    # extra random configurations (thorough, or when something is already broken)
    extra = 0 if chk.tier == "quick" and not chk.broken else (40 if chk.tier == "thorough" else 20)
    decl = {"query": ["q", "r", "api_key"], "headers": ["X-Over", "X-Gen", "X-Canary"], "cookies": ["c", "session"], "path_parameters": ["iid"]}
    for _ in range(extra):
        cfg = gen_cfg(rng, decl)
        cfg["headers"] = {k: v for k, v in cfg["headers"].items() if v.strip() and v.isascii() and k.lower() not in ("accept",)}
        if cfg["override"] is not None:
            for loc in cfg["override"]:
                cfg["override"][loc] = {k: (v if v.strip() and v.isascii() and " " not in v else "OV") for k, v in cfg["override"][loc].items()}
            cfg["override"]["path_parameters"] = {"iid": "5"} if rng.random() < 0.5 else {}
            cfg["override"]["query"].update({"q": "QV"} if rng.random() < 0.5 else {})
        try:
            live_once(chk, cfg, rng.choice(PHASE_NAMES), workers=rng.choice([1, 2]), stats=stats, max_examples=4)
        except Exception as exc:  # noqa: BLE001
            chk.broken.append({"kind": "harness", "what": f"live engine run failed: {type(exc).__name__}: {exc}", "detail": {"cfg": str(cfg)}})
    provider_live(chk, stats)
    try:
        session_overlap_live(chk, stats)
    except Exception as exc:  # noqa: BLE001
        chk.broken.append({"kind": "harness", "what": f"session overlap run failed: {type(exc).__name__}: {exc}", "detail": None})
    if stats["stateful_item_requests"] == 0:
        chk.notes.append("no link-derived request reached /items in the stateful runs of this seed")
    chk.stages["C_live_engine_oracle"] = dict(stats)


def provider_live(chk, stats):
    """A cached auth provider registered on the schema, several workers: one fetch, token on every request."""
    from harness.engine_util import run_engine

    for workers, keyed in (((4, False), (3, True)) if chk.tier == "quick" else ((1, False), (4, False), (3, True), (2, True))):
        fetches = []
        lk = threading.Lock()

        def configure(schema, keyed=keyed):
            kw = {"cache_by_key": (lambda case, ctx: case.operation.label)} if keyed else {}

            @schema.auth(**kw)
            class TokenAuth:
                def get(self, case, context):
                    with lk:
                        fetches.append((case.operation.label if keyed else "-", time.monotonic()))
                    time.sleep(0.01)
                    return "TKN"

                def set(self, case, data, context):
                    case.headers = case.headers or {}
                    case.headers["X-Token"] = data

        raw = oracle_schema(small=chk.tier == "quick")
        evs, reqs = run_engine(raw, None, phases=["examples", "coverage", "fuzzing", "stateful"], workers=workers, max_examples=3, seed=1, configure=configure, step_count=3)
        per_key = Counter(k for k, _ in fetches)
        missing = [r["method"] + " " + r["target"] for r in reqs if not any(k.lower() == "x-token" and v == "TKN" for k, v in r["headers"])]
        canon = {"workers": workers, "keyed": keyed}
        chk.seen({"provider_live": canon}, True)
        stats["provider_runs"] += 1
        stats["provider_requests"] += len(reqs)
        if any(c > 1 for c in per_key.values()):
            chk.fail(f"auth provider fetched more than once per key within the refresh interval: {dict(per_key)}", canon)
        if missing:
            chk.fail(f"{len(missing)} of {len(reqs)} requests lack the auth provider's token", {**canon, "first": missing[:3]})
        if not fetches:
            chk.fail("auth provider never consulted", canon)


def session_overlap_live(chk, stats):
    """Engine runs with 2-3 workers, basic auth (and verify / header settings), NO probing phase (so the worker threads are the first
    to ask the context for its session), where the session set-up is slowed down: the network configuration is a NetworkConfig
    subclass whose attribute reads made from inside EngineContext.session sleep once per attribute.  The workers overlap in the lazy
    initialisation; every request the API receives must carry the configured Authorization (and the configured header)."""
    import sys as _sys
    from dataclasses import dataclass

    import hypothesis

    import schemathesis
    from harness.loopback import Recorder
    from schemathesis.engine import from_schema
    from schemathesis.engine.config import EngineConfig, ExecutionConfig, NetworkConfig
    from schemathesis.engine.phases import PhaseName

    rng = chk.rng
    plans = [(2, "fuzzing", {"auth": ("u", "p")}), (3, "fuzzing", {"auth": ("user", "pa:ss"), "headers": {"X-Canary": "CAN"}, "tls_verify": False})]
    if chk.tier != "quick" or chk.broken:
        plans += [(3, "coverage", {"auth": ("u", "p"), "headers": {"X-Canary": "CAN"}}), (2, "examples", {"auth": ("u", "p")}),
                  (4, "fuzzing", {"auth": ("u", "p"), "tls_verify": False})]
    for workers, phase, netkw in plans:
        slept: set = set()
        lk = threading.Lock()
        delay = rng.choice([0.15, 0.25])

        @dataclass
        class SlowNetworkConfig(NetworkConfig):
            def __getattribute__(self, name):
                if name in ("tls_verify", "auth", "headers", "cert", "proxy") and _sys._getframe(1).f_code.co_name == "session":
                    with lk:
                        first = name not in slept
                        slept.add(name)
                    if first:
                        time.sleep(delay)
                return object.__getattribute__(self, name)

        paths = {}
        for name in ("a", "b", "c", "d", "e", "f"):
            paths[f"/things/{name}"] = {"get": {"parameters": [{"name": "limit", "in": "query", "schema": {"type": "integer", "minimum": 0}, "example": 3}],
                                                "responses": {"200": {"description": "ok"}}}}
        raw = {"openapi": "3.0.2", "info": {"title": "t", "version": "1"}, "paths": paths}
        rec = Recorder(lambda item: (200, [("Content-Type", "application/json")], b"{}"))
        try:
            schema = schemathesis.openapi.from_dict(raw)
            schema.configure(base_url=rec.url)
            settings = hypothesis.settings(max_examples=4, deadline=None, database=None, derandomize=False, suppress_health_check=list(hypothesis.HealthCheck))
            exe = ExecutionConfig(phases=[PhaseName.from_str(phase)], hypothesis_settings=settings, seed=rng.randrange(10**6), workers_num=workers)
            config = EngineConfig(execution=exe, network=SlowNetworkConfig(**netkw))
            for _ev in from_schema(schema, config=config).execute():
                pass
            reqs = rec.take()
        finally:
            rec.close()
        want = basic_value(netkw["auth"])
        canon = {"workers": workers, "phase": phase, "network": {k: (list(v) if isinstance(v, tuple) else v) for k, v in netkw.items()},
                 "probing": False, "session_setup_delayed_per_attribute_s": delay}
        chk.seen({"session_overlap_live": canon}, bool(slept) and len(reqs) > 0)
        stats["session_overlap_runs"] += 1
        stats["session_overlap_requests"] += len(reqs)
        if not slept:
            chk.notes.append("session_overlap_live: no configuration attribute was read from inside EngineContext.session (the set-up moved?)")
        bad = [r for r in reqs if dict((k.lower(), v) for k, v in r["headers"]).get("authorization") != want]
        if bad:
            r = bad[0]
            got = dict((k.lower(), v) for k, v in r["headers"]).get("authorization")
            chk.fail(f"{len(bad)} of {len(reqs)} requests received by the API lack the configured basic auth (first: {r['method']} {r['target']} Authorization={got!r}) "
                     f"with {workers} workers overlapping in the lazy set-up of the shared session, phase {phase}, no probing", canon)
        for name, val in (netkw.get("headers") or {}).items():
            miss = [r for r in reqs if dict((k.lower(), v) for k, v in r["headers"]).get(name.lower()) != val]
            if miss:
                chk.fail(f"{len(miss)} of {len(reqs)} requests lack the configured header {name} with {workers} workers overlapping in the session set-up", canon)
        if not reqs:
            chk.fail("session_overlap_live: the API received no request", canon)


# ----------------------------------------------------------------------------------------
# known findings
# ----------------------------------------------------------------------------------------
def witness_fails(w) -> bool:
    """Replays a canonical witness on the implementation: True when the user's value is NOT on the wire."""
    probe = core.Check("C14", "quick", 0)
    probe.findings = []
    cfg = dict(w["cfg"])
    if cfg.get("auth"):
        cfg["auth"] = tuple(cfg["auth"])
    cfg.setdefault("headers", {})
    live_once(probe, cfg, w["phase"], max_examples=3)
    return bool(probe.failures)


def run(chk: core.Check):
    quick = chk.tier == "quick"
    chk.trusted = [
        "Coq 8.16.1 kernel, vm_compute (witness lemmas and model evaluation); no native_compute; no axioms",
        "hand-written model theories/C14/Model_C14.v: Part A (dict / CaseInsensitiveDict algebra of prepare_headers, get_strategy_kwargs, "
        "get_parameters_value, add_coverage, before_call, remove_auth, sanitize_value, AuthStorage.set), Part B (CachingAuthProvider.get as an LTS) "
        "and Part C (EngineContext.session + functools.cached_property as an LTS over n readers)",
        "correspondence harness harness/props/c14.py (encoders, Coq output parser, instrumented dict/lock/timer/provider, controller; for Part C the "
        "instrumented requests.Session subclass, the __dict__ proxy / _session interception of a harness subclass of EngineContext)",
        "requests 2.x header / auth merge (Session.prepare_request) - modelled in wire_headers and compared with the real library on every run",
        "the loopback HTTP server harness/loopback.py as the observer of what is sent",
    ]
    chk.assumptions = [
        "Hypothesis / hypothesis-jsonschema honour exclude=explicit.keys(): a generated container has no key of the explicit one (excl_ok / no_ci_key hypotheses)",
        "parameter serializers (serialize_components) leave string-valued entries unchanged; override values are strings (CLI)",
        "each dict get / setitem, timer() call, Lock acquire / release and provider.get is one atomic step (CPython GIL); cache_by_key is a pure function",
        "the clock is monotone (time.monotonic)",
        "Part C: the instance-dict lookup of ctx.session, cache.get / cache[name] = val of functools.cached_property (Python 3.12: no lock), each read / write of "
        "ctx._session, requests.Session() and each attribute assignment on a session is one atomic step; reads of the immutable NetworkConfig are not shared accesses",
        "an auth provider's set() is user code: only the choice of provider and its cached data are modelled",
    ]
    chk.rule = (
        "A: operations with 0-3 declared names per location from pools with case variants and sensitive names x configurations "
        "(0-3 network headers incl. User-Agent/Authorization/test-case-id spellings, basic auth, overrides naming declared and undeclared parameters, "
        "unique_inputs, sanitize) x scripted generator outputs with clashes; non-trivial = an override names a declared parameter or network headers exist. "
        "B: schedules over 1-4 callers, keys {1,2}, interval {0,5,300}, labels Tick d / Call t k / Th t with bursts; non-trivial = a key is fetched twice or a caller "
        "waits for the lock.  C: live engine runs per phase; every non-probe request is inspected; plus runs with 2-3 workers, basic auth, no probing and a delayed session set-up.  "
        "D: network configurations (verify True/False/path, auth or none, 0-3 headers, cert, proxy; 15% with an explicitly passed session) x schedules over 1-4 readers of ctx.session "
        "with labels Call t / Th t / Use t (send a request through the session held): a preemption sweep (reader 0 stopped after each of its k = 0..11 steps while the others run to the "
        "end and send) and random bursts; non-trivial = two readers built a session or one reader is inside the set-up while another asks.  All draws from one PRNG seeded by VERIF_SEED."
    )
    chk.proofs(["Common", "C14"])
    stage_a(chk, 30 if quick else 400)
    regression_prefix(chk)
    stage_b(chk, (45 if quick else 600) * (3 if chk.broken else 1))
    stage_c(chk, (17 if quick else 10**6) * (3 if chk.broken else 1))
    stage_d(chk, (40 if quick else 500) * (3 if chk.broken else 1))   # after C: the draws of the stages A-C stay what they were
    for f in chk.findings:
        chk.known(f, witness_fails(f["witness"]))


def replay(payload) -> int:
    for f in payload.get("failing_inputs", []):
        inp = f.get("input") or {}
        print("failing input:", f.get("what"))
        if "sched" in inp and "net" in inp:
            obs, _, _, unprepared = run_real_session(inp["n"], inp["net"], inp.get("explicit"), [tuple(l) for l in inp["sched"]])
            print("  sessions handed out (reader, object, auth):", [(t, o, x if isinstance(x, str) else x[1]) for t, o, x in obs[-1]["gots"]])
            print("  requests sent through (reader, object, auth):", [(t, o, x[1]) for t, o, x in obs[-1]["sends"]], "prepared without the configured Authorization:", unprepared)
        elif "sched" in inp:
            real = run_real_schedule(inp["n"], inp["iv"], [tuple(l) for l in inp["sched"]])
            print("  real fetch log:", real[-1]["fetches"], "violation:", sep_violation(real[-1]["fetches"], inp["iv"]))
        elif "cfg" in inp:
            cfg = inp["cfg"]
            w = {"cfg": {"headers": cfg.get("headers") or {}, "override": cfg.get("override"), "unique_inputs": cfg.get("unique_inputs"), "sanitize": cfg.get("sanitize", True),
                         "auth": ["u", "p"] if cfg.get("auth") else None}, "phase": cfg.get("phase")}
            print("  replay on the implementation ->", "FAILS" if witness_fails(w) else "passes")
    for b in payload.get("broken_obligations_or_correspondence", []):
        print("broken:", b.get("kind"), b.get("what"))
        inp = b.get("input")
        if isinstance(inp, dict) and "sched" in inp and "net" in inp:
            sched = [tuple(l) for l in inp["sched"]]
            obs, defaults, ex_snap, _ = run_real_session(inp["n"], inp["net"], inp.get("explicit"), sched)
            ex = "None" if ex_snap is None else f"(Some {c_sess(ex_snap)})"
            mv = core.coq_eval(IMPORTS, [f"s_trace_delta true {c_ncfg(inp['net'])} {citems(defaults)} {c_ssched(sched)} (s_init {cnat(inp['n'])} {ex})"])[0]
            for i, (r, m) in enumerate(zip(real_sdeltas(obs, ex_snap), [model_sdelta(v) for v in mv])):
                if _norm(r) != _norm(m):
                    print(f"  step {i} {sched[i]}:\n    implementation: {r}\n    model         : {m}")
                    break
        elif isinstance(inp, dict) and "sched" in inp:
            sched = [tuple(l) for l in inp["sched"]]
            real = run_real_schedule(inp["n"], inp["iv"], sched)
            mv = core.coq_eval(IMPORTS, [f"trace true {cN(inp['iv'])} {c_sched(sched)} (init {cnat(inp['n'])})"])[0]
            for i, (r, m) in enumerate(zip(real, [model_obs(v) for v in mv])):
                if _norm(r) != _norm(m):
                    print(f"  step {i} {sched[i]}:\n    implementation: {r}\n    model         : {m}")
                    break
        elif isinstance(inp, dict) and "expr" in inp:
            print("  model expression:", inp["expr"][:400])
            print("  implementation:", b.get("implementation"))
            print("  model         :", b.get("model"))
    return 0
