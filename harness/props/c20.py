"""C20 - generated GraphQL requests are valid for the schema and target their field.

Claim: PARTIAL PROOF.  Proved (Properties_C20.v): offered operations = root fields passing the filters (in order), the
selected/total counts against the offered operations (partial + 3 refuted regions), the arguments handed to
hypothesis-graphql target the operation's own root type and field, schema[type][field] lookups (full since the cache is
keyed by type.field, fe80b0ba; the field-name-only cache is kept as a refuted sentinel), the scalar table, prepare_body.  NOT proved: that the documents hypothesis-graphql generates
are valid - foreign code, covered ONLY by the oracle stage (graphql-core parse + validate over generated SDL).

Stages: proofs -> correspondence (real loaders / get_all_operations / statistic / FieldMap / graphql_cases with a
recording stub in place of hypothesis_graphql.queries|mutations / scalars / prepare_body  vs  the Gallina definitions
evaluated by vm_compute) -> listed findings replayed -> oracle search (real draws judged by graphql-core).
"""
from __future__ import annotations

import copy
import datetime
import ipaddress
import json
import re
import uuid

from harness import core
from harness.core import cN, cbool, clist, copt, cstr, ctuple, pstr

LEVEL = "proof"
IMPORTS = ["Common.Str", "C20.Model_C20"]

BUILTIN = ["Int", "Float", "String", "Boolean", "ID"]
EXTRA = ["Date", "Time", "DateTime", "IP", "IPv4", "IPv6", "BigInt", "Long", "UUID"]
UNKNOWN = ["Color", "Money"]
COLORS = ["RED", "GREEN", "BLUE"]
FIELD_NAMES = ["foo", "bar", "baz", "getUser", "items", "a", "b_c", "search", "node", "createUser", "x1"]
BASE_URL = "http://127.0.0.1/graphql"
BASE_PATH = "/graphql"


# ----------------------------------------------------------------------------------------
# generated SDL
# ----------------------------------------------------------------------------------------
def wrap(rng, base: str, allow_required: bool = True) -> str:
    k = rng.random()
    if k < 0.35:
        t = base
    elif k < 0.6:
        t = base + "!"
    elif k < 0.75:
        t = f"[{base}]"
    elif k < 0.87:
        t = f"[{base}!]!"
    elif k < 0.95:
        t = f"[{base}!]"
    else:
        t = f"[[{base}]]"
    if not allow_required:
        t = t.rstrip("!")
    return t


def default_for(rng, type_str: str, base: str, enums: dict):
    """An SDL default value (or None).  Only for simple shapes."""
    if rng.random() > 0.3:
        return None
    if type_str.startswith("["):
        return rng.choice(["[]", None]) if not type_str.endswith("!") or True else None
    nullable = not type_str.endswith("!")
    if nullable and rng.random() < 0.3:
        return "null"
    if base == "Int":
        return str(rng.choice([0, -1, 42]))
    if base == "String":
        return rng.choice(['""', '"dflt"'])
    if base == "Boolean":
        return rng.choice(["true", "false"])
    if base in enums:
        return rng.choice(enums[base])
    return None


def gen_sdl(rng) -> dict:
    """A valid SDL document plus the facts the oracle needs (which scalars need registered strategies)."""
    enums = {}
    for i in range(rng.choice([0, 1, 1, 2])):
        enums[f"E{i}"] = rng.sample(["A", "B", "C_1", "d", "LONG_VALUE"], rng.randint(1, 4))
    use_unknown = rng.random() < 0.35
    scalars_used: set[str] = set()

    def input_base(inputs_so_far, allow_unknown):
        k = rng.random()
        if k < 0.4:
            return rng.choice(BUILTIN)
        if k < 0.6:
            s = rng.choice(EXTRA)
            scalars_used.add(s)
            return s
        if k < 0.7 and enums:
            return rng.choice(list(enums))
        if k < 0.9 and inputs_so_far:
            return rng.choice(inputs_so_far)
        if use_unknown and allow_unknown:
            s = rng.choice(UNKNOWN)
            scalars_used.add(s)
            return s
        return rng.choice(BUILTIN)

    inputs: dict[str, list[str]] = {}
    n_inputs = rng.choice([0, 1, 2, 3])
    input_names = [f"In{i}" for i in range(n_inputs)]
    for i, name in enumerate(input_names):
        fields = []
        for j in range(rng.randint(1, 4)):
            earlier = input_names[:i]
            if rng.random() < 0.2:
                # recursive / forward reference: only through a nullable position
                base = rng.choice(input_names)
                t = rng.choice([base, f"[{base}]", f"[{base}!]"]) if base not in earlier else wrap(rng, base)
            else:
                base = input_base(earlier, True)
                t = wrap(rng, base)
            d = default_for(rng, t, base, enums)
            fields.append(f"  f{j}: {t}" + (f" = {d}" if d else ""))
        inputs[name] = fields

    # output types
    objects: dict[str, list[str]] = {}
    n_obj = rng.choice([0, 1, 2, 3])
    obj_names = [f"O{i}" for i in range(n_obj)]
    has_iface = n_obj >= 1 and rng.random() < 0.5
    has_union = n_obj >= 2 and rng.random() < 0.5

    def args(max_args=3, allow_unknown=True):
        out = []
        for j in range(rng.choice([0, 0, 1, 1, 2, max_args])):
            base = input_base(input_names, allow_unknown)
            t = wrap(rng, base)
            d = default_for(rng, t, base, enums)
            out.append(f"arg{j}: {t}" + (f" = {d}" if d else ""))
        return "(" + ", ".join(out) + ")" if out else ""

    def output_type():
        k = rng.random()
        if k < 0.35:
            base = rng.choice(BUILTIN + EXTRA[:2])
            if base in EXTRA:
                scalars_used.add(base)
        elif k < 0.45 and enums:
            base = rng.choice(list(enums))
        elif k < 0.8 and obj_names:
            base = rng.choice(obj_names)
        elif k < 0.9 and has_iface:
            base = "Node"
        elif has_union:
            base = "U"
        else:
            base = "String"
        return wrap(rng, base)

    for name in obj_names:
        fields = ["  id: ID!"]
        for j in range(rng.randint(0, 3)):
            dep = " @deprecated" if rng.random() < 0.1 else ""
            fields.append(f"  g{j}{args(2)}: {output_type()}{dep}")
        objects[name] = fields

    def root_fields(n):
        names = rng.sample(FIELD_NAMES, n)
        out = []
        for nm in names:
            dep = ' @deprecated(reason: "old")' if rng.random() < 0.1 else ""
            out.append((nm, f"  {nm}{args()}: {output_type()}{dep}"))
        return out

    custom_roots = rng.random() < 0.2
    qname, mname = ("RootQ", "Mut") if custom_roots else ("Query", "Mutation")
    q_fields = root_fields(rng.randint(1, 5))
    has_mut = rng.random() < 0.7
    m_fields = root_fields(rng.randint(1, 4)) if has_mut else []
    if has_mut and rng.random() < 0.4:
        # the same field name under both root types (the cache of schema[type][field] is keyed by field name)
        nm, line = rng.choice(q_fields)
        if nm not in [x for x, _ in m_fields]:
            m_fields.append((nm, f"  {nm}{args()}: {output_type()}"))

    parts = []
    if custom_roots:
        parts.append("schema { query: RootQ" + (" mutation: Mut" if has_mut else "") + " }")
    for s in sorted(scalars_used):
        parts.append(f"scalar {s}")
    for e, vals in enums.items():
        parts.append(f"enum {e} {{ " + " ".join(vals) + " }")
    for name, fields in inputs.items():
        parts.append(f"input {name} {{\n" + "\n".join(fields) + "\n}")
    if has_iface:
        parts.append("interface Node {\n  id: ID!\n}")
    for i, (name, fields) in enumerate(objects.items()):
        impl = " implements Node" if has_iface and (i == 0 or rng.random() < 0.5) else ""
        parts.append(f"type {name}{impl} {{\n" + "\n".join(fields) + "\n}")
    if has_union:
        parts.append("union U = " + " | ".join(rng.sample(obj_names, rng.randint(2, len(obj_names)))))
    parts.append(f"type {qname} {{\n" + "\n".join(l for _, l in q_fields) + "\n}")
    if has_mut:
        parts.append(f"type {mname} {{\n" + "\n".join(l for _, l in m_fields) + "\n}")
    sdl = "\n".join(parts) + "\n"
    return {"sdl": sdl, "unknown_scalars": sorted(s for s in scalars_used if s in UNKNOWN)}


def load_sdl(sdl: str):
    from schemathesis.graphql import loaders

    schema = loaders.from_file(sdl)
    schema.configure(base_url=BASE_URL)
    return schema


# ----------------------------------------------------------------------------------------
# fact extraction: real objects -> model inputs
# ----------------------------------------------------------------------------------------
def raw_facts(raw_schema: dict) -> dict:
    sch = raw_schema["__schema"]
    q = sch.get("queryType")
    m = sch.get("mutationType")
    types = []
    for t in sch.get("types", []):
        fields = t.get("fields")
        types.append([t["name"], t.get("kind") == "OBJECT", None if fields is None else [f["name"] for f in fields]])
    return {"q": None if q is None else q["name"], "m": None if m is None else m["name"], "types": types}


def slim(facts: dict) -> dict:
    """Drop the introspection meta types (never a root type in what we generate) to keep Coq terms small."""
    roots = {facts["q"], facts["m"]}
    return {**facts, "types": [t for t in facts["types"] if not t[0].startswith("__") or t[0] in roots]}


def c_raw(f: dict) -> str:
    ts = []
    for name, is_obj, fields in f["types"]:
        fl = copt(None if fields is None else clist([cstr(x) for x in fields], "str"), "(list str)")
        ts.append("{| rt_name := %s; rt_kind := %s; rt_fields := %s |}" % (cstr(name), "KObject" if is_obj else "KOther", fl))
    return "{| r_query := %s; r_mutation := %s; r_types := %s |}" % (
        copt(None if f["q"] is None else cstr(f["q"]), "str"),
        copt(None if f["m"] is None else cstr(f["m"]), "str"),
        clist(ts, "rtype"),
    )


def universe(f: dict) -> list[str]:
    """Every string a matcher can be asked about for this schema: the labels, the method, the path."""
    out = []
    for root in (f["q"], f["m"]):
        if root is None:
            continue
        for name, _, fields in f["types"]:
            if name == root and fields:
                out += [f"{root}.{x}" for x in fields]
    return sorted(set(out)) + ["POST", BASE_PATH]


FUNCS = {
    # kind: (python function, Coq function, looks at operation.definition?)
    "has_def": (lambda ctx: ctx.operation.definition is not None, "(fun c => match c_def c with Some _ => true | None => false end)"),
    "is_query": (
        lambda ctx: getattr(ctx.operation.definition, "is_query", False),
        "(fun c => match c_def c with Some o => root_eqb (o_root o) RQuery | None => false end)",
    ),
    "label_has_a": (lambda ctx: "a" in ctx.operation.label, "(fun c => mem 97%N (c_label c))"),
    "short_label": (lambda ctx: len(ctx.operation.label) <= 9, "(fun c => Nat.leb (length (c_label c)) 9)"),
}
for _k, (_f, _c) in FUNCS.items():
    _f.__name__ = _k
    _f._c20_kind = _k

ATTR = {"label": "ALabel", "method": "AMethod", "path": "APath", "tag": "ATag"}


def gen_filter_calls(rng, labels: list[str]) -> list[dict]:
    """include/exclude calls as JSON (replayable)."""
    calls = []
    lab = labels or ["Query.x"]
    for _ in range(rng.choice([0, 1, 1, 2, 2, 3, 4])):
        kw: dict = {}
        k = rng.random()
        if k < 0.3:
            kw["name"] = rng.choice(lab + ["Query.nope", "query.foo"])
        elif k < 0.45:
            kw["name"] = rng.sample(lab, rng.randint(1, min(3, len(lab)))) + rng.choice([[], ["Nope.x"]])
        elif k < 0.7:
            word = rng.choice(lab).split(".")
            kw["name_regex"] = rng.choice(
                ["^" + re.escape(word[0]) + r"\.", re.escape(word[1]) + "$", word[1][:2], r"\.(a|b|foo)", "^Mutation|^Mut", "(?i)QUERY", "[A-Z]\\w+\\.[a-m]"]
            )
        elif k < 0.78:
            kw["method"] = rng.choice(["post", "POST", "GET", ["get", "post"]])
        elif k < 0.83:
            kw["method_regex"] = rng.choice(["po", "^GET$", "T$"])
        elif k < 0.88:
            kw["path"] = rng.choice([BASE_PATH, "/", BASE_PATH + "/"])
        elif k < 0.91:
            kw["path_regex"] = rng.choice(["^/graph", "ql$", "^/$"])
        elif k < 0.94:
            kw[rng.choice(["tag", "tag_regex"])] = "x"
        else:
            kw["func"] = rng.choice(list(FUNCS))
        if rng.random() < 0.25 and "name" not in kw and "name_regex" not in kw:
            kw["name_regex"] = rng.choice(["o", "^Q", "a"])
        calls.append({"mode": rng.choice(["include", "include", "exclude"]), **kw})
    return calls


def apply_calls(schema, calls):
    from schemathesis.core.errors import IncorrectUsage

    for c in calls:
        kw = {k: v for k, v in c.items() if k not in ("mode", "func")}
        func = FUNCS[c["func"]][0] if "func" in c else None
        try:
            schema = getattr(schema, c["mode"])(func, **kw)
        except IncorrectUsage:
            pass  # duplicate filter: the call is refused (C07 territory), the filter set is unchanged
    return schema


def fs_facts(filter_set, uni: list[str]):
    """The REAL FilterSet object -> (Coq term, has_func, canonical description)."""
    import functools

    def one_matcher(m):
        f = m.func
        if isinstance(f, functools.partial):
            attr = ATTR[f.keywords["attribute"]]
            if f.func.__name__ == "by_value":
                return f"(MValue {attr} {cstr(f.keywords['expected'])})", False
            if f.func.__name__ == "by_value_list":
                return f"(MList {attr} {clist([cstr(x) for x in f.keywords['expected']], 'str')})", False
            if f.func.__name__ == "by_regex":
                rx = f.keywords["regex"]
                hits = [s for s in uni if rx.search(s)]
                return f"(MRegex {attr} (fun s => mem_str s {clist([cstr(x) for x in hits], 'str')}))", False
            raise ValueError(f"unknown matcher function {f.func.__name__}")
        return f"(MFunc {FUNCS[f._c20_kind][1]})", True

    has_func = False
    sides = []
    desc = []
    for side in (filter_set._includes, filter_set._excludes):
        fl = []
        for flt in sorted(side, key=lambda x: repr(x)):
            ms = []
            for m in flt.matchers:
                term, isf = one_matcher(m)
                has_func |= isf
                ms.append(term)
            fl.append(clist(ms, "matcher"))
            desc.append(repr(flt))
        sides.append(clist(fl, "flt"))
    return "{| fs_includes := %s; fs_excludes := %s |}" % (sides[0], sides[1]), has_func, desc


def impl_offered(schema):
    try:
        return [[r.ok().definition.root_type.name, r.ok().definition.type_.name, r.ok().definition.field_name, r.ok().label] for r in schema.get_all_operations()]
    except Exception as exc:  # noqa: BLE001
        return f"raises {type(exc).__name__}"


def impl_stat(schema):
    try:
        st = schema._measure_statistic().operations
        return [st.total, st.selected]
    except Exception as exc:  # noqa: BLE001
        return f"raises {type(exc).__name__}"


def model_ops(v):
    """Parsed build_res (list op) -> canonical."""
    if v == "BRaises":
        return "raises"
    assert v[0] == "BOk", v
    return [[{"RQuery": "QUERY", "RMutation": "MUTATION"}[o["o_root"]], pstr(o["o_type"]), pstr(o["o_field"]), pstr(o["o_type"]) + "." + pstr(o["o_field"])] for o in v[1]]


def kind_of(x):
    return "raises" if isinstance(x, str) and x.startswith("raises") else x


# ---- malformed introspection results (from_dict accepts any JSON) -----------------------------------
VARIANTS = ["dup_type", "dup_type_other_fields", "dup_field", "same_root", "missing_root", "scalar_root", "no_query", "null_fields", "dup_mutation_type_first"]


def make_variant(rng, raw_schema: dict, variant: str) -> dict | None:
    raw = copy.deepcopy(raw_schema)
    sch = raw["__schema"]
    types = sch["types"]
    qname = sch["queryType"]["name"]
    q = next(t for t in types if t["name"] == qname)
    mt = sch.get("mutationType")
    if variant == "dup_type":
        types.append(copy.deepcopy(q))
    elif variant == "dup_type_other_fields":
        d = copy.deepcopy(q)
        d["fields"] = d["fields"][: max(1, len(d["fields"]) - 1)][::-1]
        types.insert(rng.randrange(len(types) + 1), d)
    elif variant == "dup_mutation_type_first":
        if mt is None:
            return None
        m = next(t for t in types if t["name"] == mt["name"])
        d = copy.deepcopy(m)
        d["fields"] = d["fields"][:1]
        types.insert(0, d)
    elif variant == "dup_field":
        q["fields"].append(copy.deepcopy(rng.choice(q["fields"])))
    elif variant == "same_root":
        sch["mutationType"] = {"name": qname}
    elif variant == "missing_root":
        sch["mutationType"] = {"name": "Nope"}
    elif variant == "scalar_root":
        sch["mutationType"] = {"name": "String"}
    elif variant == "no_query":
        if mt is None:
            return None
        sch["queryType"] = None
    elif variant == "null_fields":
        if mt is None:
            return None
        next(t for t in types if t["name"] == mt["name"])["fields"] = None
    return raw


def load_raw(raw: dict):
    from schemathesis.graphql import loaders

    schema = loaders.from_dict(copy.deepcopy(raw))
    schema.configure(base_url=BASE_URL)
    return schema


AWARE_FUNCS = {"has_def", "is_query"}  # the custom functions that look at operation.definition


def count_region(wf: bool, aware_func: bool) -> str | None:
    """Region of the counting theorem a failing input lies in (None = inside the proved region: a violation)."""
    if not wf:
        return "malformed_introspection"
    if aware_func:
        return "func_filter_sees_dummy_operation"
    return None


# ----------------------------------------------------------------------------------------
# stage: offered operations and counts
# ----------------------------------------------------------------------------------------
def selection_case(rng, corpus_case=None) -> dict:
    if corpus_case is not None:
        return corpus_case
    g = gen_sdl(rng)
    schema = load_sdl(g["sdl"])
    facts = raw_facts(schema.raw_schema)
    labels = [x for x in universe(facts) if "." in x]
    case = {"sdl": g["sdl"], "variant": None, "calls": gen_filter_calls(rng, labels)}
    if rng.random() < 0.3:
        case["variant"] = rng.choice(VARIANTS)
        case["variant_seed"] = rng.randrange(10**6)
    return case


def build_selection(case: dict):
    """-> (schema with filters, facts) ; the schema is built the way a user would (from_file / from_dict)."""
    import random as _r

    base = load_sdl(case["sdl"])
    if case.get("variant"):
        raw = make_variant(_r.Random(case.get("variant_seed", 0)), base.raw_schema, case["variant"])
        if raw is None:
            return None, None
        schema = load_raw(raw)
    else:
        schema = base
    facts = slim(raw_facts(schema.raw_schema))
    return apply_calls(schema, case["calls"]), facts


def stage_selection(chk, cases):
    from schemathesis.filters import FilterSet

    exprs, metas = [], []
    for case in cases:
        schema, facts = build_selection(case)
        if schema is None:
            continue
        uni = universe(facts)
        fs_term, has_func, desc = fs_facts(schema.filter_set, uni)
        raw_term = c_raw(facts)
        exprs.append(
            f"(offered_raw {cstr(BASE_PATH)} {fs_term} {raw_term}, offered_raw {cstr(BASE_PATH)} {{| fs_includes := []; fs_excludes := [] |}} {raw_term}, "
            f"measure {cstr(BASE_PATH)} {fs_term} {raw_term}, wf_raw {raw_term}, fs_no_func {fs_term})"
        )
        metas.append((case, schema, has_func, desc))
    model = core.coq_eval(IMPORTS, exprs)
    n_fail = 0
    for (case, schema, has_func, desc), (m_off, m_all, m_meas, m_wf, m_nofunc) in zip(metas, model):
        i_off = impl_offered(schema)
        i_all = impl_offered(schema.clone(filter_set=FilterSet()))
        i_stat = impl_stat(schema)
        mo, ma = model_ops(m_off), model_ops(m_all)
        ms = "raises" if m_meas is None else list(core.popt(m_meas))
        canon = {**case, "filters": desc}
        nontrivial = isinstance(i_all, list) and isinstance(i_off, list) and 0 < len(i_off) < len(i_all)
        chk.seen(canon, nontrivial)
        chk.count("selection:" + (case.get("variant") or "sdl") + (":func" if has_func else ""))
        # (no early exit on a disagreement: the property itself is still checked on the implementation below)
        if kind_of(i_off) != mo:
            chk.disagree("get_all_operations vs Model_C20.offered_raw", canon, i_off, mo)
        if kind_of(i_all) != ma:
            chk.disagree("get_all_operations (no filters) vs Model_C20.offered_raw", canon, i_all, ma)
        if kind_of(i_stat) != ms:
            chk.disagree("_measure_statistic vs Model_C20.measure", canon, i_stat, ms)
        if m_nofunc != (not has_func):
            chk.disagree("fs_no_func vs extracted filter set", canon, has_func, m_nofunc)
        if case.get("variant") is None and not m_wf:
            chk.disagree("wf_raw is false on the introspection result of a valid SDL schema", canon, None, m_wf)
        # the property itself, on the implementation: counts = what is offered
        if isinstance(i_off, list) and isinstance(i_all, list):
            if i_stat != [len(i_all), len(i_off)]:
                n_fail += 1
                chk.fail(
                    f"selected/total counts {i_stat} differ from offered operations ({len(i_off)} of {len(i_all)})",
                    canon,
                    region=count_region(bool(m_wf), any(c.get("func") in AWARE_FUNCS for c in case["calls"])),
                )
            elif nontrivial:
                chk.sample({"sdl_lines": case["sdl"].count("\n"), "filters": desc, "offered": [o[3] for o in i_off], "statistic": i_stat})
            # offered = root fields passing the filters, by an independent reading of the filters (the labels the
            # real FilterSet accepts one by one)
            from types import SimpleNamespace

            want = [o for o, r in zip(i_all, schema.clone(filter_set=FilterSet()).get_all_operations()) if schema.filter_set.match(SimpleNamespace(operation=r.ok()))]
            if want != i_off:
                chk.fail("offered operations are not the root fields passing the filters", canon, {"want": want, "got": i_off})
    chk.stages["selection_and_counts"] = {"cases": len(metas), "count_mismatches_in_listed_regions": n_fail}


# ----------------------------------------------------------------------------------------
# stage: schema[type][field] lookups (cache keyed by field name)
# ----------------------------------------------------------------------------------------
def fields_of(facts: dict, root) -> list[str]:
    return [f for name, _, fl in facts["types"] if root is not None and name == root and fl for f in fl]


def gen_history(rng, facts: dict) -> list[list[str]]:
    keys = [k for k in (facts["q"], facts["m"]) if k] + ["Nope", "String"]
    fields = sorted({f for name, _, fl in facts["types"] if name in (facts["q"], facts["m"]) and fl for f in fl}) + ["missing"]
    h = []
    both = sorted(set(fields_of(facts, facts["q"])) & set(fields_of(facts, facts["m"])))
    if both and rng.random() < 0.7:
        # the same field name under Query and Mutation, in either order
        f = rng.choice(both)
        h += rng.choice([[[facts["q"], f], [facts["m"], f]], [[facts["m"], f], [facts["q"], f]]])
    for _ in range(rng.randint(1, 8)):
        if h and rng.random() < 0.4:
            # the same field under another key, or a repeated lookup
            h.append([rng.choice(keys[:2]), rng.choice(h)[1]])
        else:
            h.append([rng.choice(keys if rng.random() < 0.2 else keys[:2]), rng.choice(fields)])
    return h


def impl_lookups(schema, history):
    from schemathesis.core.errors import OperationNotFound

    out = []
    for key, field in history:
        try:
            op = schema[key][field]
            out.append(["LOp", op.definition.root_type.name, op.definition.type_.name, op.definition.field_name])
        except OperationNotFound:
            out.append("LNoType")
        except KeyError:
            out.append("LNoField")
    return out


def expected_lookups(sdl: str, history):
    """Oracle: what schema[key][field] means, read off the SDL with graphql-core alone."""
    import graphql

    gs = graphql.build_schema(sdl)
    out = []
    for key, field in history:
        hit = None
        for root, t in (("QUERY", gs.query_type), ("MUTATION", gs.mutation_type)):
            if t is not None and t.name == key:
                hit = (root, t)
                break
        if hit is None:
            out.append("LNoType")
        elif field in hit[1].fields:
            out.append(["LOp", hit[0], key, field])
        else:
            out.append("LNoField")
    return out


def model_lres(v):
    if isinstance(v, tuple) and v[0] == "LOp":
        o = v[1]
        return ["LOp", {"RQuery": "QUERY", "RMutation": "MUTATION"}[o["o_root"]], pstr(o["o_type"]), pstr(o["o_field"])]
    return v


def crosses_roots(history) -> bool:
    """Does the history use one field name under two different type keys?  (the histories the field-name-only cache
    of before fe80b0ba got wrong; no longer a region - the property holds for them and they are generated on purpose)"""
    return any(a[1] == b[1] and a[0] != b[0] for a in history for b in history)


def stage_lookups(chk, cases):
    exprs, metas = [], []
    for case in cases:
        schema = load_sdl(case["sdl"])
        facts = slim(raw_facts(schema.raw_schema))
        h = clist([ctuple(cstr(k), cstr(f)) for k, f in case["history"]], "(str * str)")
        exprs.append(
            f"match build_client {c_raw(facts)} with BOk c => Some (run_lookups c [] {h}, map (fun p => lookup_spec c (fst p) (snd p)) {h}, "
            f"run_lookups_fk c [] {h}, [root_names_dotless c; hist_consistent {h}]) | BRaises => None end"
        )
        metas.append((case, schema))
    model = core.coq_eval(IMPORTS, exprs)
    hits = sentinel_differs = 0
    for (case, schema), m in zip(metas, model):
        m = core.popt(m)
        got = impl_lookups(schema, case["history"])
        want = expected_lookups(case["sdl"], case["history"])
        chk.seen({"lookups": case}, len({tuple(x) for x in case["history"]}) > 1)
        chk.count("lookups:" + ("same_field_under_both_roots" if crosses_roots(case["history"]) else "consistent"))
        if m is None:
            chk.disagree("build_client raises on the introspection result of a valid SDL schema", case, "ok", None)
            continue
        m_run, m_spec, m_fk = [model_lres(x) for x in m[0]], [model_lres(x) for x in m[1]], [model_lres(x) for x in m[2]]
        m_dotless, m_cons = m[3]
        if m_fk != m_spec:
            sentinel_differs += 1
        if got != m_run:
            what = "schema[type][field] history vs Model_C20.run_lookups"
            if got == m_fk:
                what += " (the implementation behaves like the SENTINEL run_lookups_fk: cache keyed by the field name alone)"
            chk.disagree(what, case, got, m_run)
        if want != m_spec:
            chk.disagree("graphql-core reading of schema[type][field] vs Model_C20.lookup_spec", case, want, m_spec)
        if not m_dotless:
            chk.disagree("root_names_dotless is false on a schema graphql-core accepted", case, None, m_dotless)
        if m_cons != (not crosses_roots(case["history"])):
            chk.disagree("hist_consistent vs harness", case, crosses_roots(case["history"]), m_cons)
        if m_dotless and m_run != m_spec:
            chk.disagree("C20_lookup_returns_requested re-checked by evaluation", case, m_run, m_spec)
        # the property on the implementation (no region: C20-F1 is fixed)
        if got != want:
            hits += 1
            bad = next(i for i, (a, b) in enumerate(zip(got, want)) if a != b)
            chk.fail(
                f"after {case['history'][:bad]}, schema[{case['history'][bad][0]!r}][{case['history'][bad][1]!r}] returned {got[bad]} instead of {want[bad]}",
                case,
            )
    chk.stages["lookups"] = {
        "histories": len(metas),
        "wrong_operation_returned": hits,
        "histories_the_field_keyed_sentinel_gets_wrong": sentinel_differs,
    }


# ----------------------------------------------------------------------------------------
# stage: the call of the hypothesis-graphql factory, the scalar table, prepare_body
# ----------------------------------------------------------------------------------------
CODECS = ["utf-8", "ascii", "latin-1", None]


def gen_registrations(rng) -> list[dict]:
    out = []
    for _ in range(rng.choice([0, 0, 1, 2, 3, 5])):
        k = rng.random()
        name = rng.choice(UNKNOWN + ["Date", "Long", "UUID", "Int", "É"])
        if k < 0.1:
            out.append({"name": None, "ok_strategy": True})  # name is not a string
        elif k < 0.2:
            out.append({"name": name, "ok_strategy": False})  # not a strategy
        else:
            out.append({"name": name, "ok_strategy": True})
    return out


class ScalarTable:
    """Applies registrations to the real CUSTOM_SCALARS and restores it afterwards."""

    def __init__(self, regs):
        self.regs = regs
        self.ids: dict[int, int] = {}
        self.results = []

    def __enter__(self):
        from hypothesis import strategies as st

        import schemathesis
        from schemathesis.core.errors import IncorrectUsage
        from schemathesis.graphql import nodes
        from schemathesis.specs.graphql import scalars

        self.saved = dict(scalars.CUSTOM_SCALARS)
        scalars.CUSTOM_SCALARS.clear()
        for i, (name, strat) in enumerate(scalars.get_extra_scalar_strategies().items()):
            self.ids[id(strat)] = i + 1
        self.keep = []
        for i, r in enumerate(self.regs):
            self.results.append(self.register(r, 100 + i))
        return self

    def register(self, r, ident):
        """One schemathesis.graphql.scalar(...) call; the strategy object gets the number `ident`."""
        from hypothesis import strategies as st

        import schemathesis
        from schemathesis.core.errors import IncorrectUsage
        from schemathesis.graphql import nodes
        from schemathesis.specs.graphql import scalars

        if r["name"] in ("Money", "Int", "Long"):
            strat = st.integers(0, 5).map(nodes.Int)
        else:
            strat = st.sampled_from(COLORS).map(nodes.String)
        self.keep.append(strat)
        self.ids[id(strat)] = ident
        try:
            schemathesis.graphql.scalar(r["name"] if r["name"] is not None else 123, strat if r["ok_strategy"] else "not a strategy")
            return [[k, self.ids.get(id(v), -1)] for k, v in scalars.CUSTOM_SCALARS.items()]
        except IncorrectUsage:
            return "IncorrectUsage"

    def __exit__(self, *a):
        from schemathesis.specs.graphql import scalars

        scalars.CUSTOM_SCALARS.clear()
        scalars.CUSTOM_SCALARS.update(self.saved)


def c_table(t) -> str:
    return clist([ctuple(cstr(k), cN(v)) for k, v in t], "(str * N)")


def model_registrations(regs) -> list[str]:
    """Coq expressions: the table after each scalar() call (None = IncorrectUsage, table unchanged)."""
    exprs = []
    cur = "(@nil (str * N))"
    for i, r in enumerate(regs):
        call = f"register {cbool(r['name'] is not None)} {cbool(r['ok_strategy'])} {cstr(r['name'] or '')} {cN(100 + i)} {cur}"
        exprs.append(f"match {call} with Registered t => Some t | IncorrectUsage => None end")
        cur = f"match {call} with Registered t => t | IncorrectUsage => {cur} end"
    return exprs, cur


class Recorder:
    """Stands in for hypothesis_graphql.strategies.queries / mutations and records how it is called."""

    def __init__(self):
        self.calls = []

    def __enter__(self):
        import graphql
        from hypothesis import strategies as st

        from schemathesis.specs.graphql import schemas as impl

        self.mod = impl.gql_st
        self.saved = (self.mod.queries, self.mod.mutations)
        self.ast = graphql.parse("{ recorded }")

        def make(kind):
            def stub(schema, **kwargs):
                self.calls.append({"factory": kind, "schema": schema, **kwargs})
                return st.just(self.ast)

            return stub

        self.mod.queries = make("Queries")
        self.mod.mutations = make("Mutations")
        return self

    def __exit__(self, *a):
        self.mod.queries, self.mod.mutations = self.saved


def draw_one(strategy):
    import hypothesis
    from hypothesis import HealthCheck, Phase

    return hypothesis.find(
        strategy,
        lambda _: True,
        settings=hypothesis.settings(database=None, max_examples=5, deadline=None, suppress_health_check=list(HealthCheck), phases=[Phase.generate]),
    )


def gen_config(rng) -> dict:
    return {"allow_x00": rng.random() < 0.5, "allow_null": rng.random() < 0.5, "codec": rng.choice(CODECS)}


def configure_generation(schema, cfg):
    from schemathesis.generation import GenerationConfig

    schema.configure(generation=GenerationConfig(allow_x00=cfg["allow_x00"], graphql_allow_null=cfg["allow_null"], codec=cfg["codec"]))
    return schema


def stage_strategy_call(chk, cases):
    import graphql
    from hypothesis_graphql._strategies import validation

    from schemathesis.specs.graphql import schemas as impl

    exprs, metas = [], []
    reg_exprs, reg_metas = [], []
    for case in cases:
        schema = configure_generation(load_sdl(case["sdl"]), case["config"])
        facts = slim(raw_facts(schema.raw_schema))
        ops = [r.ok() for r in schema.get_all_operations()]
        if case.get("via_lookup"):
            # the operation a user gets from schema[type][field]
            ops = [schema[o.definition.type_.name][o.definition.field_name] for o in ops]
        pick = [ops[i % len(ops)] for i in case["op_indexes"]] if ops else []
        with ScalarTable(case["registrations"]) as table, Recorder() as rec:
            per_call, final = model_registrations(case["registrations"])
            for e, got in zip(per_call, table.results):
                reg_exprs.append(e)
                reg_metas.append((case, got))
            extra = [[k, table.ids[id(v)]] for k, v in impl.get_extra_scalar_strategies().items()]
            for op in pick:
                rec.calls.clear()
                try:
                    drawn = draw_one(op.as_strategy())
                except Exception as exc:  # noqa: BLE001
                    chk.disagree("drawing from operation.as_strategy() with the recording stub raised", case, f"{type(exc).__name__}: {exc}", None)
                    continue
                if len(rec.calls) < 1:
                    chk.disagree("strategy factory was not called", case, None, None)
                    continue
                call = rec.calls[-1]
                d = op.definition
                root_type = schema.client_schema.query_type if call["factory"] == "Queries" else schema.client_schema.mutation_type
                # a keyword that is not passed is recorded as absent (hypothesis-graphql then uses its default)
                fields = None if call.get("fields") is None else list(call["fields"])
                try:
                    if fields is not None:
                        validation.validate_fields(tuple(fields), list(root_type.fields))
                    accepts = root_type is not None
                except Exception:  # noqa: BLE001
                    accepts = False
                got = {
                    "factory": call["factory"],
                    "fields": fields,
                    "scalars": [[k, table.ids.get(id(v), -1)] for k, v in (call.get("custom_scalars") or {}).items()],
                    "allow_x00": call.get("allow_x00", "absent"),
                    "allow_null": call.get("allow_null", "absent"),
                    "codec": call.get("codec", "absent"),
                    "accepts": accepts,
                    "target": None if root_type is None else [root_type.name, fields],
                }
                side = {
                    "schema_is_client_schema": call["schema"] is schema.client_schema,
                    "print_ast_is_identity": "print_ast" in call and call["print_ast"](rec.ast) is rec.ast,
                    "body_is_printed_document": drawn.body == graphql.print_ast(rec.ast),
                    "case_operation_is_operation": drawn.operation is op,
                    "media_type": drawn.media_type,
                }
                op_term = "{| o_root := %s; o_type := %s; o_field := %s |}" % (
                    {"QUERY": "RQuery", "MUTATION": "RMutation"}[d.root_type.name],
                    cstr(d.type_.name),
                    cstr(d.field_name),
                )
                cfg = case["config"]
                cfg_term = "{| g_allow_x00 := %s; g_allow_null := %s; g_codec := %s |}" % (
                    cbool(cfg["allow_x00"]),
                    cbool(cfg["allow_null"]),
                    copt(None if cfg["codec"] is None else cstr(cfg["codec"]), "str"),
                )
                merged = f"(tbl_merge {c_table(extra)} {final})"
                call_term = f"(strategy_call {cfg_term} (map fst {merged}) {op_term})"
                exprs.append(
                    f"match build_client {c_raw(facts)} with BOk c => Some ({call_term}, hg_accepts c {call_term}, hg_target c {call_term}, {merged}, mem_op {op_term} (root_fields c)) | BRaises => None end"
                )
                metas.append((case, op.label, got, side))
    # helper evaluated in Coq: membership of the operation in root_fields (hypothesis of C20_strategy_targets_field)
    exprs = [e.replace("mem_op ", "(fun o l => existsb (op_eqb o) l) ") for e in exprs]
    model = core.coq_eval(IMPORTS, exprs)
    for (case, label, got, side), m in zip(metas, model):
        canon = {**case, "operation": label}
        chk.seen({"strategy_call": canon}, True)
        chk.count("strategy_call:" + got["factory"])
        m = core.popt(m)
        if m is None:
            chk.disagree("build_client raises on a valid SDL schema", canon, "ok", None)
            continue
        rec_, m_acc, m_tgt, m_tbl, m_in = m
        mod = {
            "factory": rec_["sc_factory"],
            "fields": [pstr(x) for x in rec_["sc_fields"]],
            "scalars": [[pstr(k), v] for k, v in m_tbl],
            "allow_x00": rec_["sc_allow_x00"],
            "allow_null": rec_["sc_allow_null"],
            "codec": None if rec_["sc_codec"] is None else pstr(core.popt(rec_["sc_codec"])),
            "accepts": m_acc,
            "target": None if m_tgt is None else [pstr(core.popt(m_tgt)[0]), [pstr(x) for x in core.popt(m_tgt)[1]]],
        }
        if [pstr(x) for x in rec_["sc_scalars"]] != [k for k, _ in mod["scalars"]]:
            chk.disagree("sc_scalars vs keys of the merged table", canon, None, rec_["sc_scalars"])
        if got != mod:
            chk.disagree("arguments of hypothesis_graphql.queries/mutations vs Model_C20.strategy_call", canon, got, mod)
            continue
        if not m_in:
            chk.disagree("operation is not among root_fields of the model", canon, label, None)
        bad = {k: v for k, v in side.items() if v is not True and not (k == "media_type" and v == "application/json")}
        if bad:
            chk.fail("graphql_cases does not pass the schema / print the document / keep the operation", canon, bad)
        # the property on the implementation: the generator is restricted to the operation's own root field
        d_root, d_field = label.split(".", 1)
        if not (got["accepts"] and got["target"] == [d_root, [d_field]]):
            chk.fail(f"the strategy for {label} is restricted to {got['target']}", canon)
        else:
            chk.sample({"operation": label, "factory_call": {k: got[k] for k in ("factory", "fields", "allow_x00", "allow_null", "codec")}, "custom_scalars": [k for k, _ in got["scalars"]]})
    rm = core.coq_eval(IMPORTS, reg_exprs)
    for (case, got), m in zip(reg_metas, rm):
        mod = "IncorrectUsage" if m is None else [[pstr(k), v] for k, v in core.popt(m)]
        if got != mod:
            chk.disagree("schemathesis.graphql.scalar vs Model_C20.register", case["registrations"], got, mod)
    chk.stages["strategy_call_and_scalar_table"] = {"recorded_calls": len(metas), "scalar_registrations": len(reg_metas)}


def c_cfg(cfg) -> str:
    return "{| g_allow_x00 := %s; g_allow_null := %s; g_codec := %s |}" % (
        cbool(cfg["allow_x00"]),
        cbool(cfg["allow_null"]),
        copt(None if cfg["codec"] is None else cstr(cfg["codec"]), "str"),
    )


def generation_config_of(cfg):
    from schemathesis.generation import GenerationConfig

    return GenerationConfig(allow_x00=cfg["allow_x00"], graphql_allow_null=cfg["allow_null"], codec=cfg["codec"])


def gen_events(rng) -> list[dict]:
    """An access history on one operation object: draws interleaved with reconfigurations and scalar registrations."""
    ev = [{"draw": None}] if rng.random() < 0.7 else []
    for _ in range(rng.randint(2, 6)):
        k = rng.random()
        if k < 0.3:
            ev.append({"configure": gen_config(rng)})
        elif k < 0.5:
            r = gen_registrations(rng)
            if r:
                ev.append({"register": r[0]})
        else:
            ev.append({"draw": gen_config(rng) if rng.random() < 0.35 else None})
    ev.append({"draw": None})
    return ev


def stage_call_histories(chk, cases):
    """The recording stub across SEVERAL draws of ONE operation object (schema[type][field], kept by the caller):
    every draw must call the factory, with the configuration and scalar table of that moment."""
    from schemathesis.specs.graphql import schemas as impl

    exprs, metas = [], []
    for case in cases:
        schema = configure_generation(load_sdl(case["sdl"]), case["config"])
        ops = [r.ok() for r in schema.get_all_operations()]
        first = ops[case["op_index"] % len(ops)]
        tname, fname = first.definition.type_.name, first.definition.field_name
        op = schema[tname][fname]
        d = op.definition
        got = []
        with ScalarTable([]) as table, Recorder() as rec:
            extra = [[k, table.ids[id(v)]] for k, v in impl.get_extra_scalar_strategies().items()]
            terms = []
            for i, e in enumerate(case["events"]):
                if "configure" in e:
                    schema.configure(generation=generation_config_of(e["configure"]))
                    terms.append(f"EConfigure {c_cfg(e['configure'])}")
                elif "register" in e:
                    r = e["register"]
                    table.register(r, 100 + i)
                    terms.append(f"ERegister {cbool(r['name'] is not None)} {cbool(r['ok_strategy'])} {cstr(r['name'] or '')} {cN(100 + i)}")
                else:
                    pc = e["draw"]
                    same = schema[tname][fname]
                    rec.calls.clear()
                    try:
                        draw_one(same.as_strategy(generation_config=generation_config_of(pc)) if pc is not None else same.as_strategy())
                    except Exception as exc:  # noqa: BLE001
                        got.append(f"raises {type(exc).__name__}")
                        terms.append(f"EDraw {copt(None if pc is None else c_cfg(pc), 'gen_config')}")
                        continue
                    terms.append(f"EDraw {copt(None if pc is None else c_cfg(pc), 'gen_config')}")
                    if same is not op:
                        got.append("another operation object")
                    elif not rec.calls:
                        got.append("factory not called")
                    else:
                        call = rec.calls[-1]
                        got.append(
                            {
                                "factory": call["factory"],
                                "fields": None if call.get("fields") is None else list(call["fields"]),
                                "scalars": [[k, table.ids.get(id(v), -1)] for k, v in (call.get("custom_scalars") or {}).items()],
                                "allow_x00": call.get("allow_x00", "absent"),
                                "allow_null": call.get("allow_null", "absent"),
                                "codec": call.get("codec", "absent"),
                            }
                        )
        op_term = "{| o_root := %s; o_type := %s; o_field := %s |}" % (
            {"QUERY": "RQuery", "MUTATION": "RMutation"}[d.root_type.name],
            cstr(d.type_.name),
            cstr(d.field_name),
        )
        st0 = "{| st_cfg := %s; st_reg := (@nil (str * N)) |}" % c_cfg(case["config"])
        exprs.append(f"run_events {c_table(extra)} {op_term} {st0} {clist(terms, 'event')}")
        metas.append((case, f"{tname}.{fname}", got))
    model = core.coq_eval(IMPORTS, exprs)
    bad = 0
    for (case, label, got), m in zip(metas, model):
        mod = []
        for rec_, tbl in m:
            mod.append(
                {
                    "factory": rec_["sc_factory"],
                    "fields": [pstr(x) for x in rec_["sc_fields"]],
                    "scalars": [[pstr(k), v] for k, v in tbl],
                    "allow_x00": rec_["sc_allow_x00"],
                    "allow_null": rec_["sc_allow_null"],
                    "codec": None if rec_["sc_codec"] is None else pstr(core.popt(rec_["sc_codec"])),
                }
            )
        canon = {**case, "operation": label}
        chk.seen({"call_history": canon}, len(got) > 1)
        chk.count(f"call_history:draws={len(got)}")
        if got != mod:
            bad += 1
            i = next((j for j, (a, b) in enumerate(zip(got, mod)) if a != b), min(len(got), len(mod)))
            chk.disagree(
                f"factory calls over an access history of one operation object vs Model_C20.run_events (draw #{i})",
                canon,
                got[i] if i < len(got) else None,
                mod[i] if i < len(mod) else None,
            )
    chk.stages["strategy_call_histories"] = {"histories": len(metas), "draws": sum(len(g) for _, _, g in metas), "disagreements": bad}


def stage_scalar_constants(chk):
    """The extra scalar table itself: names, node kinds, the Long range."""
    import graphql

    from schemathesis.specs.graphql import scalars

    table = scalars.get_extra_scalar_strategies()
    m_names, m_kinds, m_long = core.coq_eval(
        IMPORTS,
        [
            "(extra_scalar_names, @nil (option node_kind), @nil Z)",
            "(@nil str, map extra_scalar_kind extra_scalar_names, @nil Z)",
            "(@nil str, @nil (option node_kind), [long_min; long_max])",
        ],
    )
    names = [pstr(x) for x in m_names[0]]
    if list(table) != names:
        chk.disagree("get_extra_scalar_strategies keys vs extra_scalar_names", None, list(table), names)
    kinds = []
    for name, strat in table.items():
        node = draw_one(strat)
        kinds.append({graphql.StringValueNode: "NString", graphql.IntValueNode: "NInt"}.get(type(node), type(node).__name__))
    mk = [core.popt(k) for k in m_kinds[1]]
    if kinds != mk:
        chk.disagree("node kinds of the extra scalars vs extra_scalar_kind", names, kinds, mk)
    r = repr(table["Long"])
    mm = re.search(r"integers\(min_value=(-?[\d_]+), max_value=(-?[\d_]+)\)", r)
    bounds = [int(mm.group(1).replace("_", "")), int(mm.group(2).replace("_", ""))] if mm else r
    if bounds != list(m_long[2]):
        chk.disagree("bounds of the Long strategy vs long_min/long_max", r, bounds, list(m_long[2]))
    chk.seen({"scalar_constants": names}, True)
    chk.stages["scalar_constants"] = {"names": names, "long_bounds": bounds}


def stage_prepare_body(chk, n):
    from schemathesis.core import NOT_SET
    from schemathesis.transport.prepare import prepare_body

    rng = chk.rng
    schema = load_sdl("type Query { a(x: String): Int }")
    op = schema["Query"]["a"]
    bodies, exprs = [], []
    for _ in range(n):
        k = rng.random()
        text = "".join(rng.choice('{}()": \n\\aé中\x00q') for _ in range(rng.randint(0, 12)))
        if k < 0.15:
            b = ("notset", None)
            exprs.append("prepare_body BNotSet")
        elif k < 0.35:
            b = ("bytes", text.encode("utf-8"))
            exprs.append(f"prepare_body (BBytes {cstr(b[1])})")
        else:
            b = ("text", text)
            exprs.append(f"prepare_body (BText {cstr(text)})")
        bodies.append(b)
    model = core.coq_eval(IMPORTS, exprs)
    for (kind, val), m in zip(bodies, model):
        case = op.Case(body=NOT_SET if kind == "notset" else val)
        got = prepare_body(case)
        if kind == "notset":
            g = "PNotSet" if got is NOT_SET else repr(got)
            mm = m
        elif kind == "bytes":
            g = ["PBytes", list(got)] if isinstance(got, bytes) else repr(got)
            mm = [m[0], list(m[1])]
        else:
            g = ["PDict", [[k, v] for k, v in got.items()]] if isinstance(got, dict) else repr(got)
            mm = [m[0], [[pstr(k), pstr(v)] for k, v in m[1]]]
            kw = case.as_transport_kwargs(base_url=BASE_URL)
            if kw.get("json") != {"query": val} or kw.get("method") != "POST" or kw["headers"].get("Content-Type") != "application/json":
                chk.fail("transport kwargs of a GraphQL case are not POST application/json {query: document}", {"body": val}, {k: str(v)[:80] for k, v in kw.items()})
        chk.seen({"prepare_body": [kind, str(val)]}, kind == "text")
        if g != mm:
            chk.disagree("prepare_body vs Model_C20.prepare_body", [kind, str(val)], g, mm)
    chk.stages["prepare_body"] = {"cases": n}


# ----------------------------------------------------------------------------------------
# stage: oracle search - real draws judged by graphql-core (TESTING; the only cover of document validity)
# ----------------------------------------------------------------------------------------
def scalar_literal_ok(name: str, node, registered: dict) -> bool:
    """Is this literal acceptable for the (custom) scalar?  Only as strict as the scalar names promise."""
    import graphql

    def s():
        return node.value if isinstance(node, graphql.StringValueNode) else None

    try:
        if name in registered:
            return registered[name](node)
        if name == "Long":
            return isinstance(node, graphql.IntValueNode) and -(2**63) <= int(node.value) <= 2**63 - 1
        if name == "BigInt":
            return isinstance(node, graphql.IntValueNode) and int(node.value) is not None
        if name == "Date":
            return s() is not None and datetime.date.fromisoformat(s()) is not None
        if name == "Time":
            return s() is not None and s().endswith("Z") and datetime.time.fromisoformat(s()[:-1]) is not None
        if name == "DateTime":
            d, t = s().split("T")
            return t.endswith("Z") and datetime.date.fromisoformat(d) is not None and datetime.time.fromisoformat(t[:-1]) is not None
        if name == "IP":
            return ipaddress.ip_address(s()) is not None
        if name == "IPv4":
            return isinstance(ipaddress.ip_address(s()), ipaddress.IPv4Address)
        if name == "IPv6":
            return isinstance(ipaddress.ip_address(s()), ipaddress.IPv6Address)
        if name == "UUID":
            return uuid.UUID(s()) is not None
    except Exception:  # noqa: BLE001
        return False
    return True


NULL_UNSUPPORTED = "null literal for an optional argument of a custom scalar without a strategy although graphql_allow_null is off"


def judge_document(gs, body, root: str, field: str, cfg: dict, registered: dict) -> list[str]:
    """Independent oracle (graphql-core only).  Returns the list of complaints."""
    import graphql
    from graphql.language import visitor as gv

    if not isinstance(body, str):
        return [f"body is {type(body).__name__}, not a document"]
    try:
        doc = graphql.parse(body)
    except graphql.GraphQLError as exc:
        return [f"syntax error: {exc.message}"]
    out = []
    errors = graphql.validate(gs, doc)
    if errors:
        out.append("validation: " + "; ".join(e.message for e in errors))
    ops = [d for d in doc.definitions if isinstance(d, graphql.OperationDefinitionNode)]
    if len(ops) != 1 or len(doc.definitions) != len(ops) + len([d for d in doc.definitions if isinstance(d, graphql.FragmentDefinitionNode)]):
        out.append(f"{len(ops)} operation definitions")
    else:
        op = ops[0]
        want = {"QUERY": graphql.OperationType.QUERY, "MUTATION": graphql.OperationType.MUTATION}[root]
        if op.operation != want:
            out.append(f"operation type {op.operation.value} for a {root} field")
        names = []

        def top(sel_set):
            for sel in sel_set.selections:
                if isinstance(sel, graphql.FieldNode):
                    names.append(sel.name.value)
                elif isinstance(sel, graphql.InlineFragmentNode):
                    top(sel.selection_set)
                else:
                    names.append("...fragment")

        top(op.selection_set)
        if not names or any(n != field for n in names):
            out.append(f"top-level selection {names} instead of [{field}]")
    # literals: nulls, NUL characters, codec, custom scalar shapes
    ti = graphql.TypeInfo(gs)
    problems = []

    class V(gv.Visitor):
        def enter(self, node, *_):
            if isinstance(node, graphql.NullValueNode) and not cfg["allow_null"]:
                t = ti.get_input_type()
                named = graphql.get_named_type(t) if t is not None else None
                if isinstance(named, graphql.GraphQLScalarType) and named.name not in BUILTIN + EXTRA and named.name not in registered:
                    problems.append(NULL_UNSUPPORTED)
                else:
                    problems.append("null literal although graphql_allow_null is off")
            if isinstance(node, graphql.StringValueNode):
                if not cfg["allow_x00"] and "\x00" in node.value:
                    problems.append("NUL character although allow_x00 is off")
                if cfg["codec"]:
                    try:
                        node.value.encode(cfg["codec"])
                    except UnicodeEncodeError:
                        problems.append(f"string not encodable with codec {cfg['codec']}")
            if isinstance(node, (graphql.IntValueNode, graphql.StringValueNode, graphql.FloatValueNode, graphql.BooleanValueNode, graphql.EnumValueNode)):
                t = ti.get_input_type()
                if t is not None:
                    named = graphql.get_named_type(t)
                    if isinstance(named, graphql.GraphQLScalarType) and named.name not in BUILTIN:
                        if not scalar_literal_ok(named.name, node, registered):
                            problems.append(f"literal {graphql.print_ast(node)[:40]} is not a {named.name}")

    gv.visit(doc, graphql.TypeInfoVisitor(ti, V()))
    return out + sorted(set(problems))


def recursive_inputs(gs) -> bool:
    """Does some input object type reach itself?"""
    import graphql

    inputs = {n: t for n, t in gs.type_map.items() if isinstance(t, graphql.GraphQLInputObjectType)}
    edges = {n: {graphql.get_named_type(f.type).name for f in t.fields.values()} & set(inputs) for n, t in inputs.items()}
    for start in inputs:
        seen, todo = set(), list(edges[start])
        while todo:
            x = todo.pop()
            if x == start:
                return True
            if x not in seen:
                seen.add(x)
                todo += list(edges[x])
    return False


def oracle_registered(unknown: list[str]):
    """Strategies + literal checks for the custom scalars of the schema that schemathesis has no strategy for."""
    import graphql
    from hypothesis import strategies as st

    from schemathesis.graphql import nodes

    strategies, checks = {}, {}
    if "Color" in unknown:
        strategies["Color"] = st.sampled_from(COLORS).map(nodes.String)
        checks["Color"] = lambda n: isinstance(n, graphql.StringValueNode) and n.value in COLORS
    if "Money" in unknown:
        strategies["Money"] = st.integers(0, 10**6).map(nodes.Int)
        checks["Money"] = lambda n: isinstance(n, graphql.IntValueNode) and 0 <= int(n.value) <= 10**6
    return strategies, checks


def oracle_case(rng) -> dict:
    g = gen_sdl(rng)
    return {
        "sdl": g["sdl"],
        "unknown": g["unknown_scalars"],
        "register": rng.random() < 0.7,
        "override_date": rng.random() < 0.15,
        "config": gen_config(rng),
        "seed": rng.randrange(2**31),
        "calls": [],
    }


def run_oracle_case(case: dict, draws: int, max_ops: int, collect=None) -> list[dict]:
    """Draws real cases for (up to max_ops of) the offered operations; returns the failures."""
    import graphql
    import hypothesis
    from hypothesis import HealthCheck, Phase
    from hypothesis.errors import InvalidArgument

    import schemathesis
    from schemathesis.graphql import nodes
    from schemathesis.specs.graphql import scalars

    gs = graphql.build_schema(case["sdl"])
    schema = apply_calls(configure_generation(load_sdl(case["sdl"]), case["config"]), case.get("calls", []))
    strategies, checks = oracle_registered(case["unknown"]) if case["register"] else ({}, {})
    if case.get("override_date"):
        strategies["Date"] = hypothesis.strategies.just(nodes.String("D-day"))
        checks["Date"] = lambda n: isinstance(n, graphql.StringValueNode) and n.value == "D-day"
    saved = dict(scalars.CUSTOM_SCALARS)
    failures = []
    try:
        scalars.CUSTOM_SCALARS.clear()
        for name, strat in strategies.items():
            schemathesis.graphql.scalar(name, strat)
        ops = [r.ok() for r in schema.get_all_operations()]
        import random as _r

        local = _r.Random(case["seed"])
        local.shuffle(ops)
        for op in ops[:max_ops]:
            d = op.definition
            bodies = []

            @hypothesis.seed(local.randrange(2**31))
            @hypothesis.settings(database=None, max_examples=draws, deadline=None, suppress_health_check=list(HealthCheck), phases=[Phase.generate])
            @hypothesis.given(op.as_strategy())
            def test(c):
                bodies.append(c)

            try:
                test()
            except InvalidArgument as exc:
                unsupported = [u for u in case["unknown"] if u not in strategies]
                if unsupported and "is not supported" in str(exc):
                    if collect is not None:
                        collect("oracle:no_strategy_for_custom_scalar")
                    continue
                failures.append({"operation": op.label, "complaints": [f"strategy raised InvalidArgument: {exc}"]})
                continue
            except hypothesis.errors.Unsatisfiable as exc:
                # no test case at all is not an invalid test case: hypothesis-graphql cannot terminate a recursive input object
                # when nulls are disabled (every optional self-reference becomes mandatory once selected).  Anywhere else it is a failure.
                if not case["config"]["allow_null"] and recursive_inputs(gs):
                    if collect is not None:
                        collect("oracle:unsatisfiable_recursive_input_without_null")
                    continue
                failures.append({"operation": op.label, "complaints": [f"strategy raised Unsatisfiable: {str(exc)[:120]}"]})
                continue
            except Exception as exc:  # noqa: BLE001
                failures.append({"operation": op.label, "complaints": [f"strategy raised {type(exc).__name__}: {str(exc)[:200]}"]})
                continue
            for c in bodies:
                complaints = judge_document(gs, c.body, d.root_type.name, d.field_name, case["config"], checks)
                if c.operation is not op:
                    complaints.append("case.operation is another operation")
                kw = c.as_transport_kwargs(base_url=BASE_URL)
                if kw.get("json") != {"query": c.body}:
                    complaints.append("request payload is not {query: document}")
                if collect is not None:
                    collect("oracle:draws")
                    if "(" in c.body:
                        collect("oracle:draws_with_arguments")
                    if "null" in c.body:
                        collect("oracle:draws_with_null")
                if complaints:
                    failures.append({"operation": op.label, "document": c.body, "complaints": complaints})
                    break
    finally:
        scalars.CUSTOM_SCALARS.clear()
        scalars.CUSTOM_SCALARS.update(saved)
    return failures


# ---- oracle over HISTORIES on one schema object / one operation object -------------------------------
PALETTES = [COLORS, ["CYAN", "MAGENTA"]]
MONEY_RANGES = [(0, 10**6), (-9, -1)]
DATE_WORDS = ["D-day", "E-day"]


def scalar_variant(name: str, k: int):
    """(strategy, literal check) number k for a scalar a user may (re)register between two uses of an operation."""
    import graphql
    from hypothesis import strategies as st

    from schemathesis.graphql import nodes

    if name == "Color":
        pal = PALETTES[k]
        return st.sampled_from(pal).map(nodes.String), (lambda n: isinstance(n, graphql.StringValueNode) and n.value in pal)
    if name == "Money":
        lo, hi = MONEY_RANGES[k]
        return st.integers(lo, hi).map(nodes.Int), (lambda n: isinstance(n, graphql.IntValueNode) and lo <= int(n.value) <= hi)
    word = DATE_WORDS[k]
    return st.just(nodes.String(word)), (lambda n: isinstance(n, graphql.StringValueNode) and n.value == word)


def oracle_history_case(rng) -> dict:
    g = gen_sdl(rng)
    loose = {"allow_x00": True, "allow_null": True, "codec": "utf-8"}
    steps = []
    for i in range(rng.choice([2, 2, 3])):
        step: dict = {"configure": None, "percall": None, "register": {}, "seed": rng.randrange(2**31)}
        if i > 0 or rng.random() < 0.3:
            cfg = gen_config(rng)
            if i > 0 and rng.random() < 0.5:
                cfg = {"allow_x00": False, "allow_null": False, "codec": rng.choice(["ascii", "latin-1"])}
            step[rng.choice(["configure", "percall"])] = cfg
        for name in g["unknown_scalars"] + (["Date"] if "scalar Date" in g["sdl"] and rng.random() < 0.4 else []):
            if rng.random() < (0.6 if i == 0 else 0.4):
                step["register"][name] = rng.randrange(2)
        steps.append(step)
    return {"sdl": g["sdl"], "unknown": g["unknown_scalars"], "init_config": loose if rng.random() < 0.6 else gen_config(rng), "steps": steps, "op_seed": rng.randrange(2**31)}


def run_oracle_history(case: dict, draws: int, max_ops: int = 2, collect=None) -> list[dict]:
    """One schema object; operations taken from schema[type][field] and KEPT; every step may change the generation
    config (schema.configure / per-call) and (re)register scalars, then draws from the SAME operation object.  Each batch
    is judged against the configuration and the scalar strategies in effect for THAT batch."""
    import random as _r

    import graphql
    import hypothesis
    from hypothesis import HealthCheck, Phase
    from hypothesis.errors import InvalidArgument

    import schemathesis
    from schemathesis.specs.graphql import scalars

    gs = graphql.build_schema(case["sdl"])
    schema = configure_generation(load_sdl(case["sdl"]), case["init_config"])
    local = _r.Random(case["op_seed"])
    cands = [r.ok() for r in schema.get_all_operations()]
    with_args = [o for o in cands if o.definition.raw.args]
    local.shuffle(with_args)
    local.shuffle(cands)
    picked = (with_args + [o for o in cands if o not in with_args])[:max_ops]
    held = [(o.definition.type_.name, o.definition.field_name, schema[o.definition.type_.name][o.definition.field_name]) for o in picked]
    saved = dict(scalars.CUSTOM_SCALARS)
    failures = []
    checks: dict = {}
    current = dict(case["init_config"])
    try:
        scalars.CUSTOM_SCALARS.clear()
        for si, step in enumerate(case["steps"]):
            if step["configure"] is not None:
                current = dict(step["configure"])
                schema.configure(generation=generation_config_of(current))
            effective = step["percall"] if step["percall"] is not None else current
            for name, k in step["register"].items():
                strat, check = scalar_variant(name, k)
                schemathesis.graphql.scalar(name, strat)
                checks[name] = check
            for tname, fname, op in held:
                if schema[tname][fname] is not op:
                    failures.append({"operation": f"{tname}.{fname}", "step": si, "complaints": ["schema[type][field] returned another operation object"]})
                    continue
                d = op.definition
                strategy = op.as_strategy(generation_config=generation_config_of(step["percall"])) if step["percall"] is not None else op.as_strategy()
                got = []

                @hypothesis.seed(step["seed"])
                @hypothesis.settings(database=None, max_examples=draws, deadline=None, suppress_health_check=list(HealthCheck), phases=[Phase.generate])
                @hypothesis.given(strategy)
                def test(c):
                    got.append(c)

                try:
                    test()
                except InvalidArgument as exc:
                    if [u for u in case["unknown"] if u not in checks] and "is not supported" in str(exc):
                        if collect is not None:
                            collect("oracle_history:no_strategy_for_custom_scalar")
                        continue
                    failures.append({"operation": op.label, "step": si, "complaints": [f"strategy raised InvalidArgument: {exc}"]})
                    continue
                except hypothesis.errors.Unsatisfiable as exc:
                    if not effective["allow_null"] and recursive_inputs(gs):
                        continue
                    failures.append({"operation": op.label, "step": si, "complaints": [f"strategy raised Unsatisfiable: {str(exc)[:120]}"]})
                    continue
                except Exception as exc:  # noqa: BLE001
                    failures.append({"operation": op.label, "step": si, "complaints": [f"strategy raised {type(exc).__name__}: {str(exc)[:200]}"]})
                    continue
                for c in got:
                    complaints = judge_document(gs, c.body, d.root_type.name, d.field_name, effective, checks)
                    if c.operation is not op:
                        complaints.append("case.operation is another operation")
                    if collect is not None:
                        collect("oracle_history:draws")
                        if si > 0:
                            collect("oracle_history:draws_after_a_change")
                    if complaints:
                        failures.append(
                            {"operation": op.label, "step": si, "effective_config": effective, "document": c.body, "complaints": [f"(use #{si + 1} of the same operation object) " + x if si else x for x in complaints]}
                        )
                        break
    finally:
        scalars.CUSTOM_SCALARS.clear()
        scalars.CUSTOM_SCALARS.update(saved)
    return failures


def report_oracle_history(chk, case, fails):
    for f in fails:
        region = oracle_region(f["complaints"])
        chk.fail("GraphQL case drawn from a kept operation object (schema[type][field]) does not respect the configuration in effect: " + "; ".join(f["complaints"])[:300], {"history": case, **f}, region=region)


def stage_oracle_histories(chk, n, draws, deadline=None):
    import time

    done = 0
    for _ in range(n):
        if deadline is not None and (time.time() > deadline or len(chk.failures) >= 6):
            chk.notes.append(f"boosted oracle_histories stopped after {done} histories (time budget / enough failing inputs)")
            break
        case = oracle_history_case(chk.rng)
        report_oracle_history(chk, case, run_oracle_history(case, draws, collect=chk.count))
        chk.seen({"oracle_history": case}, True)
        done += 1
    chk.stages["oracle_histories"] = {
        "label": "TESTING: one schema object, operations kept from schema[type][field], config / scalar changes between batches; each batch judged against the configuration in effect",
        "histories": done,
        "draws": chk.hist.get("oracle_history:draws", 0),
        "draws_after_a_change": chk.hist.get("oracle_history:draws_after_a_change", 0),
    }


OVERLAP_RE = re.compile(r"Fields '\w+' conflict because subfields .*? conflict because they return conflicting types '[^']*' and '[^']*'\. Use different aliases on the fields to fetch both if this was intentional\.")


def oracle_region(complaints: list[str]) -> str | None:
    """Listed regions of the ORACLE stage (foreign code, no theorem)."""
    plain = [x.split(") ", 1)[-1] if x.startswith("(use #") else x for x in complaints]
    if plain == [NULL_UNSUPPORTED]:
        return "null_for_unsupported_scalar"
    if len(plain) == 1 and plain[0].startswith("validation: "):
        rest = OVERLAP_RE.sub("", plain[0][len("validation: ") :]).replace(";", "").strip()
        if rest == "":
            return "nested_overlapping_fields"
    return None


def report_oracle(chk, case, fails):
    for f in fails:
        region = oracle_region(f["complaints"])
        chk.fail("generated GraphQL case is not valid for the schema / does not target its field: " + "; ".join(f["complaints"])[:300], {**case, **f}, region=region)


def stage_oracle(chk, n_schemas, draws, max_ops, deadline=None):
    import time

    rng = chk.rng
    total = 0
    for _ in range(n_schemas):
        if deadline is not None and (time.time() > deadline or len(chk.failures) >= 6):
            chk.notes.append(f"boosted oracle search stopped after {total} schemas (time budget / enough failing inputs)")
            break
        case = oracle_case(rng)
        fails = run_oracle_case(case, draws, max_ops, collect=chk.count)
        chk.seen({"oracle": case}, True)
        total += 1
        report_oracle(chk, case, fails)
    chk.stages["oracle_search"] = {
        "label": "TESTING (graphql-core parse + validate + literal checks over generated SDL); the only cover of document validity",
        "schemas": total,
        "draws": chk.hist.get("oracle:draws", 0),
        "draws_with_arguments": chk.hist.get("oracle:draws_with_arguments", 0),
    }


# ----------------------------------------------------------------------------------------
# listed findings
# ----------------------------------------------------------------------------------------
def witness_fails(w: dict) -> bool:
    from schemathesis.filters import FilterSet

    kind = w["kind"]
    if kind == "lookups":
        schema = load_sdl(w["sdl"])
        return impl_lookups(schema, w["history"]) != expected_lookups(w["sdl"], w["history"])
    if kind == "oracle_overlap":
        fails = run_oracle_case(w["case"], 120, 5)
        return any(oracle_region(f["complaints"]) == "nested_overlapping_fields" for f in fails)
    if kind == "oracle_null":
        fails = run_oracle_case(w["case"], 60, 10)
        return any(NULL_UNSUPPORTED in f["complaints"] for f in fails)
    if kind == "counts_func":
        # the natural spelling: a filter on the root type of the operation
        schema = load_sdl(w["sdl"]).include(lambda ctx: ctx.operation.definition.is_query)
        offered = impl_offered(schema)
        total = impl_offered(schema.clone(filter_set=FilterSet()))
        return isinstance(offered, list) and impl_stat(schema) != [len(total), len(offered)]
    if kind == "counts_malformed":
        base = load_sdl(w["sdl"])
        import random as _r

        schema = load_raw(make_variant(_r.Random(0), base.raw_schema, w["variant"]))
        offered = impl_offered(schema)
        return isinstance(offered, list) and impl_stat(schema) != [len(offered), len(offered)]
    raise ValueError(kind)


# ----------------------------------------------------------------------------------------
def run(chk: core.Check):
    quick = chk.tier == "quick"
    chk.trusted = [
        "Coq 8.16.1 kernel, vm_compute (witness lemmas and model evaluation); no axioms",
        "hand-written model theories/C20/Model_C20.v of get_all_operations, _should_skip + FilterSet.match, _measure_statistic, "
        "FieldMap/OperationCache lookups, the graphql_cases factory call, the scalar table and prepare_body",
        "correspondence harness harness/props/c20.py: fact extractors (introspection JSON -> raw; real FilterSet object -> matchers with "
        "re.search tabulated over the labels of the schema), Coq output parser, canonicalisers, SDL generator",
        "graphql-core 3.2 as the judge of document validity (parse, validate, TypeInfo) and of what schema[type][field] should mean",
    ]
    chk.assumptions = [
        "PARTIAL PROOF: validity of the generated documents is produced by the foreign package hypothesis-graphql and is NOT proved; "
        "it is covered by the oracle stage only (testing over generated SDL schemas and seeded draws)",
        "graphql.build_client_schema: the last type of a name wins, field names are de-duplicated at their first position, a missing / "
        "non-object / field-less root type raises (Model_C20.build_client; compared with the real function on every run, malformed JSON included)",
        "hypothesis-graphql queries/mutations read schema.query_type / schema.mutation_type, reject empty or unknown `fields` and "
        "otherwise generate selections of exactly the listed root fields (hg_accepts / hg_target; the first two compared per run, the last tested by the oracle)",
        "custom scalars are judged by name: Long = 64-bit integer literal, BigInt = integer literal, Date/Time/DateTime ISO strings (Time with Z), "
        "IP* parseable addresses, UUID parseable; a registered strategy defines what is acceptable for its scalar",
        "schema.base_path is a str: the schema is configured with a base_url (with neither location nor base_url it is b'' and path filters compare bytes)",
        "operation_id filters are outside the model: they raise AttributeError for every GraphQL operation, in get_all_operations and in statistic alike",
    ]
    chk.rule = (
        "SDL documents drawn from one PRNG (VERIF_SEED): 1-5 query and 0-5 mutation fields (custom root type names 20%, same field name under both "
        "roots 40%), 0-3 arguments over built-in scalars / the 9 extra scalars / unknown scalars / enums / nested and recursive input objects / "
        "lists / non-null / defaults (incl. null), results over objects / interfaces / unions / lists / deprecated fields; x 0-4 include/exclude calls "
        "(name, name list, name_regex, method, path, tag, custom functions) x 30% malformed introspection JSON variants (duplicate types / fields, "
        "equal / missing / scalar / null root types); lookup histories of 1-8 schema[type][field] accesses; generation configs allow_x00 x allow_null x "
        "codec; scalar registrations incl. refused ones.  non-trivial = the filters keep a proper non-empty subset / the history has two different "
        "lookups; distinct by canonical JSON"
    )
    chk.proofs(["Common", "C20"])
    rng = chk.rng

    corpus = [json.loads(p.read_text()) for p in sorted((core.VERIF / "corpus" / "C20").glob("*.json"))]
    n = 110 if quick else 1500
    sel = [c["selection"] for c in corpus if "selection" in c] + [selection_case(rng) for _ in range(n)]
    stage_selection(chk, sel)

    look = [c["lookups"] for c in corpus if "lookups" in c]
    for _ in range(60 if quick else 800):
        g = gen_sdl(rng)
        look.append({"sdl": g["sdl"], "history": gen_history(rng, raw_facts(load_sdl(g["sdl"]).raw_schema))})
    stage_lookups(chk, look)

    calls = []
    for _ in range(30 if quick else 300):
        g = gen_sdl(rng)
        calls.append(
            {
                "sdl": g["sdl"],
                "config": gen_config(rng),
                "registrations": gen_registrations(rng),
                "op_indexes": [rng.randrange(50) for _ in range(3)],
                "via_lookup": rng.random() < 0.3,
            }
        )
    stage_strategy_call(chk, calls)
    hist = [c["call_history"] for c in corpus if "call_history" in c]
    for _ in range(24 if quick else 300):
        g = gen_sdl(rng)
        hist.append({"sdl": g["sdl"], "config": gen_config(rng), "op_index": rng.randrange(50), "events": gen_events(rng)})
    stage_call_histories(chk, hist)
    stage_scalar_constants(chk)
    stage_prepare_body(chk, 60 if quick else 600)

    for f in chk.findings:
        chk.known(f, witness_fails(f["witness"]))

    # a broken proof / tie multiplies the search by 10, but the whole check stays within a wall-clock budget and the
    # search stops once it has half a dozen concrete failing inputs
    import time

    boost = 10 if chk.broken else 1
    deadline = (chk.t0 + (200 if quick else 800)) if boost > 1 else None
    for c in corpus:
        if "oracle" in c:
            report_oracle(chk, c["oracle"], run_oracle_case(c["oracle"], 30, 50, collect=chk.count))
            chk.seen({"oracle": c["oracle"]}, True)
        if "oracle_history" in c:
            report_oracle_history(chk, c["oracle_history"], run_oracle_history(c["oracle_history"], 30, collect=chk.count))
            chk.seen({"oracle_history": c["oracle_history"]}, True)
    # histories first: they are the only place where a configuration remembered by an operation object can show
    if quick:
        stage_oracle_histories(chk, 12 * boost, 10, None if deadline is None else deadline - 60)
        stage_oracle(chk, 24 * boost, 12, 3, deadline)
    else:
        stage_oracle_histories(chk, 110 * boost, 20, None if deadline is None else deadline - 300)
        stage_oracle(chk, 260 * boost, 25, 4, deadline)


def replay(payload) -> int:
    for f in payload.get("failing_inputs", []):
        case = f.get("input") or {}
        print("failing input:", f.get("what"))
        if isinstance(case.get("history"), list):
            print("  schema[type][field] history:", case["history"])
            print("  implementation:", impl_lookups(load_sdl(case["sdl"]), case["history"]))
            print("  expected      :", expected_lookups(case["sdl"], case["history"]))
        elif "history" in case and isinstance(case["history"], dict) and "steps" in case["history"]:
            fails = run_oracle_history(case["history"], 50)
            print("  history re-run:", "FAILS" if fails else "passes", json.dumps(fails[:1], default=str)[:700])
        elif "seed" in case and "config" in case:
            fails = run_oracle_case(case, 50, 50)
            print("  re-drawn with the recorded seed:", "FAILS" if fails else "passes", json.dumps(fails[:1], default=str)[:600])
        elif "calls" in case and "sdl" in case:
            schema, _ = build_selection(case)
            print("  offered  :", impl_offered(schema))
            print("  statistic:", impl_stat(schema))
    for b in payload.get("broken_obligations_or_correspondence", []):
        print("broken:", b.get("kind"), b.get("what"))
        print("  implementation:", str(b.get("implementation"))[:400])
        print("  model         :", str(b.get("model"))[:400])
    return 0
