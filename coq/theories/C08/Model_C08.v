(* C08 model, part 1: Python duck-typed primitives over JSON, local reference resolution,
   resolve_all, parameters, collect_parameters (2.0 / 3.0), add_parameter, security
   parameters, parameters_to_json_schema, get_all_operations, and the operation cache
   as a state machine.  Executable definitions only.
   Source: /repo/src/schemathesis/specs/openapi/{schemas,_cache,references,parameters,security}.py,
   /repo/src/schemathesis/schemas.py.  Exceptions are constructors of [exc]. *)
From Coq Require Import List NArith ZArith Bool.
From Coq Require String Ascii.
Import String.StringSyntax.
Delimit Scope string_scope with string.
From Verif Require Import Common.Str Common.Json.
Import ListNotations.

Definition S (s : String.string) : str := map Ascii.N_of_ascii (String.list_ascii_of_string s).
Arguments S s%string.

(* ------------------------------------------------------------------ exceptions *)
Inductive exc :=
| EKey | EAttr | ERef | EInvalid          (* SCHEMA_PARSING_ERRORS, schemas.py:75 *)
| EType | EValue | EStop
| ENotFound                               (* OperationNotFound *)
| ELookup                                 (* LookupError raised by MethodMap.__getitem__ *)
| EOther                                  (* an exception class the model does not pin down *)
| ETruncated                              (* not Python: RECURSION_DEPTH_LIMIT reached (remove_optional_references is not modelled),
                                             or a percent-encoded non-ASCII byte in a reference (UTF-8 decoding is not modelled) *)
| EFuel.                                  (* not Python: fuel exhausted *)

Definition exc_eqb (a b : exc) : bool :=
  match a, b with
  | EKey, EKey | EAttr, EAttr | ERef, ERef | EInvalid, EInvalid | EType, EType | EValue, EValue
  | EStop, EStop | ENotFound, ENotFound | ELookup, ELookup | EOther, EOther | ETruncated, ETruncated | EFuel, EFuel => true
  | _, _ => false
  end.

Definition caught (e : exc) : bool :=
  match e with EKey | EAttr | ERef | EInvalid => true | _ => false end.

Inductive res (A : Type) := Val (a : A) | Raise (e : exc).
Arguments Val {A} a.
Arguments Raise {A} e.

Definition bind {A B} (r : res A) (f : A -> res B) : res B :=
  match r with Val a => f a | Raise e => Raise e end.
Notation "'do' x <- r ; k" := (bind r (fun x => k)) (at level 200, x name, r at level 100, k at level 200).
Notation "'do' ' p <- r ; k" := (bind r (fun x => let 'p := x in k)) (at level 200, p pattern, r at level 100, k at level 200).

Fixpoint map_res {A B} (f : A -> res B) (l : list A) : res (list B) :=
  match l with
  | [] => Val []
  | x :: r => do y <- f x; do ys <- map_res f r; Val (y :: ys)
  end.

(* ------------------------------------------------------------------ keys *)
Definition k_ref := S "$ref".
Definition k_paths := S "paths".
Definition k_parameters := S "parameters".
Definition k_in := S "in".
Definition k_name := S "name".
Definition k_required := S "required".
Definition k_schema := S "schema".
Definition k_content := S "content".
Definition k_requestBody := S "requestBody".
Definition k_description := S "description".
Definition k_consumes := S "consumes".
Definition k_components := S "components".
Definition k_securitySchemes := S "securitySchemes".
Definition k_securityDefinitions := S "securityDefinitions".
Definition k_security := S "security".
Definition k_type := S "type".
Definition k_scheme := S "scheme".
Definition k_format := S "format".
Definition k_operationId := S "operationId".
Definition k_example := S "example".
Definition k_examples := S "examples".
Definition k_xexample := S "x-example".
Definition k_xexamples := S "x-examples".
Definition k_value := S "value".
Definition k_nullable := S "nullable".
Definition k_xnullable := S "x-nullable".
Definition s_header := S "header".
Definition s_cookie := S "cookie".
Definition s_query := S "query".
Definition s_path := S "path".
Definition s_body := S "body".
Definition s_formData := S "formData".
Definition s_apiKey := S "apiKey".
Definition s_http := S "http".
Definition s_basic := S "basic".
Definition s_string := S "string".
Definition s_object := S "object".
Definition s_Authorization := S "Authorization".
Definition s_json_media := S "application/json".
Definition s_multipart := S "multipart/form-data".
Definition s_urlencoded := S "application/x-www-form-urlencoded".

Definition HTTP_METHODS : list str :=
  [S "get"; S "put"; S "post"; S "delete"; S "options"; S "head"; S "patch"; S "trace"].
Definition is_http_method (m : str) : bool := existsb (str_eqb m) HTTP_METHODS.

(* ------------------------------------------------------------------ Python on JSON values *)
Fixpoint is_infix (p s : str) : bool :=
  starts_with p s || match s with [] => false | _ :: s' => is_infix p s' end.

Definition is_nil {A} (l : list A) : bool := match l with [] => true | _ => false end.

Definition truthy (j : json) : bool :=
  match j with
  | JNull => false | JBool b => b | JInt z => negb (Z.eqb z 0)
  | JStr s => negb (is_nil s) | JArr l => negb (is_nil l) | JObj l => negb (is_nil l)
  end.

Definition hashable (j : json) : bool := match j with JArr _ | JObj _ => false | _ => true end.

Definition num_of (j : json) : option Z :=
  match j with JBool b => Some (if b then 1 else 0)%Z | JInt z => Some z | _ => None end.
(* == on values (True == 1) *)
Definition py_eq (a b : json) : bool :=
  match num_of a, num_of b with Some x, Some y => Z.eqb x y | _, _ => json_eqb a b end.

(* k in j *)
Definition py_in (k : str) (j : json) : res bool :=
  match j with
  | JObj kvs => Val (assoc_mem k kvs)
  | JArr l => Val (existsb (json_eqb (JStr k)) l)
  | JStr s => Val (is_infix k s)
  | _ => Raise EType
  end.
(* j.get(k) *)
Definition py_get (j : json) (k : str) : res (option json) :=
  match j with JObj kvs => Val (assoc_get k kvs) | _ => Raise EAttr end.
Definition py_get_d (j : json) (k : str) (d : json) : res json :=
  do o <- py_get j k; Val (match o with Some v => v | None => d end).
(* j[k] for a string k *)
Definition py_item (j : json) (k : str) : res json :=
  match j with
  | JObj kvs => match assoc_get k kvs with Some v => Val v | None => Raise EKey end
  | _ => Raise EType
  end.
Definition py_items (j : json) : res (list (str * json)) :=
  match j with JObj kvs => Val kvs | _ => Raise EAttr end.
Definition py_values (j : json) : res (list json) := do kvs <- py_items j; Val (map snd kvs).
(* iter(j) *)
Definition py_iter (j : json) : res (list json) :=
  match j with
  | JArr l => Val l
  | JObj kvs => Val (map (fun kv => JStr (fst kv)) kvs)
  | JStr s => Val (map (fun c => JStr [c]) s)
  | _ => Raise EType
  end.

(* ------------------------------------------------------------------ local references
   jsonschema.RefResolver.resolve / resolve_fragment for references into the document itself
   (base URI empty): fragment.lstrip(/), unquote, split on /, RFC 6901 token decoding (~1 first, then ~0).
   Anchors and ids are not searched. *)
Fixpoint repl2 (a b by_ : N) (s : str) : str :=
  match s with
  | x :: ((y :: r) as t) => if N.eqb x a && N.eqb y b then by_ :: repl2 a b by_ r else x :: repl2 a b by_ t
  | _ => s
  end.
Definition unescape (s : str) : str := repl2 126 48 126 (repl2 126 49 47 s).

(* urllib.parse.unquote, applied by RefResolver.resolve_fragment to the fragment BEFORE it is split into
   reference tokens: a percent sign followed by two hexadecimal digits is one byte, any other percent sign
   stays.  Exact when every decoded byte is ASCII; a decoded byte above 127 is UTF-8 decoded by Python
   together with its neighbours (errors=replace): not modelled, [pct_high] marks such fragments. *)
Definition hex_val (c : N) : option N :=
  if is_digit c then Some (c - 48)%N
  else if ((65 <=? c) && (c <=? 70))%N then Some (c - 55)%N
  else if ((97 <=? c) && (c <=? 102))%N then Some (c - 87)%N
  else None.
Fixpoint unquote (s : str) : str :=
  match s with
  | [] => []
  | c :: t =>
      if N.eqb c 37 then
        match t with
        | h :: l :: r => match hex_val h, hex_val l with
                         | Some a, Some b => (16 * a + b)%N :: unquote r
                         | _, _ => c :: unquote t
                         end
        | _ => c :: unquote t
        end
      else c :: unquote t
  end.
Fixpoint pct_high (s : str) : bool :=
  match s with
  | [] => false
  | c :: t =>
      if N.eqb c 37 then
        match t with
        | h :: l :: r => match hex_val h, hex_val l with
                         | Some a, Some b => (128 <=? 16 * a + b)%N || pct_high r
                         | _, _ => pct_high t
                         end
        | _ => pct_high t
        end
      else pct_high t
  end.
Definition rstrip_slash (s : str) : str := rev (strip_left [47%N] (rev s)).

Definition parse_index (s : str) : option nat :=
  match s with
  | [] => None
  | _ => if forallb is_digit s
         then Some (fold_left (fun acc c => (acc * 10 + N.to_nat (c - 48))%nat) s O)
         else None
  end.

Definition pointer_step (d : json) (part : str) : option json :=
  match d with
  | JObj kvs => assoc_get part kvs
  | JArr l => match parse_index part with Some i => nth_error l i | None => None end
  | JStr s => match parse_index part with
              | Some i => match nth_error s i with Some c => Some (JStr [c]) | None => None end
              | None => None end
  | _ => None
  end.

Fixpoint pointer_walk (d : json) (parts : list str) : option json :=
  match parts with
  | [] => Some d
  | p :: r => match pointer_step d p with Some d' => pointer_walk d' r | None => None end
  end.

(* returns (url, value); url = urljoin(scope, ref).rstrip(/) = ref.rstrip(/) for fragment-only references *)
Definition resolve (doc : json) (ref : str) : res (str * json) :=
  let url := rstrip_slash ref in
  match url with
  | [] => Val ([], doc)
  | 35%N :: frag =>
      let frag := strip_left [47%N] frag in
      if is_nil frag then Val (url, doc)
      else if pct_high frag then Raise ETruncated   (* percent-encoded non-ASCII byte: outside the model *)
      else match pointer_walk doc (map unescape (split_on 47 (unquote frag))) with
           | Some v => Val (url, v)
           | None => Raise ERef
           end
  | _ => Raise ERef    (* other files / remote: outside the model *)
  end.

(* resolver.resolve(x) for a value x taken from the document, at the root scope:
   urljoin of the empty base returns x itself, then x.rstrip raises AttributeError for a non-string *)
Definition resolve_value (doc : json) (x : json) : res (str * json) :=
  match x with JStr r => resolve doc r | _ => Raise EAttr end.

Definition FUEL : nat := 4000.
Definition RECURSION_DEPTH_LIMIT : nat := 100.
Definition START_LEVEL : nat := 92.     (* RECURSION_DEPTH_LIMIT - 8, schemas.py:283,286 *)

(* references.py:83 InliningResolver.resolve_all *)
Fixpoint resolve_all (fuel : nat) (doc : json) (item : json) (level : nat) : res json :=
  match fuel with
  | O => Raise EFuel
  | Datatypes.S f =>
    let sub := fun v => match v with JObj _ | JArr _ => resolve_all f doc v level | _ => Val v end in
    match item with
    | JObj kvs =>
        match assoc_get k_ref kvs with
        | Some (JStr r) =>
            do '(_, resolved) <- resolve doc r;
            if Nat.ltb RECURSION_DEPTH_LIMIT (level + 1) then Raise ETruncated
            else resolve_all f doc resolved (level + 1)
        | _ =>
            do kvs' <- (fix go (l : list (str * json)) : res (list (str * json)) :=
                          match l with
                          | [] => Val []
                          | (k, v) :: r => do v' <- sub v; do r' <- go r; Val ((k, v') :: r')
                          end) kvs;
            Val (JObj kvs')
        end
    | JArr l =>
        do l' <- (fix go (l : list json) : res (list json) :=
                    match l with
                    | [] => Val []
                    | v :: r => do v' <- sub v; do r' <- go r; Val (v' :: r')
                    end) l;
        Val (JArr l')
    | _ => Val item
    end
  end.

Definition resolve_op (doc : json) (j : json) : res json := resolve_all FUEL doc j START_LEVEL.

(* ------------------------------------------------------------------ parameters (parameters.py) *)
Inductive version := V20 | V30 | V31.
Definition is_v20 (v : version) : bool := match v with V20 => true | _ => false end.

Inductive param :=
| PParam (d : json)                                   (* OpenAPI20Parameter / OpenAPI30Parameter *)
| PBody20 (d : json) (media : json)                   (* OpenAPI20Body *)
| PBody30 (d : json) (media : json) (required : json) (* OpenAPI30Body: d is the media type object *)
| PComposite (ds : list json) (media : json).         (* OpenAPI20CompositeBody *)

(* parameters.py:33-43 location: the dict lookup hashes the raw value *)
Definition p_location (p : param) : res json :=
  match p with
  | PParam d => do raw <- py_item d k_in;
                if hashable raw then Val (if json_eqb raw (JStr s_formData) then JStr s_body else raw)
                else Raise EType
  | _ => Val (JStr s_body)
  end.
Definition p_name (p : param) : res json :=
  match p with PParam d => py_item d k_name | _ => Val (JStr s_body) end.
Definition p_required (p : param) : res json :=
  match p with
  | PParam d | PBody20 d _ => py_get_d d k_required (JBool false)
  | PBody30 _ _ r => Val r
  | PComposite ds _ => Val (JBool (negb (is_nil ds)))
  end.
Definition p_media (p : param) : json :=
  match p with PParam _ => JNull | PBody20 _ m | PBody30 _ m _ | PComposite _ m => m end.

(* schemas.py:78 check_header; requests _VALID_HEADER_NAME_RE_STR; every failure is a caught class *)
Definition is_ws (c : N) : bool := mem c [9;10;11;12;13;32;28;29;30;31;133;160]%N.
Definition header_name_ok (s : str) : bool :=
  match s with
  | [] => false
  | c :: r => forallb (fun x => N.ltb x 128) s && negb (N.eqb c 58) && negb (is_ws c)
              && forallb (fun x => negb (mem x [58;13;10]%N)) r
  end.
Definition check_header (p : json) : res unit :=
  do name <- py_item p k_name;
  if negb (truthy name) then Raise EInvalid
  else match name with
       | JStr s => if header_name_ok s then Val tt else Raise EInvalid
       | _ => Raise EAttr
       end.

Definition is_header_loc (loc : json) : bool := json_eqb loc (JStr s_header) || json_eqb loc (JStr s_cookie).

(* schemas.py:1130 OpenApi30.collect_parameters, loop part *)
Fixpoint collect30_loop (ps : list json) (acc : list param) : res (list param) :=
  match ps with
  | [] => Val acc
  | p :: r =>
      do loc <- py_item p k_in;
      do _ <- (if is_header_loc loc then check_header p else Val tt);
      collect30_loop r (acc ++ [PParam p])
  end.

Definition collect30_body (definition : json) (acc : list param) : res (list param) :=
  do has <- py_in k_requestBody definition;
  if has then
    do rb <- py_item definition k_requestBody;
    do required <- py_get_d rb k_required (JBool false);
    do _ <- py_get rb k_description;
    do content <- py_item rb k_content;
    do kvs <- py_items content;
    Val (acc ++ map (fun kv => PBody30 (snd kv) (JStr (fst kv)) required) kvs)
  else Val acc.

(* itertools.chain(parameters, shared) is consumed lazily: the second iterable is opened
   only after the first one is exhausted *)
Definition collect30 (params shared definition : json) : res (list param) :=
  do l1 <- py_iter params;
  do acc <- collect30_loop l1 [];
  do l2 <- py_iter shared;
  do acc <- collect30_loop l2 acc;
  collect30_body definition acc.

(* schemas.py:946 SwaggerV20.collect_parameters *)
Definition consumes_for (doc definition : json) : res json :=
  do g <- py_get_d doc k_consumes (JArr []);
  do c <- py_get_d definition k_consumes (JArr []);
  Val (if truthy c then c else g).

Fixpoint collect20_loop (body_media : list json) (ps : list json) (forms : list json) (acc : list param)
  : res (list json * list param) :=
  match ps with
  | [] => Val (forms, acc)
  | p :: r =>
      do loc <- py_item p k_in;
      if json_eqb loc (JStr s_formData) then collect20_loop body_media r (forms ++ [p]) acc
      else if json_eqb loc (JStr s_body) then
        collect20_loop body_media r forms (acc ++ map (fun m => PBody20 p m) body_media)
      else
        do _ <- (if is_header_loc loc then check_header p else Val tt);
        collect20_loop body_media r forms (acc ++ [PParam p])
  end.

Definition collect20 (doc params shared definition : json) : res (list param) :=
  do media <- consumes_for doc definition;
  let body_media := if truthy media then media else JArr [JStr s_json_media] in
  let form_media := if truthy media then media else JArr [JStr s_multipart] in
  do l1 <- py_iter params;
  (* the media types are iterated inside the loop, when the first body parameter is met;
     a non-iterable consumes therefore raises only if there is one *)
  let bm := match py_iter body_media with Val l => Some l | Raise _ => None end in
  let run := fun l forms acc =>
    match bm with
    | Some b => collect20_loop b l forms acc
    | None =>
        (* find the first element that raises or is a body parameter *)
        (fix go (ps : list json) (forms : list json) (acc : list param) : res (list json * list param) :=
           match ps with
           | [] => Val (forms, acc)
           | p :: r =>
               do loc <- py_item p k_in;
               if json_eqb loc (JStr s_formData) then go r (forms ++ [p]) acc
               else if json_eqb loc (JStr s_body) then Raise EType
               else do _ <- (if is_header_loc loc then check_header p else Val tt);
                    go r forms (acc ++ [PParam p])
           end) l forms acc
    end in
  do '(forms, acc) <- run l1 [] [];
  do l2 <- py_iter shared;
  do '(forms, acc) <- run l2 forms acc;
  if is_nil forms then Val acc
  else do fm <- py_iter form_media; Val (acc ++ map (fun m => PComposite forms m) fm).

Definition collect (v : version) (doc params shared definition : json) : res (list param) :=
  if is_v20 v then collect20 doc params shared definition else collect30 params shared definition.

(* ------------------------------------------------------------------ operations (schemas.py APIOperation) *)
Record operation := {
  o_path : str; o_method : str; o_raw : json; o_resolved : json; o_scope : str;
  o_pathp : list param; o_headers : list param; o_cookies : list param; o_query : list param; o_body : list param }.

Definition empty_op (path method : str) (raw resolved : json) (scope : str) : operation :=
  {| o_path := path; o_method := method; o_raw := raw; o_resolved := resolved; o_scope := scope;
     o_pathp := []; o_headers := []; o_cookies := []; o_query := []; o_body := [] |}.

Inductive loc := LPath | LHeader | LCookie | LQuery | LBody.
Definition loc_of (j : json) : option loc :=
  match j with
  | JStr s => if str_eqb s s_path then Some LPath else if str_eqb s s_header then Some LHeader
              else if str_eqb s s_cookie then Some LCookie else if str_eqb s s_query then Some LQuery
              else if str_eqb s s_body then Some LBody else None
  | _ => None
  end.
Definition container (o : operation) (l : loc) : list param :=
  match l with LPath => o_pathp o | LHeader => o_headers o | LCookie => o_cookies o | LQuery => o_query o | LBody => o_body o end.
Definition add_to (o : operation) (l : loc) (p : param) : operation :=
  match l with
  | LPath => {| o_path := o_path o; o_method := o_method o; o_raw := o_raw o; o_resolved := o_resolved o; o_scope := o_scope o;
                o_pathp := o_pathp o ++ [p]; o_headers := o_headers o; o_cookies := o_cookies o; o_query := o_query o; o_body := o_body o |}
  | LHeader => {| o_path := o_path o; o_method := o_method o; o_raw := o_raw o; o_resolved := o_resolved o; o_scope := o_scope o;
                o_pathp := o_pathp o; o_headers := o_headers o ++ [p]; o_cookies := o_cookies o; o_query := o_query o; o_body := o_body o |}
  | LCookie => {| o_path := o_path o; o_method := o_method o; o_raw := o_raw o; o_resolved := o_resolved o; o_scope := o_scope o;
                o_pathp := o_pathp o; o_headers := o_headers o; o_cookies := o_cookies o ++ [p]; o_query := o_query o; o_body := o_body o |}
  | LQuery => {| o_path := o_path o; o_method := o_method o; o_raw := o_raw o; o_resolved := o_resolved o; o_scope := o_scope o;
                o_pathp := o_pathp o; o_headers := o_headers o; o_cookies := o_cookies o; o_query := o_query o ++ [p]; o_body := o_body o |}
  | LBody => {| o_path := o_path o; o_method := o_method o; o_raw := o_raw o; o_resolved := o_resolved o; o_scope := o_scope o;
                o_pathp := o_pathp o; o_headers := o_headers o; o_cookies := o_cookies o; o_query := o_query o; o_body := o_body o ++ [p] |}
  end.

(* schemas.py (base) :649 add_parameter: an unknown location is ignored *)
Definition add_parameter (o : operation) (p : param) : res operation :=
  do l <- p_location p;
  Val (match loc_of l with Some c => add_to o c p | None => o end).

Fixpoint add_parameters (o : operation) (ps : list param) : res operation :=
  match ps with [] => Val o | p :: r => do o' <- add_parameter o p; add_parameters o' r end.

(* ParameterSet.get, schemas.py (base) :541 *)
Fixpoint set_get (ps : list param) (name : json) : res (option param) :=
  match ps with
  | [] => Val None
  | p :: r => do n <- p_name p; if py_eq n name then Val (Some p) else set_get r name
  end.
(* APIOperation.get_parameter :663 *)
Definition get_parameter (o : operation) (name location : json) : res (option param) :=
  if negb (hashable location) then Raise EType
  else match loc_of location with Some c => set_get (container o c) name | None => Val None end.

(* ------------------------------------------------------------------ security.py *)
Definition lower_json_str (j : json) : res str :=
  match j with JStr s => Val (lower_ascii s) | _ => Raise EAttr end.

Definition security_definitions (v : version) (doc : json) : res json :=
  if is_v20 v then py_get_d doc k_securityDefinitions (JObj [])
  else
    do components <- py_get_d doc k_components (JObj []);
    do schemes <- py_get_d components k_securitySchemes (JObj []);
    do has <- py_in k_ref schemes;
    if has then do r <- py_item schemes k_ref; do '(_, x) <- resolve_value doc r; Val x
    else
      do kvs <- py_items schemes;
      do kvs' <- map_res (fun kv =>
                   do h <- py_in k_ref (snd kv);
                   if h then do r <- py_item (snd kv) k_ref; do '(_, x) <- resolve_value doc r; Val (fst kv, x)
                   else Val kv) kvs;
      Val (JObj kvs').

Definition security_requirements (doc raw : json) : res (list json) :=
  do g <- py_get_d doc k_security (JArr []);
  do l <- py_get raw k_security;
  let reqs := match l with Some JNull | None => g | Some x => x end in
  do rs <- py_iter reqs;
  do keys <- map_res py_iter rs;
  Val (concat keys).

Definition api_key_param (v : version) (definition : json) : res json :=
  do n <- py_item definition k_name;
  do i <- py_item definition k_in;
  Val (JObj ([(k_name, n); (k_required, JBool true); (k_in, i)] ++
             (if is_v20 v then [(k_type, JStr s_string)] else [(k_schema, JObj [(k_type, JStr s_string)])]))).

Definition http_auth_param (v : version) (definition : json) : res json :=
  do sch <- py_get_d definition k_scheme (JStr s_basic);
  do low <- lower_json_str sch;
  let fmt := JStr (95%N :: low ++ S "_auth") in
  let schema := [(k_type, JStr s_string); (k_format, fmt)] in
  Val (JObj ([(k_name, JStr s_Authorization); (k_in, JStr s_header); (k_required, JBool true)] ++
             (if is_v20 v then schema else [(k_schema, JObj schema)]))).

(* security.py:22 process_definitions *)
Fixpoint process_definitions (v : version) (defs : list json) (o : operation) : res operation :=
  match defs with
  | [] => Val o
  | d :: r =>
      do name <- py_get d k_name;
      do location <- py_get d k_in;
      let skip :=
        match name, location with
        | Some n, Some l =>
            match n, l with
            | JNull, _ | _, JNull => Val false
            | _, _ => do g <- get_parameter o n l; Val (match g with Some _ => true | None => false end)
            end
        | _, _ => Val false
        end in
      do sk <- skip;
      if sk then process_definitions v r o
      else
        do ty <- py_item d k_type;
        do o1 <- (if json_eqb ty (JStr s_apiKey)
                  then do p <- api_key_param v d; add_parameter o (PParam p) else Val o);
        do ty2 <- py_item d k_type;
        do o2 <- (if json_eqb ty2 (JStr (if is_v20 v then s_basic else s_http))
                  then do p <- http_auth_param v d; add_parameter o1 (PParam p) else Val o1);
        process_definitions v r o2
  end.

Definition add_security (v : version) (doc : json) (o : operation) : res operation :=
  do defs <- security_definitions v doc;
  do reqs <- security_requirements doc (o_raw o);
  do kvs <- py_items defs;
  let active := map snd (filter (fun kv => existsb (py_eq (JStr (fst kv))) reqs) kvs) in
  process_definitions v active o.

(* schemas.py:412 make_operation (no servers / basePath handling, default with_security_parameters) *)
Definition make_operation (v : version) (doc : json) (path method : str) (params : list param)
           (raw resolved : json) (scope : str) : res operation :=
  do o <- add_parameters (empty_op path method raw resolved scope) params;
  add_security v doc o.

(* ------------------------------------------------------------------ JSON Schema of a parameter (parameters.py:58-99)
   [conv] stands for to_json_schema_recursive (converter.py, the concern of C01): an explicit argument. *)
Definition KW30 : list str :=
  [S "$ref"; S "multipleOf"; S "maximum"; S "exclusiveMaximum"; S "minimum"; S "exclusiveMinimum"; S "maxLength"; S "minLength";
   S "pattern"; S "maxItems"; S "minItems"; S "uniqueItems"; S "maxProperties"; S "minProperties"; S "required"; S "enum"; S "type";
   S "allOf"; S "oneOf"; S "anyOf"; S "not"; S "items"; S "properties"; S "additionalProperties"; S "format"; S "example"; S "examples"].
Definition KW20 : list str :=
  [S "$ref"; S "type"; S "format"; S "items"; S "maximum"; S "exclusiveMaximum"; S "minimum"; S "exclusiveMinimum"; S "maxLength";
   S "minLength"; S "pattern"; S "maxItems"; S "minItems"; S "uniqueItems"; S "enum"; S "multipleOf"; S "example"; S "examples"].

Definition keep_key (v : version) (k : str) : bool :=
  existsb (str_eqb k) (if is_v20 v then KW20 else KW30) || starts_with (S "x-") k
  || str_eqb k (if is_v20 v then k_xnullable else k_nullable).

Definition setdefault (k : str) (d : json) (j : json) : res json :=
  match j with
  | JObj kvs => Val (if assoc_mem k kvs then j else JObj (kvs ++ [(k, d)]))
  | _ => Raise EAttr
  end.

(* parameters.py:368 get_parameter_schema *)
Definition get_parameter_schema (data : json) : res json :=
  do has <- py_in k_schema data;
  if has then
    do s <- py_item data k_schema;
    match s with JObj _ => Val s | _ => Raise EInvalid end
  else
    match py_item data k_content with
    | Raise EKey => Raise EInvalid
    | Raise e => Raise e
    | Val content =>
        do vs <- py_values content;
        match vs with
        | [] => Raise EStop
        | m :: _ => py_get_d m k_schema (JObj [])
        end
    end.

Definition collect_examples (v : version) (d : json) : res (list json) :=
  let kes := if is_v20 v then k_xexamples else k_examples in
  let ke := if is_v20 v then k_xexample else k_example in
  do has <- py_in kes d;
  do l1 <- (if has then
              do exs <- py_item d kes;
              do vs <- py_values exs;
              do picked <- map_res (fun ex => do h <- py_in k_value ex;
                                              if h then do x <- py_item ex k_value; Val [x] else Val []) vs;
              Val (List.concat picked)
            else Val []);
  do has2 <- py_in ke d;
  if has2 then do x <- py_item d ke; Val (l1 ++ [x]) else Val l1.

Definition param_def_schema (conv : json -> json) (v : version) (d : json) : res json :=
  do examples <- collect_examples v d;
  do src <- (if is_v20 v then Val d else get_parameter_schema d);
  do kvs <- py_items src;
  let filtered := filter (fun kv => keep_key v (fst kv)) kvs in
  let with_ex := if is_nil examples then filtered else assoc_set k_examples (JArr examples) filtered in
  let converted := conv (JObj with_ex) in
  do l <- py_item d k_in;
  if negb (hashable l) then Raise EType
  else if is_header_loc l then setdefault k_type (JStr s_string) converted else Val converted.

Definition is_form_media (m : json) : bool := json_eqb m (JStr s_multipart) || json_eqb m (JStr s_urlencoded).

(* insertion-ordered dict with arbitrary hashable keys *)
Fixpoint jassoc_set (k v : json) (l : list (json * json)) : list (json * json) :=
  match l with
  | [] => [(k, v)]
  | (k', v') :: r => if py_eq k k' then (k', v) :: r else (k', v') :: jassoc_set k v r
  end.
Fixpoint jassoc_get (k : json) (l : list (json * json)) : option json :=
  match l with
  | [] => None
  | (k', v) :: r => if py_eq k k' then Some v else jassoc_get k r
  end.

Section Schema.
  Variable conv : json -> json.
  Variable v : version.

  (* parameters.py:309 parameters_to_json_schema over an arbitrary as_json_schema *)
  Fixpoint to_schema_loop (as_schema : param -> res json) (ps : list param)
           (props : list (json * json)) (required : list json) : res (list (json * json) * list json) :=
    match ps with
    | [] => Val (props, required)
    | p :: r =>
        do name <- p_name p;
        do sch <- as_schema p;
        if negb (hashable name) then Raise EType
        else
          do req <- p_required p;
          let required' := if truthy req && negb (existsb (py_eq name) required) then required ++ [name] else required in
          to_schema_loop as_schema r (jassoc_set name sch props) required'
    end.

  Definition as_schema_simple (p : param) : res json :=
    match p with
    | PParam d => param_def_schema conv v d
    | PBody20 d _ => do s <- py_item d k_schema; Val (conv s)
    | PBody30 d m _ =>
        do s <- py_get_d d k_schema (JObj []);
        let c := conv s in
        if is_form_media m then setdefault k_type (JStr s_object) c else Val c
    | PComposite _ _ => Raise EOther
    end.

  Definition schema_obj (pr : list (json * json) * list json) : json :=
    JObj [(S "properties", JArr (map (fun kv => JArr [fst kv; snd kv]) (fst pr)));
          (S "additionalProperties", JBool false); (k_type, JStr s_object); (k_required, JArr (snd pr))].

  Definition as_schema (p : param) : res json :=
    match p with
    | PComposite ds _ =>
        do pr <- to_schema_loop as_schema_simple (map PParam ds) [] [];
        Val (schema_obj pr)
    | _ => as_schema_simple p
    end.

  Definition params_to_schema (ps : list param) : res (list (json * json) * list json) :=
    to_schema_loop as_schema ps [] [].

  (* what the property calls the effective definition: the one ParameterSet.get returns *)
  Definition effective_schema (ps : list param) (name : json) : res (option json) :=
    do g <- set_get ps name;
    match g with Some p => do s <- as_schema p; Val (Some s) | None => Val None end.

  Definition generated_schema (ps : list param) (name : json) : res (option json) :=
    do pr <- params_to_schema ps; Val (jassoc_get name (fst pr)).
End Schema.

(* ------------------------------------------------------------------ get_all_operations (schemas.py:295) *)
Inductive item := IOk (o : operation) | IErr (path : str) (method : option str) (e : exc).

(* schemas.py:404 _resolve_path_item: the scope is the empty base URI when there is no reference *)
Definition resolve_path_item (doc : json) (pi : json) : res (str * json) :=
  do has <- py_in k_ref pi;
  if has then do r <- py_item pi k_ref; resolve_value doc r else Val ([], pi).

Definition shared_parameters (doc : json) (path_item : json) : res json :=
  do ps <- py_get_d path_item k_parameters (JArr []);
  resolve_op doc ps.

Definition build_op (v : version) (doc : json) (path method : str) (shared : json) (entry : json) (resolved : json) (scope : str)
  : res operation :=
  do params <- py_get_d resolved k_parameters (JArr []);
  do collected <- collect v doc params shared resolved;
  make_operation v doc path method collected entry resolved scope.

Definition process_entry (v : version) (doc : json) (path scope : str) (shared : json) (method : str) (entry : json)
  : res operation :=
  do resolved <- resolve_op doc entry;
  build_op v doc path method shared entry resolved scope.

Fixpoint methods_loop (v : version) (doc : json) (path scope : str) (shared : json) (kvs : list (str * json))
  : list item * option exc :=
  match kvs with
  | [] => ([], None)
  | (method, entry) :: r =>
      if negb (is_http_method method) then methods_loop v doc path scope shared r
      else match process_entry v doc path scope shared method entry with
           | Val o => let (items, crash) := methods_loop v doc path scope shared r in (IOk o :: items, crash)
           | Raise e =>
               if caught e
               then let (items, crash) := methods_loop v doc path scope shared r in (IErr path (Some method) e :: items, crash)
               else ([], Some e)
           end
  end.

Definition process_path (v : version) (doc : json) (path : str) (pi : json) : list item * option exc :=
  match (do '(scope, item) <- resolve_path_item doc pi;
         do shared <- shared_parameters doc item;
         do kvs <- py_items item;
         Val (scope, shared, kvs)) with
  | Raise e => if caught e then ([IErr path None e], None) else ([], Some e)
  | Val (scope, shared, kvs) => methods_loop v doc path scope shared kvs
  end.

Fixpoint paths_loop (v : version) (doc : json) (paths : list (str * json)) : list item * option exc :=
  match paths with
  | [] => ([], None)
  | (path, pi) :: r =>
      match process_path v doc path pi with
      | (items, Some e) => (items, Some e)
      | (items, None) => let (items', crash) := paths_loop v doc r in (items ++ items', crash)
      end
  end.

(* (yielded items, exception that ended the generator) *)
Definition get_all_operations (v : version) (doc : json) : list item * option exc :=
  match py_item doc k_paths with
  | Raise EKey => match v with V31 => ([], None) | _ => ([], Some EInvalid) end
  | Raise e => ([], Some e)
  | Val paths =>
      match py_items paths with
      | Raise e => ([], Some e)
      | Val kvs => paths_loop v doc kvs
      end
  end.

(* ------------------------------------------------------------------ the operation cache (_cache.py) and the three lookups *)
Record entry := { e_path : str; e_method : str; e_scope : str; e_item : json; e_op : json }.
Definition tkey := (str * str * str)%type.
Definition tkey_eqb (a b : tkey) : bool :=
  let '(a1, a2, a3) := a in let '(b1, b2, b3) := b in str_eqb a1 b1 && str_eqb a2 b2 && str_eqb a3 b3.

Record cache := {
  c_defs : list (json * entry);        (* _id_to_definition *)
  c_ids : list (json * nat);           (* _id_to_operation *)
  c_tks : list (tkey * nat);           (* _traversal_key_to_operation *)
  c_refs : list (str * nat);           (* _reference_to_operation *)
  c_ops : list operation;              (* _operations *)
  c_maps : list (str * (str * json)) } (* _maps: path -> (scope, path item) *).

Definition empty_cache : cache :=
  {| c_defs := []; c_ids := []; c_tks := []; c_refs := []; c_ops := []; c_maps := [] |}.

Fixpoint kget {K V} (eqb : K -> K -> bool) (k : K) (l : list (K * V)) : option V :=
  match l with [] => None | (k', x) :: r => if eqb k k' then Some x else kget eqb k r end.
Fixpoint kset {K V} (eqb : K -> K -> bool) (k : K) (x : V) (l : list (K * V)) : list (K * V) :=
  match l with
  | [] => [(k, x)]
  | (k', x') :: r => if eqb k k' then (k', x) :: r else (k', x') :: kset eqb k x r
  end.

Definition op_at (c : cache) (idx : nat) : option operation := nth_error (c_ops c) idx.
Definition by_tk (c : cache) (tk : tkey) : option operation :=
  match kget tkey_eqb tk (c_tks c) with Some i => op_at c i | None => None end.
Definition by_id (c : cache) (id : json) : option operation :=
  match kget py_eq id (c_ids c) with Some i => op_at c i | None => None end.
Definition by_ref (c : cache) (r : str) : option operation :=
  match kget str_eqb r (c_refs c) with Some i => op_at c i | None => None end.

Definition with_defs (c : cache) (d : list (json * entry)) : cache :=
  {| c_defs := d; c_ids := c_ids c; c_tks := c_tks c; c_refs := c_refs c; c_ops := c_ops c; c_maps := c_maps c |}.
Definition with_map (c : cache) (p : str) (m : str * json) : cache :=
  {| c_defs := c_defs c; c_ids := c_ids c; c_tks := c_tks c; c_refs := c_refs c; c_ops := c_ops c;
     c_maps := kset str_eqb p m (c_maps c) |}.

(* _cache.py:81 insert_operation: append, traversal key, then the optional keys (hashing an
   unhashable operationId raises after the first two steps) *)
Definition insert_operation (c : cache) (o : operation) (tk : tkey) (id : option json) (rf : option str) : cache * option exc :=
  let idx := List.length (c_ops c) in
  let c1 := {| c_defs := c_defs c; c_ids := c_ids c; c_tks := kset tkey_eqb tk idx (c_tks c); c_refs := c_refs c;
               c_ops := c_ops c ++ [o]; c_maps := c_maps c |} in
  match id with
  | Some i =>
      if hashable i then
        ({| c_defs := c_defs c1; c_ids := kset py_eq i idx (c_ids c1); c_tks := c_tks c1; c_refs := c_refs c1;
            c_ops := c_ops c1; c_maps := c_maps c1 |}, None)
      else (c1, Some EType)
  | None =>
      match rf with
      | Some r => ({| c_defs := c_defs c1; c_ids := c_ids c1; c_tks := c_tks c1; c_refs := kset str_eqb r idx (c_refs c1);
                      c_ops := c_ops c1; c_maps := c_maps c1 |}, None)
      | None => (c1, None)
      end
  end.

Definition finish (c : cache) (tk : tkey) (build : res operation) (id : operation -> option json) (rf : option str)
  : res operation * cache :=
  match by_tk c tk with
  | Some o => (Val o, c)
  | None =>
      match build with
      | Raise e => (Raise e, c)
      | Val o => match insert_operation c o tk (id o) rf with
                 | (c', None) => (Val o, c')
                 | (c', Some e) => (Raise e, c')
                 end
      end
  end.

(* requests CaseInsensitiveDict built from the path item: the last key with the same lower-case form wins *)
Fixpoint ci_get (k : str) (kvs : list (str * json)) : option json :=
  match kvs with
  | [] => None
  | (k', x) :: r => match ci_get k r with
                    | Some y => Some y
                    | None => if str_eqb (lower_ascii k') (lower_ascii k) then Some x else None
                    end
  end.
Definition ci_dict (item : json) : res (list (str * json)) :=
  match item with
  | JObj kvs => Val kvs
  | JNull | JArr [] | JStr [] => Val []
  | JStr _ => Raise EValue
  | JInt _ | JBool _ => Raise EType
  | JArr _ => Raise EOther
  end.

(* schemas.py:117 _get_operation_map, behind BaseSchema.__getitem__ (KeyError -> OperationNotFound) *)
Definition fresh_map (doc : json) (path : str) : res (str * json) :=
  do paths <- py_get_d doc k_paths (JObj []);
  do pi <- match py_item paths path with Raise EKey => Raise ENotFound | r => r end;
  do '(scope, item) <- resolve_path_item doc pi;
  do kvs <- ci_dict item;
  Val (scope, JObj kvs).

Definition get_map (doc : json) (c : cache) (path : str) : res (str * json) * cache :=
  match kget str_eqb path (c_maps c) with
  | Some m => (Val m, c)
  | None => match fresh_map doc path with
            | Val m => (Val m, with_map c path m)
            | Raise e => (Raise e, c)
            end
  end.

Definition to_lookup_error {A} (r : res A) : res A :=
  match r with Raise EKey => Raise ELookup | _ => r end.

Definition id_of_resolved (o : operation) : option json :=
  match o_resolved o with
  | JObj kvs => match assoc_get k_operationId kvs with Some JNull | None => None | Some x => Some x end
  | _ => None
  end.

(* schemas.py:890 MethodMap._init_operation + __getitem__ *)
Definition build_by_path (v : version) (doc : json) (path method : str) (scope : str) (item_kvs : list (str * json)) (opj : json)
  : res operation :=
  do resolved <- resolve_op doc opj;
  let shared_raw := match ci_get k_parameters item_kvs with Some x => x | None => JArr [] end in
  do shared <- resolve_op doc shared_raw;
  build_op v doc path method shared opj resolved scope.

Definition access_get (v : version) (doc : json) (c : cache) (path method : str) : res operation * cache :=
  match get_map doc c path with
  | (Raise e, c1) => (Raise e, c1)
  | (Val (scope, item), c1) =>
      let kvs := match item with JObj kvs => kvs | _ => [] end in
      let m := lower_ascii method in
      match ci_get m kvs with
      | None => (Raise ELookup, c1)
      | Some opj =>
          let '(r, c2) := finish c1 (scope, path, m) (build_by_path v doc path m scope kvs opj) id_of_resolved None in
          (to_lookup_error r, c2)
      end
  end.

(* schemas.py:492 _populate_operation_id_cache: an exception leaves the entries inserted so far *)
Fixpoint populate_entries (path scope : str) (item : json) (kvs : list (str * json)) (defs : list (json * entry))
  : list (json * entry) * option exc :=
  match kvs with
  | [] => (defs, None)
  | (key, e) :: r =>
      if negb (is_http_method key) then populate_entries path scope item r defs
      else match py_in k_operationId e with
           | Raise x => (defs, Some x)
           | Val false => populate_entries path scope item r defs
           | Val true =>
               match py_item e k_operationId with
               | Raise x => (defs, Some x)
               | Val id =>
                   if hashable id
                   then populate_entries path scope item r
                          (kset py_eq id {| e_path := path; e_method := key; e_scope := scope; e_item := item; e_op := e |} defs)
                   else (defs, Some EType)
               end
           end
  end.

Fixpoint populate_paths (doc : json) (paths : list (str * json)) (defs : list (json * entry)) : list (json * entry) * option exc :=
  match paths with
  | [] => (defs, None)
  | (path, pi) :: r =>
      match (do has <- py_in k_ref pi;
             do '(scope, item) <- (if has then do x <- py_item pi k_ref; resolve_value doc x else Val ([], pi));
             do kvs <- py_items item;
             Val (scope, item, kvs)) with
      | Raise e => (defs, Some e)
      | Val (scope, item, kvs) =>
          match populate_entries path scope item kvs defs with
          | (defs', Some e) => (defs', Some e)
          | (defs', None) => populate_paths doc r defs'
          end
      end
  end.

Definition populate (doc : json) (defs : list (json * entry)) : list (json * entry) * option exc :=
  match py_get_d doc k_paths (JObj []) with
  | Raise e => (defs, Some e)
  | Val paths => match py_items paths with
                 | Raise e => (defs, Some e)
                 | Val kvs => populate_paths doc kvs defs
                 end
  end.

Definition build_by_id (v : version) (doc : json) (en : entry) : res operation :=
  do resolved <- resolve_op doc (e_op en);
  do shared <- shared_parameters doc (e_item en);
  build_op v doc (e_path en) (e_method en) shared (e_op en) resolved (e_scope en).

(* difflib.get_close_matches over the known ids raises TypeError when one of them is not a string *)
Definition missing_id_error (defs : list (json * entry)) : exc :=
  if forallb (fun kv => match fst kv with JStr _ => true | _ => false end) defs then ENotFound else EType.

(* schemas.py:467 get_operation_by_id *)
Definition access_id (v : version) (doc : json) (c : cache) (id : str) : res operation * cache :=
  match by_id c (JStr id) with
  | Some o => (Val o, c)
  | None =>
      let '(c1, crash) := if is_nil (c_defs c)
                          then let '(d, x) := populate doc (c_defs c) in (with_defs c d, x)
                          else (c, None) in
      match crash with
      | Some e => (Raise e, c1)
      | None =>
          match kget py_eq (JStr id) (c_defs c1) with
          | None => (Raise (missing_id_error (c_defs c1)), c1)
          | Some en =>
              finish c1 (e_scope en, e_path en, e_method en) (build_by_id v doc en) (fun _ => Some (JStr id)) None
          end
      end
  end.

Definition last_two (l : list str) : option (str * str) :=
  match rev l with m :: p :: _ => Some (p, m) | _ => None end.
(* reference.rsplit(/, 1)[0] when there is a slash *)
Definition before_last_slash (s : str) : option str :=
  match rev (split_on 47 s) with
  | _ :: (_ :: _) as r => Some (join [47%N] (rev r))
  | _ => None
  end.

Definition build_by_ref (v : version) (doc : json) (reference url path method : str) (opj : json) : res operation :=
  do resolved <- resolve_op doc opj;
  do parent <- match before_last_slash reference with Some p => Val p | None => Raise EValue end;
  do '(_, path_item) <- resolve doc parent;
  do shared <- shared_parameters doc path_item;
  build_op v doc path method shared opj resolved url.

(* schemas.py:516 get_operation_by_reference *)
Definition access_ref (v : version) (doc : json) (c : cache) (reference : str) : res operation * cache :=
  match by_ref c reference with
  | Some o => (Val o, c)
  | None =>
      match resolve doc reference with
      | Raise e => (Raise e, c)
      | Val (url, opj) =>
          match last_two (split_on 47 url) with
          | None => (Raise EValue, c)
          | Some (p, method) =>
              let path := unescape p in
              finish c ([], path, method) (build_by_ref v doc reference url path method opj) (fun _ => None) (Some reference)
          end
      end
  end.

Inductive access := AIter | AGet (path method : str) | AById (id : str) | AByRef (reference : str).
Inductive result := RIter (r : list item * option exc) | ROp (r : res operation).

Definition step (v : version) (doc : json) (c : cache) (a : access) : result * cache :=
  match a with
  | AIter => (RIter (get_all_operations v doc), c)
  | AGet p m => let '(r, c') := access_get v doc c p m in (ROp r, c')
  | AById i => let '(r, c') := access_id v doc c i in (ROp r, c')
  | AByRef r => let '(x, c') := access_ref v doc c r in (ROp x, c')
  end.

Fixpoint run (v : version) (doc : json) (c : cache) (accs : list access) : list result :=
  match accs with
  | [] => []
  | a :: r => let '(x, c') := step v doc c a in x :: run v doc c' r
  end.

Definition fresh (v : version) (doc : json) (a : access) : result := fst (step v doc empty_cache a).

(* ------------------------------------------------------------------ what is observed of an operation *)
Definition conv_id (j : json) : json := j.

Record op_view := {
  v_path : str; v_method : str; v_scope : str; v_raw : json;
  v_locs : list (res (list (json * json) * list json));      (* path, header, cookie, query: properties, required *)
  v_body : list (json * res json * bool) }.                   (* media type, schema, required *)

Definition view (conv : json -> json) (v : version) (o : operation) : op_view :=
  {| v_path := o_path o; v_method := o_method o; v_scope := o_scope o; v_raw := o_raw o;
     v_locs := map (params_to_schema conv v) [o_pathp o; o_headers o; o_cookies o; o_query o];
     v_body := map (fun p => (p_media p, as_schema conv v p,
                              match p_required p with Val r => truthy r | Raise _ => false end)) (o_body o) |}.

Inductive item_view := VOk (o : op_view) | VErr (path : str) (method : option str).
Definition item_view_of (conv : json -> json) (v : version) (i : item) : item_view :=
  match i with IOk o => VOk (view conv v o) | IErr p m _ => VErr p m end.

Inductive result_view := WIter (items : list item_view) (crash : option exc) | WOp (r : res op_view).
Definition result_view_of (conv : json -> json) (v : version) (r : result) : result_view :=
  match r with
  | RIter (items, crash) => WIter (map (item_view_of conv v) items) crash
  | ROp (Val o) => WOp (Val (view conv v o))
  | ROp (Raise e) => WOp (Raise e)
  end.

Definition run_views (v : version) (doc : json) (accs : list access) : list result_view :=
  map (result_view_of conv_id v) (run v doc empty_cache accs).
Definition fresh_views (v : version) (doc : json) (accs : list access) : list result_view :=
  map (fun a => result_view_of conv_id v (fresh v doc a)) accs.

(* ------------------------------------------------------------------ specification helpers and region predicates *)
Fixpoint last_match (ps : list param) (name : json) : option param :=
  match ps with
  | [] => None
  | p :: r => match last_match r name with
              | Some q => Some q
              | None => match p_name p with Val n => if py_eq n name then Some p else None | Raise _ => None end
              end
  end.

Fixpoint first_match (ps : list param) (name : json) : option param :=
  match ps with
  | [] => None
  | p :: r => match p_name p with
              | Val n => if py_eq n name then Some p else first_match r name
              | Raise _ => None
              end
  end.

(* names pairwise different inside one container *)
Fixpoint names_unique (ps : list param) : bool :=
  match ps with
  | [] => true
  | p :: r => match p_name p with
              | Val n => negb (existsb (fun q => match p_name q with Val m => py_eq m n | Raise _ => true end) r) && names_unique r
              | Raise _ => false
              end
  end.


(* region of C08_every_operation_ok_or_err_partial: the generator is not ended by an exception *)
Definition iteration_completes (v : version) (doc : json) : bool :=
  match snd (get_all_operations v doc) with None => true | Some _ => false end.

(* ------------------------------------------------------------------ region predicate of C08_cache_refines_fresh_partial *)
(* the cache-independent part of a lookup: traversal key, the operation that would be built,
   the operationId and the reference it would be stored under *)
Definition plan := (tkey * res operation * (operation -> option json) * option str)%type.

Definition pgo (v : version) (doc : json) (a : access) : option plan :=
  match a with
  | AIter => None
  | AGet p m =>
      match fresh_map doc p with
      | Val (scope, item) =>
          let kvs := match item with JObj kvs => kvs | _ => [] end in
          match ci_get (lower_ascii m) kvs with
          | Some opj => Some ((scope, p, lower_ascii m), build_by_path v doc p (lower_ascii m) scope kvs opj, id_of_resolved, None)
          | None => None
          end
      | Raise _ => None
      end
  | AById i =>
      match populate doc [] with
      | (defs, None) =>
          match kget py_eq (JStr i) defs with
          | Some en => Some ((e_scope en, e_path en, e_method en), build_by_id v doc en, fun _ => Some (JStr i), None)
          | None => None
          end
      | _ => None
      end
  | AByRef r =>
      match resolve doc r with
      | Val (url, opj) =>
          match last_two (split_on 47 url) with
          | Some (p, m) => Some (([], unescape p, m), build_by_ref v doc r url (unescape p) m opj, fun _ => None, Some r)
          | None => None
          end
      | Raise _ => None
      end
  end.

Definition id_ok (i : option json) : bool := match i with Some x => hashable x | None => true end.

Fixpoint list_eqb {A} (eqb : A -> A -> bool) (a b : list A) : bool :=
  match a, b with
  | [], [] => true
  | x :: a', y :: b' => eqb x y && list_eqb eqb a' b'
  | _, _ => false
  end.
Definition param_eqb (a b : param) : bool :=
  match a, b with
  | PParam x, PParam y => json_eqb x y
  | PBody20 x m, PBody20 y n => json_eqb x y && json_eqb m n
  | PBody30 x m r, PBody30 y n s => json_eqb x y && json_eqb m n && json_eqb r s
  | PComposite x m, PComposite y n => list_eqb json_eqb x y && json_eqb m n
  | _, _ => false
  end.
(* everything but the scope *)
Definition op_core (o : operation) :=
  (o_path o, o_method o, o_raw o, o_resolved o, (o_pathp o, o_headers o, o_cookies o, o_query o, o_body o)).
Definition op_core_eqb (a b : operation) : bool :=
  str_eqb (o_path a) (o_path b) && str_eqb (o_method a) (o_method b) && json_eqb (o_raw a) (o_raw b)
  && json_eqb (o_resolved a) (o_resolved b)
  && list_eqb param_eqb (o_pathp a) (o_pathp b) && list_eqb param_eqb (o_headers a) (o_headers b)
  && list_eqb param_eqb (o_cookies a) (o_cookies b) && list_eqb param_eqb (o_query a) (o_query b)
  && list_eqb param_eqb (o_body a) (o_body b).

Definition is_by_id (a : access) : bool := match a with AById _ => true | _ => false end.
Definition populate_ok (doc : json) : bool := match snd (populate doc []) with None => true | Some _ => false end.

(* the operation a lookup builds can be stored: its operationId is hashable *)
Definition self_ok (v : version) (doc : json) (a : access) : bool :=
  match pgo v doc a with
  | Some (_, Val o, idf, _) => id_ok (idf o)
  | _ => true
  end.

(* two lookups that address the same cache entry (same traversal key, or b is by the operationId
   under which a stores its operation) build the same operation, for the given notion of same *)
Definition pair_ok_gen (eqb : operation -> operation -> bool) (v : version) (doc : json) (a b : access) : bool :=
  match pgo v doc a with
  | Some (tka, Val oa, idfa, _) =>
      match pgo v doc b with
      | Some (tkb, bb, _, _) =>
          (negb (tkey_eqb tka tkb) || match bb with Val ob => eqb oa ob | Raise _ => false end)
          && match idfa oa, b with
             | Some i, AById j => negb (py_eq (JStr j) i) || match bb with Val ob => eqb oa ob | Raise _ => false end
             | _, _ => true
             end
      | None => match idfa oa, b with
                | Some i, AById j => negb (py_eq (JStr j) i)
                | _, _ => true
                end
      end
  | _ => true
  end.

Definition coherent_gen (eqb : operation -> operation -> bool) (v : version) (doc : json) (U : list access) : bool :=
  forallb (self_ok v doc) U
  && forallb (fun a => forallb (pair_ok_gen eqb v doc a) U) U
  && (negb (existsb is_by_id U) || populate_ok doc).

(* same operation up to the recorded scope / same operation *)
Definition op_full_eqb (a b : operation) : bool := op_core_eqb a b && str_eqb (o_scope a) (o_scope b).
Definition pair_ok := pair_ok_gen op_core_eqb.
Definition coherent := coherent_gen op_core_eqb.
Definition coherent_strict := coherent_gen op_full_eqb.

(* ------------------------------------------------------------------ security-derived parameters: specification helpers
   (added after the seeded regression C08_c: the already-defined test of process_definitions is by (name, location)) *)
(* security.py:49 _get_active_definitions: the definitions whose key occurs in the requirements of the operation *)
Definition active_definitions (v : version) (doc raw : json) : res (list json) :=
  do defs <- security_definitions v doc;
  do reqs <- security_requirements doc raw;
  do kvs <- py_items defs;
  Val (map snd (filter (fun kv => existsb (py_eq (JStr (fst kv))) reqs) kvs)).

Definition loc_eqb (a b : loc) : bool :=
  match a, b with
  | LPath, LPath | LHeader, LHeader | LCookie, LCookie | LQuery, LQuery | LBody, LBody => true
  | _, _ => false
  end.

(* the container add_parameter puts a parameter in (none for an unknown location) *)
Definition goes_to (c : loc) (p : param) : bool :=
  match p_location p with
  | Val l => match loc_of l with Some c' => loc_eqb c c' | None => false end
  | Raise _ => false
  end.

(* the parameters declared for the operation (operation level first, then path level) that live in container c *)
Definition declared_in (c : loc) (params : list param) : list param := filter (goes_to c) params.

(* what is observed: the names held by each of the four non-body containers, in order, duplicates kept *)
Definition container_names (o : operation) (c : loc) : res (list json) := map_res p_name (container o c).
Definition KEY_LOCS : list loc := [LPath; LHeader; LCookie; LQuery].
Definition op_keys (o : operation) : list (res (list json)) := map (container_names o) KEY_LOCS.
Definition fresh_keys (v : version) (doc : json) (a : access) : res (list (res (list json))) :=
  match fresh v doc a with
  | ROp (Val o) => Val (op_keys o)
  | ROp (Raise e) => Raise e
  | RIter _ => Raise EOther
  end.

(* an active apiKey definition d asks for the key (name n, container c) *)
Definition api_key_of (d : json) : option (json * loc) :=
  match py_item d k_type, py_get d k_name, py_get d k_in with
  | Val ty, Val (Some n), Val (Some l) =>
      if json_eqb ty (JStr s_apiKey) && negb (json_eqb n JNull)
      then match loc_of l with Some c => Some (n, c) | None => None end
      else None
  | _, _, _ => None
  end.

(* executable form of the conclusion of C08_security_parameters_effective for one built operation:
   every key an active apiKey definition asks for is held by ITS container, whatever the other containers hold *)
Definition security_keys_present (active : list json) (o : operation) : bool :=
  forallb (fun d => match api_key_of d with
                    | Some (n, c) => match set_get (container o c) n with Val (Some _) => true | _ => false end
                    | None => true
                    end) active.

(* the same conclusion evaluated on what the IMPLEMENTATION holds: the parameter definitions found in the four
   containers of a real APIOperation (rendered by the harness), against the active definitions the model derives
   from the document *)
Definition observed_op (raw : json) (pp hh cc qq : list json) : operation :=
  {| o_path := []; o_method := []; o_raw := raw; o_resolved := raw; o_scope := [];
     o_pathp := map PParam pp; o_headers := map PParam hh; o_cookies := map PParam cc; o_query := map PParam qq; o_body := [] |}.
Definition observed_keys_present (v : version) (doc raw : json) (pp hh cc qq : list json) : res bool :=
  do active <- active_definitions v doc raw;
  Val (security_keys_present active (observed_op raw pp hh cc qq)).

(* ------------------------------------------------------------------ JSON-pointer escaping of path keys
   (added after the seeded regression C08_d: the token decoding of get_operation_by_reference and of the link
   statistic applied the two RFC 6901 substitutions in the other order) *)
(* schemas.py (base) :783 APIOperation.operation_reference: path.replace(~, ~0).replace(/, ~1) *)
Definition escape_pointer (s : str) : str := replace_char 47 [126; 49]%N (replace_char 126 [126; 48]%N s).
Definition reference_of (path method : str) : str := S "#/paths/" ++ escape_pointer path ++ 47%N :: method.

(* schemas.py:526-527 (and :224-225 in the link statistic): the (path, method) derived from the URL a reference
   resolves at: scope.rsplit(/, maxsplit=2)[-2:], then the token decoding [dec] of the path *)
Definition path_of_url (dec : str -> str) (url : str) : option (str * str) :=
  match last_two (split_on 47 url) with Some (p, m) => Some (dec p, m) | None => None end.
Definition path_of_reference (r : str) : option (str * str) := path_of_url unescape (rstrip_slash r).

(* sentinel, NOT the code: the same two substitutions in the other order (~0 first) *)
Definition unescape_wrong (s : str) : str := repl2 126 49 47 (repl2 126 48 126 s).

(* is_link_selected of _measure_statistic (schemas.py:218-230) for a link with operationRef: the (method, path)
   looked up among the selected operations; any exception gives None (the link is not counted) *)
Definition operation_ref_target (doc : json) (operation_ref : json) : option (str * str) :=
  match resolve_value doc operation_ref with
  | Val (url, _) => match path_of_url unescape url with Some (p, m) => Some (m, p) | None => None end
  | Raise _ => None
  end.

(* region of the reference theorems: the document has an inline path item (no $ref) under the key p, p is not
   empty and has no percent sign, m is one of the eight method keys, present as written, and the case-insensitive
   view MethodMap uses agrees with the plain keys for m and for parameters *)
Definition opt_json_eqb (a b : option json) : bool :=
  match a, b with Some x, Some y => json_eqb x y | None, None => true | _, _ => false end.
Definition entry_of (doc : json) (p : str) : option (list (str * json)) :=
  match doc with
  | JObj top => match assoc_get k_paths top with
                | Some (JObj paths) => match assoc_get p paths with Some (JObj kvs) => Some kvs | _ => None end
                | _ => None
                end
  | _ => None
  end.
Definition plain_entry (doc : json) (p m : str) : bool :=
  match entry_of doc p with
  | Some kvs =>
      negb (is_nil p) && negb (mem 37 p) && is_http_method m && negb (assoc_mem k_ref kvs)
      && assoc_mem m kvs
      && opt_json_eqb (ci_get m kvs) (assoc_get m kvs)
      && opt_json_eqb (ci_get k_parameters kvs) (assoc_get k_parameters kvs)
  | None => false
  end.

(* an access that is a lookup of a plain entry by path and method or by the reference operation_reference gives *)
Definition plain_access (doc : json) (a : access) : bool :=
  match a with
  | AGet p m => plain_entry doc p m
  | AByRef r =>
      match path_of_reference r with
      | Some (p, m) => plain_entry doc p m && str_eqb r (reference_of p m)
      | None => false
      end
  | _ => false
  end.
