(* C08 model, part 1: Python duck-typed primitives over JSON, local reference resolution,
   resolve_all, parameters, collect_parameters (2.0 / 3.0), add_parameter, security
   parameters, parameters_to_json_schema, get_all_operations, and the operation cache
   as a state machine.  Executable definitions only.
   Source: /repo/src/schemathesis/specs/openapi/{schemas,_cache,references,parameters,security}.py,
   /repo/src/schemathesis/schemas.py.  Exceptions are constructors of [exc]. *)
From Coq Require Import List NArith ZArith Bool.
From Coq Require String Ascii.
Delimit Scope string_scope with string.
From Verif Require Import Common.Str Common.Json.
Import ListNotations.

Definition S (s : String.string) : str := map Ascii.N_of_ascii (String.list_ascii_of_string s).
Arguments S s%string.

(* ------------------------------------------------------------------ exceptions *)
Inductive exc :=
| EKey | EAttr | ERef | EInvalid          (* SCHEMA_PARSING_ERRORS, schemas.py:75 *)
| EType | EValue | EStop
| ENotFound                               (* OperationNotFound *)
| ELookup                                 (* LookupError raised by MethodMap.__getitem__ *)
| EOther                                  (* an exception class the model does not pin down *)
| ETruncated                              (* not Python: RECURSION_DEPTH_LIMIT reached, remove_optional_references is not modelled *)
| EFuel.                                  (* not Python: fuel exhausted *)

Definition exc_eqb (a b : exc) : bool :=
  match a, b with
  | EKey, EKey | EAttr, EAttr | ERef, ERef | EInvalid, EInvalid | EType, EType | EValue, EValue
  | EStop, EStop | ENotFound, ENotFound | ELookup, ELookup | EOther, EOther | ETruncated, ETruncated | EFuel, EFuel => true
  | _, _ => false
  end.

Definition caught (e : exc) : bool :=
  match e with EKey | EAttr | ERef | EInvalid => true | _ => false end.

Inductive res (A : Type) := Val (a : A) | Raise (e : exc).
Arguments Val {A} a.
Arguments Raise {A} e.

Definition bind {A B} (r : res A) (f : A -> res B) : res B :=
  match r with Val a => f a | Raise e => Raise e end.
Notation "'do' x <- r ; k" := (bind r (fun x => k)) (at level 200, x name, r at level 100, k at level 200).
Notation "'do' ' p <- r ; k" := (bind r (fun x => let 'p := x in k)) (at level 200, p pattern, r at level 100, k at level 200).

Fixpoint map_res {A B} (f : A -> res B) (l : list A) : res (list B) :=
  match l with
  | [] => Val []
  | x :: r => do y <- f x; do ys <- map_res f r; Val (y :: ys)
  end.

(* ------------------------------------------------------------------ keys *)
Definition k_ref := S "$ref".
Definition k_paths := S "paths".
Definition k_parameters := S "parameters".
Definition k_in := S "in".
Definition k_name := S "name".
Definition k_required := S "required".
Definition k_schema := S "schema".
Definition k_content := S "content".
Definition k_requestBody := S "requestBody".
Definition k_description := S "description".
Definition k_consumes := S "consumes".
Definition k_components := S "components".
Definition k_securitySchemes := S "securitySchemes".
Definition k_securityDefinitions := S "securityDefinitions".
Definition k_security := S "security".
Definition k_type := S "type".
Definition k_scheme := S "scheme".
Definition k_format := S "format".
Definition k_operationId := S "operationId".
Definition k_example := S "example".
Definition k_examples := S "examples".
Definition k_xexample := S "x-example".
Definition k_xexamples := S "x-examples".
Definition k_value := S "value".
Definition k_nullable := S "nullable".
Definition k_xnullable := S "x-nullable".
Definition s_header := S "header".
Definition s_cookie := S "cookie".
Definition s_query := S "query".
Definition s_path := S "path".
Definition s_body := S "body".
Definition s_formData := S "formData".
Definition s_apiKey := S "apiKey".
Definition s_http := S "http".
Definition s_basic := S "basic".
Definition s_string := S "string".
Definition s_object := S "object".
Definition s_Authorization := S "Authorization".
Definition s_json_media := S "application/json".
Definition s_multipart := S "multipart/form-data".
Definition s_urlencoded := S "application/x-www-form-urlencoded".

Definition HTTP_METHODS : list str :=
  [S "get"; S "put"; S "post"; S "delete"; S "options"; S "head"; S "patch"; S "trace"].
Definition is_http_method (m : str) : bool := existsb (str_eqb m) HTTP_METHODS.

(* ------------------------------------------------------------------ Python on JSON values *)
Fixpoint is_infix (p s : str) : bool :=
  starts_with p s || match s with [] => false | _ :: s' => is_infix p s' end.

Definition is_nil {A} (l : list A) : bool := match l with [] => true | _ => false end.

Definition truthy (j : json) : bool :=
  match j with
  | JNull => false | JBool b => b | JInt z => negb (Z.eqb z 0)
  | JStr s => negb (is_nil s) | JArr l => negb (is_nil l) | JObj l => negb (is_nil l)
  end.

Definition hashable (j : json) : bool := match j with JArr _ | JObj _ => false | _ => true end.

Definition num_of (j : json) : option Z :=
  match j with JBool b => Some (if b then 1 else 0)%Z | JInt z => Some z | _ => None end.
(* == on values (True == 1) *)
Definition py_eq (a b : json) : bool :=
  match num_of a, num_of b with Some x, Some y => Z.eqb x y | _, _ => json_eqb a b end.

(* k in j *)
Definition py_in (k : str) (j : json) : res bool :=
  match j with
  | JObj kvs => Val (assoc_mem k kvs)
  | JArr l => Val (existsb (json_eqb (JStr k)) l)
  | JStr s => Val (is_infix k s)
  | _ => Raise EType
  end.
(* j.get(k) *)
Definition py_get (j : json) (k : str) : res (option json) :=
  match j with JObj kvs => Val (assoc_get k kvs) | _ => Raise EAttr end.
Definition py_get_d (j : json) (k : str) (d : json) : res json :=
  do o <- py_get j k; Val (match o with Some v => v | None => d end).
(* j[k] for a string k *)
Definition py_item (j : json) (k : str) : res json :=
  match j with
  | JObj kvs => match assoc_get k kvs with Some v => Val v | None => Raise EKey end
  | _ => Raise EType
  end.
Definition py_items (j : json) : res (list (str * json)) :=
  match j with JObj kvs => Val kvs | _ => Raise EAttr end.
Definition py_values (j : json) : res (list json) := do kvs <- py_items j; Val (map snd kvs).
(* iter(j) *)
Definition py_iter (j : json) : res (list json) :=
  match j with
  | JArr l => Val l
  | JObj kvs => Val (map (fun kv => JStr (fst kv)) kvs)
  | JStr s => Val (map (fun c => JStr [c]) s)
  | _ => Raise EType
  end.

(* ------------------------------------------------------------------ local references
   jsonschema.RefResolver.resolve / resolve_fragment for references into the document itself
   (base URI empty).  unquote is the identity on the modelled fragment (no percent sign);
   anchors and ids are not searched. *)
Fixpoint repl2 (a b by_ : N) (s : str) : str :=
  match s with
  | x :: ((y :: r) as t) => if N.eqb x a && N.eqb y b then by_ :: repl2 a b by_ r else x :: repl2 a b by_ t
  | _ => s
  end.
Definition unescape (s : str) : str := repl2 126 48 126 (repl2 126 49 47 s).
Definition rstrip_slash (s : str) : str := rev (strip_left [47%N] (rev s)).

Definition parse_index (s : str) : option nat :=
  match s with
  | [] => None
  | _ => if forallb is_digit s
         then Some (fold_left (fun acc c => (acc * 10 + N.to_nat (c - 48))%nat) s O)
         else None
  end.

Definition pointer_step (d : json) (part : str) : option json :=
  match d with
  | JObj kvs => assoc_get part kvs
  | JArr l => match parse_index part with Some i => nth_error l i | None => None end
  | JStr s => match parse_index part with
              | Some i => match nth_error s i with Some c => Some (JStr [c]) | None => None end
              | None => None end
  | _ => None
  end.

Fixpoint pointer_walk (d : json) (parts : list str) : option json :=
  match parts with
  | [] => Some d
  | p :: r => match pointer_step d p with Some d' => pointer_walk d' r | None => None end
  end.

(* returns (url, value); url = urljoin(scope, ref).rstrip(/) = ref.rstrip(/) for fragment-only references *)
Definition resolve (doc : json) (ref : str) : res (str * json) :=
  let url := rstrip_slash ref in
  match url with
  | [] => Val ([], doc)
  | 35%N :: frag =>
      let frag := strip_left [47%N] frag in
      if is_nil frag then Val (url, doc)
      else match pointer_walk doc (map unescape (split_on 47 frag)) with
           | Some v => Val (url, v)
           | None => Raise ERef
           end
  | _ => Raise ERef    (* other files / remote: outside the model *)
  end.

(* resolver.resolve(x) for a value x taken from the document, at the root scope:
   urljoin of the empty base returns x itself, then x.rstrip raises AttributeError for a non-string *)
Definition resolve_value (doc : json) (x : json) : res (str * json) :=
  match x with JStr r => resolve doc r | _ => Raise EAttr end.

Definition FUEL : nat := 4000.
Definition RECURSION_DEPTH_LIMIT : nat := 100.
Definition START_LEVEL : nat := 92.     (* RECURSION_DEPTH_LIMIT - 8, schemas.py:283,286 *)

(* references.py:83 InliningResolver.resolve_all *)
Fixpoint resolve_all (fuel : nat) (doc : json) (item : json) (level : nat) : res json :=
  match fuel with
  | O => Raise EFuel
  | Datatypes.S f =>
    let sub := fun v => match v with JObj _ | JArr _ => resolve_all f doc v level | _ => Val v end in
    match item with
    | JObj kvs =>
        match assoc_get k_ref kvs with
        | Some (JStr r) =>
            do '(_, resolved) <- resolve doc r;
            if Nat.ltb RECURSION_DEPTH_LIMIT (level + 1) then Raise ETruncated
            else resolve_all f doc resolved (level + 1)
        | _ =>
            do kvs' <- (fix go (l : list (str * json)) : res (list (str * json)) :=
                          match l with
                          | [] => Val []
                          | (k, v) :: r => do v' <- sub v; do r' <- go r; Val ((k, v') :: r')
                          end) kvs;
            Val (JObj kvs')
        end
    | JArr l =>
        do l' <- (fix go (l : list json) : res (list json) :=
                    match l with
                    | [] => Val []
                    | v :: r => do v' <- sub v; do r' <- go r; Val (v' :: r')
                    end) l;
        Val (JArr l')
    | _ => Val item
    end
  end.

Definition resolve_op (doc : json) (j : json) : res json := resolve_all FUEL doc j START_LEVEL.

(* ------------------------------------------------------------------ parameters (parameters.py) *)
Inductive version := V20 | V30 | V31.
Definition is_v20 (v : version) : bool := match v with V20 => true | _ => false end.

Inductive param :=
| PParam (d : json)                                   (* OpenAPI20Parameter / OpenAPI30Parameter *)
| PBody20 (d : json) (media : json)                   (* OpenAPI20Body *)
| PBody30 (d : json) (media : json) (required : json) (* OpenAPI30Body: d is the media type object *)
| PComposite (ds : list json) (media : json).         (* OpenAPI20CompositeBody *)

(* parameters.py:33-43 location: the dict lookup hashes the raw value *)
Definition p_location (p : param) : res json :=
  match p with
  | PParam d => do raw <- py_item d k_in;
                if hashable raw then Val (if json_eqb raw (JStr s_formData) then JStr s_body else raw)
                else Raise EType
  | _ => Val (JStr s_body)
  end.
Definition p_name (p : param) : res json :=
  match p with PParam d => py_item d k_name | _ => Val (JStr s_body) end.
Definition p_required (p : param) : res json :=
  match p with
  | PParam d | PBody20 d _ => py_get_d d k_required (JBool false)
  | PBody30 _ _ r => Val r
  | PComposite ds _ => Val (JBool (negb (is_nil ds)))
  end.
Definition p_media (p : param) : json :=
  match p with PParam _ => JNull | PBody20 _ m | PBody30 _ m _ | PComposite _ m => m end.

(* schemas.py:78 check_header; requests _VALID_HEADER_NAME_RE_STR; every failure is a caught class *)
Definition is_ws (c : N) : bool := mem c [9;10;11;12;13;32;28;29;30;31;133;160]%N.
Definition header_name_ok (s : str) : bool :=
  match s with
  | [] => false
  | c :: r => forallb (fun x => N.ltb x 128) s && negb (N.eqb c 58) && negb (is_ws c)
              && forallb (fun x => negb (mem x [58;13;10]%N)) r
  end.
Definition check_header (p : json) : res unit :=
  do name <- py_item p k_name;
  if negb (truthy name) then Raise EInvalid
  else match name with
       | JStr s => if header_name_ok s then Val tt else Raise EInvalid
       | _ => Raise EAttr
       end.

Definition is_header_loc (loc : json) : bool := json_eqb loc (JStr s_header) || json_eqb loc (JStr s_cookie).

(* schemas.py:1130 OpenApi30.collect_parameters, loop part *)
Fixpoint collect30_loop (ps : list json) (acc : list param) : res (list param) :=
  match ps with
  | [] => Val acc
  | p :: r =>
      do loc <- py_item p k_in;
      do _ <- (if is_header_loc loc then check_header p else Val tt);
      collect30_loop r (acc ++ [PParam p])
  end.

Definition collect30_body (definition : json) (acc : list param) : res (list param) :=
  do has <- py_in k_requestBody definition;
  if has then
    do rb <- py_item definition k_requestBody;
    do required <- py_get_d rb k_required (JBool false);
    do _ <- py_get rb k_description;
    do content <- py_item rb k_content;
    do kvs <- py_items content;
    Val (acc ++ map (fun kv => PBody30 (snd kv) (JStr (fst kv)) required) kvs)
  else Val acc.

(* itertools.chain(parameters, shared) is consumed lazily: the second iterable is opened
   only after the first one is exhausted *)
Definition collect30 (params shared definition : json) : res (list param) :=
  do l1 <- py_iter params;
  do acc <- collect30_loop l1 [];
  do l2 <- py_iter shared;
  do acc <- collect30_loop l2 acc;
  collect30_body definition acc.

(* schemas.py:946 SwaggerV20.collect_parameters *)
Definition consumes_for (doc definition : json) : res json :=
  do g <- py_get_d doc k_consumes (JArr []);
  do c <- py_get_d definition k_consumes (JArr []);
  Val (if truthy c then c else g).

Fixpoint collect20_loop (body_media : list json) (ps : list json) (forms : list json) (acc : list param)
  : res (list json * list param) :=
  match ps with
  | [] => Val (forms, acc)
  | p :: r =>
      do loc <- py_item p k_in;
      if json_eqb loc (JStr s_formData) then collect20_loop body_media r (forms ++ [p]) acc
      else if json_eqb loc (JStr s_body) then
        collect20_loop body_media r forms (acc ++ map (fun m => PBody20 p m) body_media)
      else
        do _ <- (if is_header_loc loc then check_header p else Val tt);
        collect20_loop body_media r forms (acc ++ [PParam p])
  end.

Definition collect20 (doc params shared definition : json) : res (list param) :=
  do media <- consumes_for doc definition;
  let body_media := if truthy media then media else JArr [JStr s_json_media] in
  let form_media := if truthy media then media else JArr [JStr s_multipart] in
  do l1 <- py_iter params;
  (* the media types are iterated inside the loop, when the first body parameter is met;
     a non-iterable consumes therefore raises only if there is one *)
  let bm := match py_iter body_media with Val l => Some l | Raise _ => None end in
  let run := fun l forms acc =>
    match bm with
    | Some b => collect20_loop b l forms acc
    | None =>
        (* find the first element that raises or is a body parameter *)
        (fix go (ps : list json) (forms : list json) (acc : list param) : res (list json * list param) :=
           match ps with
           | [] => Val (forms, acc)
           | p :: r =>
               do loc <- py_item p k_in;
               if json_eqb loc (JStr s_formData) then go r (forms ++ [p]) acc
               else if json_eqb loc (JStr s_body) then Raise EType
               else do _ <- (if is_header_loc loc then check_header p else Val tt);
                    go r forms (acc ++ [PParam p])
           end) l forms acc
    end in
  do '(forms, acc) <- run l1 [] [];
  do l2 <- py_iter shared;
  do '(forms, acc) <- run l2 forms acc;
  if is_nil forms then Val acc
  else do fm <- py_iter form_media; Val (acc ++ map (fun m => PComposite forms m) fm).

Definition collect (v : version) (doc params shared definition : json) : res (list param) :=
  if is_v20 v then collect20 doc params shared definition else collect30 params shared definition.

(* ------------------------------------------------------------------ operations (schemas.py APIOperation) *)
Record operation := {
  o_path : str; o_method : str; o_raw : json; o_resolved : json; o_scope : str;
  o_pathp : list param; o_headers : list param; o_cookies : list param; o_query : list param; o_body : list param }.

Definition empty_op (path method : str) (raw resolved : json) (scope : str) : operation :=
  {| o_path := path; o_method := method; o_raw := raw; o_resolved := resolved; o_scope := scope;
     o_pathp := []; o_headers := []; o_cookies := []; o_query := []; o_body := [] |}.

Inductive loc := LPath | LHeader | LCookie | LQuery | LBody.
Definition loc_of (j : json) : option loc :=
  match j with
  | JStr s => if str_eqb s s_path then Some LPath else if str_eqb s s_header then Some LHeader
              else if str_eqb s s_cookie then Some LCookie else if str_eqb s s_query then Some LQuery
              else if str_eqb s s_body then Some LBody else None
  | _ => None
  end.
Definition container (o : operation) (l : loc) : list param :=
  match l with LPath => o_pathp o | LHeader => o_headers o | LCookie => o_cookies o | LQuery => o_query o | LBody => o_body o end.
Definition add_to (o : operation) (l : loc) (p : param) : operation :=
  match l with
  | LPath => {| o_path := o_path o; o_method := o_method o; o_raw := o_raw o; o_resolved := o_resolved o; o_scope := o_scope o;
                o_pathp := o_pathp o ++ [p]; o_headers := o_headers o; o_cookies := o_cookies o; o_query := o_query o; o_body := o_body o |}
  | LHeader => {| o_path := o_path o; o_method := o_method o; o_raw := o_raw o; o_resolved := o_resolved o; o_scope := o_scope o;
                o_pathp := o_pathp o; o_headers := o_headers o ++ [p]; o_cookies := o_cookies o; o_query := o_query o; o_body := o_body o |}
  | LCookie => {| o_path := o_path o; o_method := o_method o; o_raw := o_raw o; o_resolved := o_resolved o; o_scope := o_scope o;
                o_pathp := o_pathp o; o_headers := o_headers o; o_cookies := o_cookies o ++ [p]; o_query := o_query o; o_body := o_body o |}
  | LQuery => {| o_path := o_path o; o_method := o_method o; o_raw := o_raw o; o_resolved := o_resolved o; o_scope := o_scope o;
                o_pathp := o_pathp o; o_headers := o_headers o; o_cookies := o_cookies o; o_query := o_query o ++ [p]; o_body := o_body o |}
  | LBody => {| o_path := o_path o; o_method := o_method o; o_raw := o_raw o; o_resolved := o_resolved o; o_scope := o_scope o;
                o_pathp := o_pathp o; o_headers := o_headers o; o_cookies := o_cookies o; o_query := o_query o; o_body := o_body o ++ [p] |}
  end.

(* schemas.py (base) :649 add_parameter: an unknown location is ignored *)
Definition add_parameter (o : operation) (p : param) : res operation :=
  do l <- p_location p;
  Val (match loc_of l with Some c => add_to o c p | None => o end).

Fixpoint add_parameters (o : operation) (ps : list param) : res operation :=
  match ps with [] => Val o | p :: r => do o' <- add_parameter o p; add_parameters o' r end.

(* ParameterSet.get, schemas.py (base) :541 *)
Fixpoint set_get (ps : list param) (name : json) : res (option param) :=
  match ps with
  | [] => Val None
  | p :: r => do n <- p_name p; if py_eq n name then Val (Some p) else set_get r name
  end.
(* APIOperation.get_parameter :663 *)
Definition get_parameter (o : operation) (name location : json) : res (option param) :=
  if negb (hashable location) then Raise EType
  else match loc_of location with Some c => set_get (container o c) name | None => Val None end.

(* ------------------------------------------------------------------ security.py *)
Definition lower_json_str (j : json) : res str :=
  match j with JStr s => Val (lower_ascii s) | _ => Raise EAttr end.

Definition security_definitions (v : version) (doc : json) : res json :=
  if is_v20 v then py_get_d doc k_securityDefinitions (JObj [])
  else
    do components <- py_get_d doc k_components (JObj []);
    do schemes <- py_get_d components k_securitySchemes (JObj []);
    do has <- py_in k_ref schemes;
    if has then do r <- py_item schemes k_ref; do '(_, x) <- resolve_value doc r; Val x
    else
      do kvs <- py_items schemes;
      do kvs' <- map_res (fun kv =>
                   do h <- py_in k_ref (snd kv);
                   if h then do r <- py_item (snd kv) k_ref; do '(_, x) <- resolve_value doc r; Val (fst kv, x)
                   else Val kv) kvs;
      Val (JObj kvs').

Definition security_requirements (doc raw : json) : res (list json) :=
  do g <- py_get_d doc k_security (JArr []);
  do l <- py_get raw k_security;
  let reqs := match l with Some JNull | None => g | Some x => x end in
  do rs <- py_iter reqs;
  do keys <- map_res py_iter rs;
  Val (concat keys).

Definition api_key_param (v : version) (definition : json) : res json :=
  do n <- py_item definition k_name;
  do i <- py_item definition k_in;
  Val (JObj ([(k_name, n); (k_required, JBool true); (k_in, i)] ++
             (if is_v20 v then [(k_type, JStr s_string)] else [(k_schema, JObj [(k_type, JStr s_string)])]))).

Definition http_auth_param (v : version) (definition : json) : res json :=
  do sch <- py_get_d definition k_scheme (JStr s_basic);
  do low <- lower_json_str sch;
  let fmt := JStr (95%N :: low ++ S "_auth") in
  let schema := [(k_type, JStr s_string); (k_format, fmt)] in
  Val (JObj ([(k_name, JStr s_Authorization); (k_in, JStr s_header); (k_required, JBool true)] ++
             (if is_v20 v then schema else [(k_schema, JObj schema)]))).

(* security.py:22 process_definitions *)
Fixpoint process_definitions (v : version) (defs : list json) (o : operation) : res operation :=
  match defs with
  | [] => Val o
  | d :: r =>
      do name <- py_get d k_name;
      do location <- py_get d k_in;
      let skip :=
        match name, location with
        | Some n, Some l =>
            match n, l with
            | JNull, _ | _, JNull => Val false
            | _, _ => do g <- get_parameter o n l; Val (match g with Some _ => true | None => false end)
            end
        | _, _ => Val false
        end in
      do sk <- skip;
      if sk then process_definitions v r o
      else
        do ty <- py_item d k_type;
        do o1 <- (if json_eqb ty (JStr s_apiKey)
                  then do p <- api_key_param v d; add_parameter o (PParam p) else Val o);
        do ty2 <- py_item d k_type;
        do o2 <- (if json_eqb ty2 (JStr (if is_v20 v then s_basic else s_http))
                  then do p <- http_auth_param v d; add_parameter o1 (PParam p) else Val o1);
        process_definitions v r o2
  end.

Definition add_security (v : version) (doc : json) (o : operation) : res operation :=
  do defs <- security_definitions v doc;
  do reqs <- security_requirements doc (o_raw o);
  do kvs <- py_items defs;
  let active := map snd (filter (fun kv => existsb (py_eq (JStr (fst kv))) reqs) kvs) in
  process_definitions v active o.

(* schemas.py:412 make_operation (no servers / basePath handling, default with_security_parameters) *)
Definition make_operation (v : version) (doc : json) (path method : str) (params : list param)
           (raw resolved : json) (scope : str) : res operation :=
  do o <- add_parameters (empty_op path method raw resolved scope) params;
  add_security v doc o.
