(* C08 property theorems only.  Each is closed by [exact] of a lemma of Proofs_C08 and
   followed by Print Assumptions.  [conv] (to_json_schema_recursive, the concern of C01) is
   universally quantified. *)
From Coq Require Import List NArith ZArith Bool.
From Verif Require Import Common.Str Common.Json C08.Model_C08 C08.Proofs_C08.
From Coq Require String.
Import String.StringSyntax.
Import ListNotations.

(* The code as it is: in the object schema generated for one location, the property of a name is
   the schema of the LAST parameter with that name (operation-level parameters come first in the
   chain, path-level ones after them, so a path-level definition overwrites). *)
Theorem C08_generated_schema_is_last_definition : forall conv v ps pr name,
  params_to_schema conv v ps = Val pr ->
  match last_match ps name with
  | Some p => exists s, as_schema conv v p = Val s /\ jassoc_get name (fst pr) = Some s
  | None => jassoc_get name (fst pr) = None
  end.
Proof. exact generated_is_last. Qed.
Print Assumptions C08_generated_schema_is_last_definition.

(* Where no name occurs twice in a location, the generated property is the effective definition
   (the one ParameterSet.get returns: the operation-level one). *)
Theorem C08_effective_parameters_partial : forall conv v ps name,
  names_unique ps = true ->
  forall pr, params_to_schema conv v ps = Val pr ->
  effective_schema conv v ps name = Val (jassoc_get name (fst pr)) /\
  generated_schema conv v ps name = effective_schema conv v ps name.
Proof. exact effective_parameters. Qed.
Print Assumptions C08_effective_parameters_partial.

(* ... and with the same (name, location) at both levels the path-level definition is generated *)
Theorem C08_effective_parameters_refuted : exists doc o name,
  In (IOk o) (fst (get_all_operations V30 doc)) /\
  exists s_op s_path,
    effective_schema conv_id V30 (o_query o) name = Val (Some s_op) /\
    generated_schema conv_id V30 (o_query o) name = Val (Some s_path) /\
    s_op = JObj [(k_type, JStr s_string)] /\ s_path = JObj [(k_type, JStr [105;110;116;101;103;101;114]%N)] /\ s_op <> s_path.
Proof. exists doc_override, o_override, name_q. exact effective_parameters_refuted. Qed.
Print Assumptions C08_effective_parameters_refuted.

Theorem C08_effective_parameters_hypotheses_satisfiable : exists o,
  In (IOk o) (fst (get_all_operations V30 doc_good)) /\ names_unique (o_query o) = true /\ List.length (o_query o) = 2%nat.
Proof. exact names_unique_nonvacuous. Qed.
Print Assumptions C08_effective_parameters_hypotheses_satisfiable.

(* When the generator is not ended by an exception, every path of the document is accounted for:
   a path item that cannot be resolved is one Err naming the path; otherwise every HTTP-method key
   is either Ok with exactly the operation process_entry builds for it (same path, method, raw
   definition) or an Err naming path and method. *)
Theorem C08_every_operation_ok_or_err_partial : forall v doc,
  iteration_completes v doc = true ->
  forall paths path pi, py_item doc k_paths = Val (JObj paths) -> In (path, pi) paths ->
  accounted_path v doc (fst (get_all_operations v doc)) path pi.
Proof. exact every_operation_ok_or_err. Qed.
Print Assumptions C08_every_operation_ok_or_err_partial.

(* An exception that ends the generator is never of a class that is converted to Err *)
Theorem C08_crash_is_uncaught_class : forall v doc items e paths,
  py_item doc k_paths = Val (JObj paths) ->
  get_all_operations v doc = (items, Some e) -> caught e = false.
Proof. exact crash_not_caught. Qed.
Print Assumptions C08_crash_is_uncaught_class.

(* parameters: [5] in one operation: TypeError leaves the generator, the operations of that path
   and of every later path are neither offered nor reported *)
Theorem C08_every_operation_ok_or_err_refuted : exists doc paths path pi,
  py_item doc k_paths = Val (JObj paths) /\ In (path, pi) paths /\
  snd (get_all_operations V30 doc) = Some EType /\
  ~ accounted_path V30 doc (fst (get_all_operations V30 doc)) path pi.
Proof. exact every_operation_refuted. Qed.
Print Assumptions C08_every_operation_ok_or_err_refuted.

Theorem C08_every_operation_hypotheses_satisfiable :
  iteration_completes V30 doc_good = true /\
  exists o p m e p2 e2, fst (get_all_operations V30 doc_good) = [IOk o; IErr p (Some m) e; IErr p2 None e2].
Proof. exact completes_nonvacuous. Qed.
Print Assumptions C08_every_operation_hypotheses_satisfiable.

(* The operation cache refines fresh lookups: for every document and EVERY access sequence
   (iteration, by path and method, by operationId, by reference, in any order and number) whose
   lookups are pairwise coherent - two lookups that address the same cache entry build the same
   operation, built operations have a hashable operationId, and the id scan completes when a
   lookup by id occurs - each access returns what it returns on a fresh schema object: same path,
   method, raw and resolved definition and parameter containers (everything but the recorded scope,
   for which see the strict variant below). *)
Theorem C08_cache_refines_fresh_partial : forall v doc accs,
  coherent v doc accs = true ->
  map result_core (run v doc empty_cache accs) = map (fun a => result_core (fresh v doc a)) accs.
Proof. exact cache_refines_fresh. Qed.
Print Assumptions C08_cache_refines_fresh_partial.

(* With the recorded scope: under strict coherence (lookups that address the same cache entry build
   EQUAL operations, definition.scope included) the results are equal to the fresh ones as values, hence
   also the observed views (label, scope, per-location JSON Schemas, body alternatives) for any conv. *)
Theorem C08_cache_refines_fresh_strict_partial : forall v doc accs,
  coherent_strict v doc accs = true ->
  run v doc empty_cache accs = map (fresh v doc) accs.
Proof. exact cache_refines_fresh_strict. Qed.
Print Assumptions C08_cache_refines_fresh_strict_partial.

Theorem C08_cache_refines_fresh_views_partial : forall conv v doc accs,
  coherent_strict v doc accs = true ->
  map (result_view_of conv v) (run v doc empty_cache accs) = map (fun a => result_view_of conv v (fresh v doc a)) accs.
Proof. exact cache_refines_fresh_views. Qed.
Print Assumptions C08_cache_refines_fresh_views_partial.

(* ... and strictness is needed: get_operation_by_reference records the URL of the reference as scope
   and shares the cache entry of schema[path][method], which records the root scope *)
Theorem C08_cache_refines_fresh_strict_refuted : exists doc accs,
  run V30 doc empty_cache accs <> map (fresh V30 doc) accs
  /\ coherent V30 doc accs = true /\ coherent_strict V30 doc accs = false
  /\ exists o1 o2, nth_error (run V30 doc empty_cache accs) 1 = Some (ROp (Val o1))
                   /\ fresh V30 doc (AGet p_a m_get) = ROp (Val o2) /\ o_scope o1 = ref_a_get /\ o_scope o2 = [].
Proof. exists doc_good2, accs_ref_first. exact cache_strict_refuted. Qed.
Print Assumptions C08_cache_refines_fresh_strict_refuted.

Theorem C08_cache_strict_hypotheses_satisfiable :
  coherent_strict V30 doc_good2 accs_good_strict = true /\
  exists o, nth_error (run V30 doc_good2 empty_cache accs_good_strict) 1 = Some (ROp (Val o)) /\ List.length (o_query o) = 2%nat.
Proof. exact coherent_strict_nonvacuous. Qed.
Print Assumptions C08_cache_strict_hypotheses_satisfiable.

(* The scope an operation records is its own: a lookup by path and method or by operationId records the
   scope component of its traversal key (and the path and method of that key); a lookup by reference is
   keyed under the root scope and records the URL the reference resolves at. *)
Theorem C08_lookup_scope_is_own : forall v doc a tk idf rf o,
  pgo v doc a = Some (tk, Val o, idf, rf) ->
  match a with
  | AByRef r => fst (fst tk) = [] /\ exists opj, resolve doc r = Val (o_scope o, opj)
  | _ => o_scope o = fst (fst tk)
  end /\ o_path o = snd (fst tk) /\ o_method o = snd tk.
Proof. exact lookup_scope_is_key. Qed.
Print Assumptions C08_lookup_scope_is_own.

(* ... and the id scan records every operation with the scope, path item and definition of ITS OWN path:
   the root scope for an inline path item whatever precedes it, the URL of the reference for a path item
   behind $ref (also when the scan is interrupted: for the entries recorded so far). *)
Theorem C08_id_scan_scope_is_own : forall doc paths defs x,
  py_get_d doc k_paths (JObj []) = Val (JObj paths) ->
  populate doc [] = (defs, x) -> forall k en, In (k, en) defs ->
  exists pi, In (e_path en, pi) paths /\ resolve_path_item doc pi = Val (e_scope en, e_item en)
             /\ exists kvs, py_items (e_item en) = Val kvs /\ In (e_method en, e_op en) kvs.
Proof. exact populate_own. Qed.
Print Assumptions C08_id_scan_scope_is_own.

(* duplicated operationId: schema[/a][get] then get_operation_by_id(x) returns GET /a, a fresh schema returns GET /b *)
Theorem C08_cache_refines_fresh_refuted : exists doc accs,
  map result_core (run V30 doc empty_cache accs) <> map (fun a => result_core (fresh V30 doc a)) accs
  /\ coherent V30 doc accs = false.
Proof. exists doc_dup, accs_dup. exact cache_refuted_duplicate_id. Qed.
Print Assumptions C08_cache_refines_fresh_refuted.

(* an id scan interrupted by an unresolvable path item: the same lookup by id raises, then succeeds *)
Theorem C08_cache_refines_fresh_refuted_failed_scan : exists doc accs,
  map result_core (run V30 doc empty_cache accs) <> map (fun a => result_core (fresh V30 doc a)) accs
  /\ populate_ok doc = false.
Proof. exists doc_partial, accs_twice_id. exact cache_refuted_failed_scan. Qed.
Print Assumptions C08_cache_refines_fresh_refuted_failed_scan.

(* operationId: []: the lookup by path raises TypeError after storing the operation, then returns it *)
Theorem C08_cache_refines_fresh_refuted_unhashable_id : exists doc accs,
  map result_core (run V30 doc empty_cache accs) <> map (fun a => result_core (fresh V30 doc a)) accs
  /\ forallb (self_ok V30 doc) accs = false.
Proof. exists doc_unhashable, accs_twice_get. exact cache_refuted_unhashable_id. Qed.
Print Assumptions C08_cache_refines_fresh_refuted_unhashable_id.

Theorem C08_cache_hypotheses_satisfiable :
  coherent V30 doc_good2 accs_good = true /\
  exists o, nth_error (run V30 doc_good2 empty_cache accs_good) 2 = Some (ROp (Val o)) /\ List.length (o_query o) = 2%nat.
Proof. exact coherent_nonvacuous. Qed.
Print Assumptions C08_cache_hypotheses_satisfiable.

(* Security-derived parameters are part of the effective parameters.  For every operation make_operation builds
   (whichever route leads to it: iteration, path and method, operationId, reference all end in make_operation), with
   active = the security definitions named by the requirements in force for it (operation-level security, else global):
   (1) each container holds the parameters declared for that location (operation level first, then path level),
       unchanged and in order, followed only by parameters derived from active definitions;
   (2) for every active apiKey definition with name n and location c, container c serves n: by the declared parameter
       of THAT (name, location) when there is one (the explicit definition wins, nothing is added), by a
       security-derived one otherwise.  The statement for container c mentions no other container: a parameter of the
       same name declared in another location neither satisfies nor suppresses the security parameter. *)
Theorem C08_security_parameters_effective : forall v doc path method params raw resolved scope o',
  make_operation v doc path method params raw resolved scope = Val o' ->
  exists active, active_definitions v doc raw = Val active /\
  forall c,
    (exists added, container o' c = declared_in c params ++ added /\ Forall (sec_param v active) added) /\
    (forall d n, In d active -> api_key_of d = Some (n, c) ->
       exists p, set_get (container o' c) n = Val (Some p) /\
                 (forall p0, set_get (declared_in c params) n = Val (Some p0) -> p = p0) /\
                 (set_get (declared_in c params) n = Val None -> sec_param v active p)).
Proof. exact security_parameters_effective. Qed.
Print Assumptions C08_security_parameters_effective.

(* the executable form of (2), the one evaluated per generated case against the implementation *)
Theorem C08_security_keys_present : forall v doc path method params raw resolved scope o' active,
  make_operation v doc path method params raw resolved scope = Val o' ->
  active_definitions v doc raw = Val active -> security_keys_present active o' = true.
Proof. exact security_keys_present_holds. Qed.
Print Assumptions C08_security_keys_present.

(* non-vacuity: API key in header token + declared cookie token (path level) + declared query token (operation
   level) + a second requirement (query api_key): header [token] is the security one, query [token; api_key];
   on the other operation both keys are declared in the same location and nothing is added *)
Theorem C08_security_parameters_hypotheses_satisfiable :
  fresh_keys V30 doc_sec_clash (AGet (S "/reset") (S "post"))
    = Val [Val []; Val [JStr (S "token")]; Val [JStr (S "token")]; Val [JStr (S "token"); JStr (S "api_key")]] /\
  fresh_keys V30 doc_sec_clash (AGet (S "/me") (S "get"))
    = Val [Val []; Val [JStr (S "token")]; Val []; Val [JStr (S "api_key")]].
Proof. exact security_clash_witness. Qed.
Print Assumptions C08_security_parameters_hypotheses_satisfiable.

(* ---- JSON-pointer escaping of path keys (after the seeded regression C08_d) ----
   RFC 6901: the token decoding get_operation_by_reference and the link statistic apply (~1 first, then ~0) inverts
   the encoding APIOperation.operation_reference applies (~ first, then /), for EVERY string. *)
Theorem C08_pointer_roundtrip : forall p, unescape (escape_pointer p) = p.
Proof. exact pointer_roundtrip. Qed.
Print Assumptions C08_pointer_roundtrip.

(* ... hence the (path, method) derived from operation_reference is the operation's own, for ALL path strings (tildes,
   slashes, ~0 / ~1 / ~01 / ~10 / ~~1, percent signs, the empty path) and every method key without a slash, and two
   operations never share a reference *)
Theorem C08_reference_roundtrip : forall p m, ~ In 47%N m -> m <> [] ->
  path_of_reference (reference_of p m) = Some (p, m) /\
  forall q n, ~ In 47%N n -> n <> [] -> reference_of p m = reference_of q n -> p = q /\ m = n.
Proof.
  intros p m Hm Hne. split; [exact (reference_roundtrip p m Hm Hne)|].
  intros q n Hn Hnn E. exact (reference_of_inj p m q n Hm Hne E Hn Hnn).
Qed.
Print Assumptions C08_reference_roundtrip.

(* the sentinel: the same two substitutions in the other order (~0 first).  The token ~01 - a literal ~1 in the path -
   becomes a slash, and the references of /a/v~1 and /a/v/ are decoded to ONE path *)
Theorem C08_pointer_roundtrip_wrong_order_refuted : exists p q m,
  unescape_wrong (escape_pointer (S "~1")) = S "/" /\ unescape_wrong (escape_pointer (S "~1")) <> S "~1" /\
  p <> q /\
  path_of_url unescape_wrong (reference_of p m) = Some (q, m) /\
  path_of_url unescape_wrong (reference_of q m) = Some (q, m) /\
  path_of_url unescape (reference_of p m) = Some (p, m).
Proof. exists (S "/a/v~1"), (S "/a/v/"), (S "get"). exact pointer_roundtrip_wrong_order_refuted. Qed.
Print Assumptions C08_pointer_roundtrip_wrong_order_refuted.

(* For every document and every plain entry (an inline path item under a non-empty key without percent sign, a method key
   present as written): the lookup by operation_reference and the lookup by path and method address the SAME cache entry
   (root scope, that path, that method) and build the same operation (everything but the recorded scope); on fresh schema
   objects they return the same thing (a KeyError of the build is reported as LookupError by MethodMap.__getitem__). *)
Theorem C08_reference_lookup_is_path_lookup_partial : forall v doc p m,
  plain_entry doc p m = true ->
  (exists kvs opj b1 b2,
     pgo v doc (AByRef (reference_of p m)) = Some (([], p, m), b1, (fun _ => None), Some (reference_of p m)) /\
     pgo v doc (AGet p m) = Some (([], p, m), b2, id_of_resolved, None) /\
     b2 = build_by_path v doc p m [] kvs opj /\ res_core b1 = res_core b2) /\
  (self_ok v doc (AGet p m) = true ->
   to_lookup_error (res_core (fresh_op v doc (AByRef (reference_of p m)))) = res_core (fresh_op v doc (AGet p m))) /\
  operation_ref_target doc (JStr (reference_of p m)) = Some (m, p).
Proof.
  intros v doc p m H. split; [|split].
  - destruct (plain_entry_spec doc p m H) as [kvs [opj P]].
    destruct (plain_plans v doc p m kvs opj P) as [Pr [Pg E]].
    exists kvs, opj. do 2 eexists. split; [exact Pr|]. split; [exact Pg|]. split; [reflexivity | exact E].
  - exact (reference_lookup_is_path_lookup v doc p m H).
  - exact (operation_ref_target_own doc p m H).
Qed.
Print Assumptions C08_reference_lookup_is_path_lookup_partial.

(* ... and in EVERY sequence of lookups by (path, method) and by operation_reference of plain entries (any order, any
   number, any mix of paths - also paths that a wrong token decoding would confuse), on one schema object, each lookup
   returns what it returns on a fresh schema object: the coherence hypothesis of C08_cache_refines_fresh_partial is
   discharged syntactically for these accesses. *)
Theorem C08_reference_and_path_lookups_any_order_partial : forall v doc accs,
  forallb (plain_access doc) accs = true -> forallb (self_ok v doc) accs = true ->
  coherent v doc accs = true /\
  map result_core (run v doc empty_cache accs) = map (fun a => result_core (fresh v doc a)) accs.
Proof.
  intros v doc accs HP HS. split; [exact (plain_coherent v doc accs HP HS) | exact (plain_lookups_refine_fresh v doc accs HP HS)].
Qed.
Print Assumptions C08_reference_and_path_lookups_any_order_partial.

(* non-vacuity: /a/v/ and /a/v~1 in one document, looked up by path and by reference in a mixed order *)
Theorem C08_reference_lookups_hypotheses_satisfiable :
  forallb (plain_access doc_tilde) accs_tilde = true /\ forallb (self_ok V30 doc_tilde) accs_tilde = true /\
  reference_of (S "/a/v~1") m_get' = S "#/paths/~1a~1v~01/get" /\
  exists o, nth_error (run V30 doc_tilde empty_cache accs_tilde) 1 = Some (ROp (Val o)) /\
            o_path o = S "/a/v~1" /\ o_raw o = op_with (S "getShortName") (S "token") s_header /\ List.length (o_headers o) = 1%nat.
Proof. exact plain_lookups_nonvacuous. Qed.
Print Assumptions C08_reference_lookups_hypotheses_satisfiable.

(* the region is needed: operation_reference does not escape percent signs and the resolver unquotes the fragment before
   splitting it.  With /a%7Eb and /a~b in one document the lookup by the reference of /a%7Eb silently returns the
   definition of /a~b under the path /a%7Eb; the reference of /a%2Fb does not resolve at all. *)
Theorem C08_reference_lookup_percent_refuted : exists doc p p2 m,
  plain_entry doc p m = false /\ mem 37 p = true /\
  (exists o o', fresh V30 doc (AByRef (reference_of p m)) = ROp (Val o) /\
                fresh V30 doc (AGet p m) = ROp (Val o') /\
                o_path o = p /\ o_raw o = op_with (S "two") (S "y") s_query /\
                o_raw o' = op_with (S "one") (S "x") s_query /\ o_raw o <> o_raw o') /\
  fresh V30 doc (AByRef (reference_of p2 m)) = ROp (Raise ERef) /\
  (exists o', fresh V30 doc (AGet p2 m) = ROp (Val o')).
Proof. exists doc_pct, (S "/a%7Eb"), (S "/a%2Fb"), m_get'. exact reference_lookup_percent_refuted. Qed.
Print Assumptions C08_reference_lookup_percent_refuted.
