(* C08 property theorems only.  Each is closed by [exact] of a lemma of Proofs_C08 and
   followed by Print Assumptions.  [conv] (to_json_schema_recursive, the concern of C01) is
   universally quantified. *)
From Coq Require Import List NArith ZArith Bool.
From Verif Require Import Common.Str Common.Json C08.Model_C08 C08.Proofs_C08.
Import ListNotations.

(* The code as it is: in the object schema generated for one location, the property of a name is
   the schema of the LAST parameter with that name (operation-level parameters come first in the
   chain, path-level ones after them, so a path-level definition overwrites). *)
Theorem C08_generated_schema_is_last_definition : forall conv v ps pr name,
  params_to_schema conv v ps = Val pr ->
  match last_match ps name with
  | Some p => exists s, as_schema conv v p = Val s /\ jassoc_get name (fst pr) = Some s
  | None => jassoc_get name (fst pr) = None
  end.
Proof. exact generated_is_last. Qed.
Print Assumptions C08_generated_schema_is_last_definition.

(* Where no name occurs twice in a location, the generated property is the effective definition
   (the one ParameterSet.get returns: the operation-level one). *)
Theorem C08_effective_parameters_partial : forall conv v ps name,
  names_unique ps = true ->
  forall pr, params_to_schema conv v ps = Val pr ->
  effective_schema conv v ps name = Val (jassoc_get name (fst pr)) /\
  generated_schema conv v ps name = effective_schema conv v ps name.
Proof. exact effective_parameters. Qed.
Print Assumptions C08_effective_parameters_partial.

(* ... and with the same (name, location) at both levels the path-level definition is generated *)
Theorem C08_effective_parameters_refuted : exists doc o name,
  In (IOk o) (fst (get_all_operations V30 doc)) /\
  exists s_op s_path,
    effective_schema conv_id V30 (o_query o) name = Val (Some s_op) /\
    generated_schema conv_id V30 (o_query o) name = Val (Some s_path) /\
    s_op = JObj [(k_type, JStr s_string)] /\ s_path = JObj [(k_type, JStr [105;110;116;101;103;101;114]%N)] /\ s_op <> s_path.
Proof. exists doc_override, o_override, name_q. exact effective_parameters_refuted. Qed.
Print Assumptions C08_effective_parameters_refuted.

Theorem C08_effective_parameters_hypotheses_satisfiable : exists o,
  In (IOk o) (fst (get_all_operations V30 doc_good)) /\ names_unique (o_query o) = true /\ List.length (o_query o) = 2%nat.
Proof. exact names_unique_nonvacuous. Qed.
Print Assumptions C08_effective_parameters_hypotheses_satisfiable.

(* When the generator is not ended by an exception, every path of the document is accounted for:
   a path item that cannot be resolved is one Err naming the path; otherwise every HTTP-method key
   is either Ok with exactly the operation process_entry builds for it (same path, method, raw
   definition) or an Err naming path and method. *)
Theorem C08_every_operation_ok_or_err_partial : forall v doc,
  iteration_completes v doc = true ->
  forall paths path pi, py_item doc k_paths = Val (JObj paths) -> In (path, pi) paths ->
  accounted_path v doc (fst (get_all_operations v doc)) path pi.
Proof. exact every_operation_ok_or_err. Qed.
Print Assumptions C08_every_operation_ok_or_err_partial.

(* An exception that ends the generator is never of a class that is converted to Err *)
Theorem C08_crash_is_uncaught_class : forall v doc items e paths,
  py_item doc k_paths = Val (JObj paths) ->
  get_all_operations v doc = (items, Some e) -> caught e = false.
Proof. exact crash_not_caught. Qed.
Print Assumptions C08_crash_is_uncaught_class.

(* parameters: [5] in one operation: TypeError leaves the generator, the operations of that path
   and of every later path are neither offered nor reported *)
Theorem C08_every_operation_ok_or_err_refuted : exists doc paths path pi,
  py_item doc k_paths = Val (JObj paths) /\ In (path, pi) paths /\
  snd (get_all_operations V30 doc) = Some EType /\
  ~ accounted_path V30 doc (fst (get_all_operations V30 doc)) path pi.
Proof. exact every_operation_refuted. Qed.
Print Assumptions C08_every_operation_ok_or_err_refuted.

Theorem C08_every_operation_hypotheses_satisfiable :
  iteration_completes V30 doc_good = true /\
  exists o p m e p2 e2, fst (get_all_operations V30 doc_good) = [IOk o; IErr p (Some m) e; IErr p2 None e2].
Proof. exact completes_nonvacuous. Qed.
Print Assumptions C08_every_operation_hypotheses_satisfiable.

(* The operation cache refines fresh lookups: for every document and EVERY access sequence
   (iteration, by path and method, by operationId, by reference, in any order and number) whose
   lookups are pairwise coherent - two lookups that address the same cache entry build the same
   operation, built operations have a hashable operationId, and the id scan completes when a
   lookup by id occurs - each access returns what it returns on a fresh schema object: same path,
   method, raw and resolved definition and parameter containers (everything but the recorded scope). *)
Theorem C08_cache_refines_fresh_partial : forall v doc accs,
  coherent v doc accs = true ->
  map result_core (run v doc empty_cache accs) = map (fun a => result_core (fresh v doc a)) accs.
Proof. exact cache_refines_fresh. Qed.
Print Assumptions C08_cache_refines_fresh_partial.

(* ... hence the same observable views (label, per-location JSON Schemas, body alternatives), for any conv *)
Theorem C08_cache_refines_fresh_views_partial : forall conv v doc accs,
  coherent v doc accs = true ->
  map (result_view_of conv v) (run v doc empty_cache accs) = map (fun a => result_view_of conv v (fresh v doc a)) accs.
Proof. exact cache_refines_fresh_views. Qed.
Print Assumptions C08_cache_refines_fresh_views_partial.

(* duplicated operationId: schema[/a][get] then get_operation_by_id(x) returns GET /a, a fresh schema returns GET /b *)
Theorem C08_cache_refines_fresh_refuted : exists doc accs,
  map result_core (run V30 doc empty_cache accs) <> map (fun a => result_core (fresh V30 doc a)) accs
  /\ coherent V30 doc accs = false.
Proof. exists doc_dup, accs_dup. exact cache_refuted_duplicate_id. Qed.
Print Assumptions C08_cache_refines_fresh_refuted.

(* an id scan interrupted by an unresolvable path item: the same lookup by id raises, then succeeds *)
Theorem C08_cache_refines_fresh_refuted_failed_scan : exists doc accs,
  map result_core (run V30 doc empty_cache accs) <> map (fun a => result_core (fresh V30 doc a)) accs
  /\ populate_ok doc = false.
Proof. exists doc_partial, accs_twice_id. exact cache_refuted_failed_scan. Qed.
Print Assumptions C08_cache_refines_fresh_refuted_failed_scan.

(* operationId: []: the lookup by path raises TypeError after storing the operation, then returns it *)
Theorem C08_cache_refines_fresh_refuted_unhashable_id : exists doc accs,
  map result_core (run V30 doc empty_cache accs) <> map (fun a => result_core (fresh V30 doc a)) accs
  /\ forallb (self_ok V30 doc) accs = false.
Proof. exists doc_unhashable, accs_twice_get. exact cache_refuted_unhashable_id. Qed.
Print Assumptions C08_cache_refines_fresh_refuted_unhashable_id.

Theorem C08_cache_hypotheses_satisfiable :
  coherent V30 doc_good2 accs_good = true /\
  exists o, nth_error (run V30 doc_good2 empty_cache accs_good) 2 = Some (ROp (Val o)) /\ List.length (o_query o) = 2%nat.
Proof. exact coherent_nonvacuous. Qed.
Print Assumptions C08_cache_hypotheses_satisfiable.
