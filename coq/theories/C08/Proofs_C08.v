(* C08 proofs. *)
From Coq Require Import List NArith ZArith Bool Lia.
From Verif Require Import Common.Str Common.Json C08.Model_C08.
Import ListNotations.

(* ------------------------------------------------------------------ py_eq is an equivalence *)
Definition norm (j : json) : json := match num_of j with Some z => JInt z | None => j end.

Lemma json_eqb_iff a b : json_eqb a b = true <-> a = b.
Proof. split; [apply json_eqb_eq | intros ->; apply json_eqb_refl]. Qed.

Lemma py_eq_norm a b : py_eq a b = true <-> norm a = norm b.
Proof.
  unfold py_eq, norm.
  destruct (num_of a) as [x|] eqn:Ha; destruct (num_of b) as [y|] eqn:Hb.
  - rewrite Z.eqb_eq. split; [intros ->; reflexivity | intros H; inversion H; reflexivity].
  - split.
    + intros H. apply json_eqb_eq in H. subst b. congruence.
    + intros H. subst b. discriminate.
  - split.
    + intros H. apply json_eqb_eq in H. subst b. congruence.
    + intros H. subst a. discriminate.
  - rewrite json_eqb_iff. reflexivity.
Qed.

Lemma py_eq_refl a : py_eq a a = true.
Proof. apply py_eq_norm; reflexivity. Qed.
Lemma py_eq_sym a b : py_eq a b = py_eq b a.
Proof.
  destruct (py_eq a b) eqn:E1, (py_eq b a) eqn:E2; try reflexivity.
  - apply py_eq_norm in E1. symmetry in E1. apply py_eq_norm in E1. congruence.
  - apply py_eq_norm in E2. symmetry in E2. apply py_eq_norm in E2. congruence.
Qed.
Lemma py_eq_trans_l a b c : py_eq a b = true -> py_eq a c = py_eq b c.
Proof.
  intros H. apply py_eq_norm in H.
  destruct (py_eq a c) eqn:E1, (py_eq b c) eqn:E2; try reflexivity.
  - apply py_eq_norm in E1. rewrite H in E1. apply py_eq_norm in E1. congruence.
  - apply py_eq_norm in E2. rewrite <- H in E2. apply py_eq_norm in E2. congruence.
Qed.

(* ------------------------------------------------------------------ generated schema = LAST definition of a name *)
Lemma jassoc_get_set name k s props :
  jassoc_get name (jassoc_set k s props) = if py_eq name k then Some s else jassoc_get name props.
Proof.
  induction props as [|[k' s'] r IH]; cbn [jassoc_set jassoc_get].
  - destruct (py_eq name k); reflexivity.
  - destruct (py_eq k k') eqn:E; cbn [jassoc_get].
    + rewrite (py_eq_sym name k), (py_eq_trans_l _ _ _ E), (py_eq_sym k' name). destruct (py_eq name k'); reflexivity.
    + rewrite IH. destruct (py_eq name k') eqn:E2; [|reflexivity].
      destruct (py_eq name k) eqn:E3; [|reflexivity].
      rewrite py_eq_sym in E3. rewrite (py_eq_trans_l _ _ _ E3) in E. rewrite E2 in E. discriminate.
Qed.

Lemma loop_last f ps : forall props req props' req' name,
  to_schema_loop f ps props req = Val (props', req') ->
  match last_match ps name with
  | Some p => exists s, f p = Val s /\ jassoc_get name props' = Some s
  | None => jassoc_get name props' = jassoc_get name props
  end.
Proof.
  induction ps as [|p r IH]; intros props req props' req' name H; cbn [to_schema_loop last_match] in *.
  - inversion H; reflexivity.
  - destruct (p_name p) as [n|e] eqn:En; cbn [bind] in H; [|discriminate].
    destruct (f p) as [s|e] eqn:Es; cbn [bind] in H; [|discriminate].
    destruct (negb (hashable n)); [discriminate|].
    destruct (p_required p) as [rq|e] eqn:Er; cbn [bind] in H; [|discriminate].
    specialize (IH _ _ _ _ name H).
    destruct (last_match r name) as [q|]; [exact IH|].
    rewrite IH, jassoc_get_set, (py_eq_sym name n).
    destruct (py_eq n name); [exists s; split; [exact Es | reflexivity] | reflexivity].
Qed.

Lemma last_match_none_if ps n name :
  existsb (fun q => match p_name q with Val m => py_eq m n | Raise _ => true end) ps = false ->
  py_eq n name = true -> last_match ps name = None.
Proof.
  induction ps as [|p r IH]; intros H Hn; [reflexivity|]. cbn [existsb last_match] in *.
  apply orb_false_iff in H. destruct H as [H1 H2]. rewrite (IH H2 Hn).
  destruct (p_name p) as [m|]; [|reflexivity].
  rewrite py_eq_sym in H1. rewrite (py_eq_trans_l _ _ _ Hn) in H1. rewrite py_eq_sym, H1. reflexivity.
Qed.

Lemma first_eq_last ps name : names_unique ps = true -> first_match ps name = last_match ps name.
Proof.
  induction ps as [|p r IH]; intros H; [reflexivity|]. cbn [names_unique first_match last_match] in *.
  destruct (p_name p) as [n|] eqn:En; [|discriminate].
  apply andb_true_iff in H. destruct H as [H1 H2]. apply negb_true_iff in H1.
  destruct (py_eq n name) eqn:E.
  - rewrite (last_match_none_if _ _ _ H1 E). reflexivity.
  - rewrite (IH H2). destruct (last_match r name); reflexivity.
Qed.

Lemma set_get_first ps name : names_unique ps = true ->
  set_get ps name = Val (first_match ps name).
Proof.
  induction ps as [|p r IH]; intros H; [reflexivity|]. cbn [names_unique set_get first_match] in *.
  destruct (p_name p) as [n|] eqn:En; [|discriminate]. cbn [bind].
  apply andb_true_iff in H. destruct H as [_ H2].
  destruct (py_eq n name); [reflexivity | apply IH; exact H2].
Qed.

(* the code as it is: the property of a name is the schema of the LAST parameter with that name *)
Lemma generated_is_last conv v ps pr name :
  params_to_schema conv v ps = Val pr ->
  match last_match ps name with
  | Some p => exists s, as_schema conv v p = Val s /\ jassoc_get name (fst pr) = Some s
  | None => jassoc_get name (fst pr) = None
  end.
Proof.
  destruct pr as [props req]. intros H. unfold params_to_schema in H.
  pose proof (loop_last _ _ _ _ _ _ name H) as L. exact L.
Qed.

Lemma effective_parameters conv v ps name :
  names_unique ps = true ->
  forall pr, params_to_schema conv v ps = Val pr ->
  effective_schema conv v ps name = Val (jassoc_get name (fst pr)) /\
  generated_schema conv v ps name = effective_schema conv v ps name.
Proof.
  intros U pr H. unfold effective_schema, generated_schema. rewrite H. cbn [bind].
  rewrite (set_get_first _ _ U). cbn [bind]. rewrite (first_eq_last _ _ U).
  pose proof (generated_is_last _ _ _ _ name H) as L.
  destruct (last_match ps name) as [p|].
  - destruct L as [s [Hs Hg]]. rewrite Hs. cbn [bind]. rewrite Hg. split; reflexivity.
  - rewrite L. split; reflexivity.
Qed.

(* ------------------------------------------------------------------ make_operation keeps the identity of the operation *)
Definition ident (o : operation) := (o_path o, o_method o, o_raw o, o_resolved o, o_scope o).

Lemma add_to_ident o l p : ident (add_to o l p) = ident o.
Proof. destruct l; reflexivity. Qed.

Lemma add_parameter_ident o p o' : add_parameter o p = Val o' -> ident o' = ident o.
Proof.
  unfold add_parameter. destruct (p_location p) as [l|]; cbn [bind]; [|discriminate].
  intros H; inversion H. destruct (loc_of l); [apply add_to_ident | reflexivity].
Qed.

Lemma add_parameters_ident ps : forall o o', add_parameters o ps = Val o' -> ident o' = ident o.
Proof.
  induction ps as [|p r IH]; intros o o' H; cbn [add_parameters] in H; [inversion H; reflexivity|].
  destruct (add_parameter o p) as [o1|] eqn:E; cbn [bind] in H; [|discriminate].
  rewrite (IH _ _ H). eapply add_parameter_ident; eauto.
Qed.

Lemma process_definitions_ident v defs : forall o o', process_definitions v defs o = Val o' -> ident o' = ident o.
Proof.
  induction defs as [|d r IH]; intros o o' H; cbn [process_definitions] in H; [inversion H; reflexivity|].
  destruct (py_get d k_name) as [name|]; cbn [bind] in H; [|discriminate].
  destruct (py_get d k_in) as [location|]; cbn [bind] in H; [|discriminate].
  match type of H with bind ?x _ = _ => destruct x as [skp|] end; cbn [bind] in H; [|discriminate].
  destruct skp; [eapply IH; eauto|].
  destruct (py_item d k_type) as [ty|]; cbn [bind] in H; [|discriminate].
  match type of H with bind ?x _ = _ => destruct x as [o1|] eqn:E1 end; cbn [bind] in H; [|discriminate].
  match type of H with bind ?x _ = _ => destruct x as [o2|] eqn:E2 end; cbn [bind] in H; [|discriminate].
  rewrite (IH _ _ H).
  assert (I1 : ident o1 = ident o).
  { destruct (json_eqb ty (JStr s_apiKey)); [|inversion E1; reflexivity].
    destruct (api_key_param v d); cbn [bind] in E1; [|discriminate]. eapply add_parameter_ident; eauto. }
  rewrite <- I1.
  destruct (json_eqb ty (JStr (if is_v20 v then s_basic else s_http))); [|inversion E2; reflexivity].
  destruct (http_auth_param v d); cbn [bind] in E2; [|discriminate]. eapply add_parameter_ident; eauto.
Qed.

Lemma make_operation_ident v doc path method params raw resolved scope o :
  make_operation v doc path method params raw resolved scope = Val o ->
  ident o = (path, method, raw, resolved, scope).
Proof.
  unfold make_operation, add_security. intros H.
  destruct (add_parameters _ params) as [o1|] eqn:E1; cbn [bind] in H; [|discriminate].
  destruct (security_definitions v doc); cbn [bind] in H; [|discriminate].
  destruct (security_requirements doc (o_raw o1)); cbn [bind] in H; [|discriminate].
  destruct (py_items a); cbn [bind] in H; [|discriminate].
  rewrite (process_definitions_ident _ _ _ _ H), (add_parameters_ident _ _ _ E1). reflexivity.
Qed.

Lemma process_entry_ident v doc path scope shared method entry o :
  process_entry v doc path scope shared method entry = Val o ->
  o_path o = path /\ o_method o = method /\ o_raw o = entry.
Proof.
  unfold process_entry, build_op. intros H.
  destruct (resolve_op doc entry) as [resolved|]; cbn [bind] in H; [|discriminate].
  destruct (py_get_d resolved k_parameters (JArr [])); cbn [bind] in H; [|discriminate].
  destruct (collect v doc a shared resolved); cbn [bind] in H; [|discriminate].
  apply make_operation_ident in H. unfold ident in H. inversion H. auto.
Qed.

(* ------------------------------------------------------------------ every documented operation is Ok or Err, when the generator completes *)
Opaque process_entry resolve_op resolve_all shared_parameters.
Definition path_header (doc pi : json) : res (str * json * list (str * json)) :=
  do '(scope, item) <- resolve_path_item doc pi;
  do shared <- shared_parameters doc item;
  do kvs <- py_items item;
  Val (scope, shared, kvs).

Definition accounted_path (v : version) (doc : json) (items : list item) (path : str) (pi : json) : Prop :=
  match path_header doc pi with
  | Raise e => In (IErr path None e) items /\ caught e = true
  | Val (scope, shared, kvs) =>
      forall m entry, In (m, entry) kvs -> is_http_method m = true ->
        (exists o, In (IOk o) items /\ process_entry v doc path scope shared m entry = Val o
                   /\ o_path o = path /\ o_method o = m /\ o_raw o = entry)
        \/ (exists e, In (IErr path (Some m) e) items /\ caught e = true
                      /\ process_entry v doc path scope shared m entry = Raise e)
  end.

Lemma methods_loop_accounted v doc path scope shared kvs : forall items,
  methods_loop v doc path scope shared kvs = (items, None) ->
  forall m entry, In (m, entry) kvs -> is_http_method m = true ->
    (exists o, In (IOk o) items /\ process_entry v doc path scope shared m entry = Val o
               /\ o_path o = path /\ o_method o = m /\ o_raw o = entry)
    \/ (exists e, In (IErr path (Some m) e) items /\ caught e = true
                  /\ process_entry v doc path scope shared m entry = Raise e).
Proof.
  induction kvs as [|[m0 e0] r IH]; intros items H m entry Hin Hm; [destruct Hin|].
  cbn [methods_loop] in H.
  destruct (is_http_method m0) eqn:Em0; cbn [negb] in H.
  - destruct (process_entry v doc path scope shared m0 e0) as [o|e] eqn:Ep.
    + destruct (methods_loop v doc path scope shared r) as [items' crash] eqn:Er.
      inversion H; subst items crash.
      destruct Hin as [Heq|Hin].
      * inversion Heq; subst m0 e0. left. exists o. split; [left; reflexivity|].
        split; [exact Ep|]. eapply process_entry_ident; eauto.
      * destruct (IH _ eq_refl m entry Hin Hm) as [[o' [Hi Ho]]|[e' [Hi He]]].
        -- left. exists o'. split; [right; exact Hi | exact Ho].
        -- right. exists e'. split; [right; exact Hi | exact He].
    + destruct (caught e) eqn:Ec; [|discriminate].
      destruct (methods_loop v doc path scope shared r) as [items' crash] eqn:Er.
      inversion H; subst items crash.
      destruct Hin as [Heq|Hin].
      * inversion Heq; subst m0 e0. right. exists e. split; [left; reflexivity|]. split; [exact Ec | exact Ep].
      * destruct (IH _ eq_refl m entry Hin Hm) as [[o' [Hi Ho]]|[e' [Hi He]]].
        -- left. exists o'. split; [right; exact Hi | exact Ho].
        -- right. exists e'. split; [right; exact Hi | exact He].
  - destruct Hin as [Heq|Hin].
    + inversion Heq; subst m0 e0. congruence.
    + apply (IH _ H m entry Hin Hm).
Qed.

Lemma process_path_accounted v doc path pi items :
  process_path v doc path pi = (items, None) -> accounted_path v doc items path pi.
Proof.
  unfold process_path, accounted_path. fold (path_header doc pi).
  destruct (path_header doc pi) as [[[scope shared] kvs]|e].
  - intros H. apply methods_loop_accounted. exact H.
  - destruct (caught e) eqn:Ec; [|discriminate]. intros H; inversion H. split; [left; reflexivity | reflexivity].
Qed.

Lemma accounted_mono v doc items items' path pi :
  (forall i, In i items -> In i items') -> accounted_path v doc items path pi -> accounted_path v doc items' path pi.
Proof.
  unfold accounted_path. intros Hs. destruct (path_header doc pi) as [[[scope shared] kvs]|e].
  - intros H m entry Hin Hm. destruct (H m entry Hin Hm) as [[o [Hi Ho]]|[e [Hi He]]].
    + left. exists o. split; [apply Hs; exact Hi | exact Ho].
    + right. exists e. split; [apply Hs; exact Hi | exact He].
  - intros [H1 H2]. split; [apply Hs; exact H1 | exact H2].
Qed.

Lemma paths_loop_accounted v doc paths : forall items,
  paths_loop v doc paths = (items, None) ->
  forall path pi, In (path, pi) paths -> accounted_path v doc items path pi.
Proof.
  induction paths as [|[p0 pi0] r IH]; intros items H path pi Hin; [destruct Hin|].
  cbn [paths_loop] in H.
  destruct (process_path v doc p0 pi0) as [items0 [e|]] eqn:Ep; [discriminate|].
  destruct (paths_loop v doc r) as [items' crash] eqn:Er. inversion H; subst items crash.
  destruct Hin as [Heq|Hin].
  - inversion Heq; subst p0 pi0. eapply accounted_mono; [|apply process_path_accounted; exact Ep].
    intros i Hi. apply in_or_app. left; exact Hi.
  - eapply accounted_mono; [|apply (IH _ eq_refl path pi Hin)].
    intros i Hi. apply in_or_app. right; exact Hi.
Qed.

Lemma every_operation_ok_or_err v doc :
  iteration_completes v doc = true ->
  forall paths path pi, py_item doc k_paths = Val (JObj paths) -> In (path, pi) paths ->
  accounted_path v doc (fst (get_all_operations v doc)) path pi.
Proof.
  unfold iteration_completes, get_all_operations. intros H paths path pi Hp Hin. rewrite Hp in *. cbn [py_items] in *.
  destruct (paths_loop v doc paths) as [items crash] eqn:E. cbn [fst snd] in *.
  destruct crash; [discriminate|]. eapply paths_loop_accounted; eauto.
Qed.

(* an exception that ends the generator is never one of the classes that are turned into Err,
   except the InvalidSchema raised for a document without paths *)
Lemma methods_loop_crash v doc path scope shared kvs : forall items e,
  methods_loop v doc path scope shared kvs = (items, Some e) -> caught e = false.
Proof.
  induction kvs as [|[m0 e0] r IH]; intros items e H; cbn [methods_loop] in H; [discriminate|].
  destruct (negb (is_http_method m0)); [eapply IH; eauto|].
  destruct (process_entry v doc path scope shared m0 e0) as [o|e1].
  - destruct (methods_loop v doc path scope shared r) as [items' crash] eqn:Er. inversion H; subst. eapply IH; eauto.
  - destruct (caught e1) eqn:Ec.
    + destruct (methods_loop v doc path scope shared r) as [items' crash] eqn:Er. inversion H; subst. eapply IH; eauto.
    + inversion H; subst. exact Ec.
Qed.

Lemma paths_loop_crash v doc paths : forall items e, paths_loop v doc paths = (items, Some e) -> caught e = false.
Proof.
  induction paths as [|[p0 pi0] r IH]; intros items e H; cbn [paths_loop] in H; [discriminate|].
  destruct (process_path v doc p0 pi0) as [items0 [e1|]] eqn:Ep.
  - inversion H; subst. unfold process_path in Ep.
    match type of Ep with match ?x with _ => _ end = _ => destruct x as [[[scope shared] kvs]|e2] end.
    + eapply methods_loop_crash; eauto.
    + destruct (caught e2) eqn:Ec; inversion Ep; subst. exact Ec.
  - destruct (paths_loop v doc r) as [items' crash] eqn:Er. inversion H; subst. eapply IH; eauto.
Qed.

Lemma crash_not_caught v doc items e paths :
  py_item doc k_paths = Val (JObj paths) ->
  get_all_operations v doc = (items, Some e) -> caught e = false.
Proof.
  unfold get_all_operations. intros Hp. rewrite Hp. cbn [py_items]. apply paths_loop_crash.
Qed.

(* ------------------------------------------------------------------ witnesses (rendered by harness.core.cjson) *)
Definition doc_override : json :=
  (JObj [([111;112;101;110;97;112;105]%N, (JStr [51;46;48;46;50]%N)); ([105;110;102;111]%N, (JObj [([116;105;116;108;101]%N, (JStr [116]%N)); ([118;101;114;115;105;111;110]%N, (JStr [49]%N))])); ([112;97;116;104;115]%N, (JObj [([47;97]%N, (JObj [([112;97;114;97;109;101;116;101;114;115]%N, (JArr [(JObj [([110;97;109;101]%N, (JStr [113]%N)); ([105;110]%N, (JStr [113;117;101;114;121]%N)); ([115;99;104;101;109;97]%N, (JObj [([116;121;112;101]%N, (JStr [105;110;116;101;103;101;114]%N))]))])])); ([103;101;116]%N, (JObj [([112;97;114;97;109;101;116;101;114;115]%N, (JArr [(JObj [([110;97;109;101]%N, (JStr [113]%N)); ([105;110]%N, (JStr [113;117;101;114;121]%N)); ([114;101;113;117;105;114;101;100]%N, (JBool true)); ([115;99;104;101;109;97]%N, (JObj [([116;121;112;101]%N, (JStr [115;116;114;105;110;103]%N))]))])])); ([114;101;115;112;111;110;115;101;115]%N, (JObj [([50;48;48]%N, (JObj [([100;101;115;99;114;105;112;116;105;111;110]%N, (JStr [111;107]%N))]))]))]))]))]))]).
Definition doc_crash : json :=
  (JObj [([111;112;101;110;97;112;105]%N, (JStr [51;46;48;46;50]%N)); ([105;110;102;111]%N, (JObj [([116;105;116;108;101]%N, (JStr [116]%N)); ([118;101;114;115;105;111;110]%N, (JStr [49]%N))])); ([112;97;116;104;115]%N, (JObj [([47;111;107]%N, (JObj [([103;101;116]%N, (JObj [([114;101;115;112;111;110;115;101;115]%N, (JObj [([50;48;48]%N, (JObj [([100;101;115;99;114;105;112;116;105;111;110]%N, (JStr [111;107]%N))]))]))]))])); ([47;98;97;100]%N, (JObj [([103;101;116]%N, (JObj [([112;97;114;97;109;101;116;101;114;115]%N, (JArr [(JInt (5)%Z)])); ([114;101;115;112;111;110;115;101;115]%N, (JObj [([50;48;48]%N, (JObj [([100;101;115;99;114;105;112;116;105;111;110]%N, (JStr [111;107]%N))]))]))]))])); ([47;111;107;50]%N, (JObj [([103;101;116]%N, (JObj [([114;101;115;112;111;110;115;101;115]%N, (JObj [([50;48;48]%N, (JObj [([100;101;115;99;114;105;112;116;105;111;110]%N, (JStr [111;107]%N))]))]))]))]))]))]).
Definition doc_good : json :=
  (JObj [([111;112;101;110;97;112;105]%N, (JStr [51;46;48;46;50]%N)); ([105;110;102;111]%N, (JObj [([116;105;116;108;101]%N, (JStr [116]%N)); ([118;101;114;115;105;111;110]%N, (JStr [49]%N))])); ([112;97;116;104;115]%N, (JObj [([47;97]%N, (JObj [([112;97;114;97;109;101;116;101;114;115]%N, (JArr [(JObj [([110;97;109;101]%N, (JStr [105;100]%N)); ([105;110]%N, (JStr [113;117;101;114;121]%N)); ([115;99;104;101;109;97]%N, (JObj [([116;121;112;101]%N, (JStr [105;110;116;101;103;101;114]%N))]))])])); ([103;101;116]%N, (JObj [([111;112;101;114;97;116;105;111;110;73;100]%N, (JStr [120]%N)); ([112;97;114;97;109;101;116;101;114;115]%N, (JArr [(JObj [([110;97;109;101]%N, (JStr [113]%N)); ([105;110]%N, (JStr [113;117;101;114;121]%N)); ([114;101;113;117;105;114;101;100]%N, (JBool true)); ([115;99;104;101;109;97]%N, (JObj [([116;121;112;101]%N, (JStr [115;116;114;105;110;103]%N))]))])])); ([114;101;115;112;111;110;115;101;115]%N, (JObj [([50;48;48]%N, (JObj [([100;101;115;99;114;105;112;116;105;111;110]%N, (JStr [111;107]%N))]))]))])); ([112;111;115;116]%N, (JObj [([112;97;114;97;109;101;116;101;114;115]%N, (JArr [(JObj [([36;114;101;102]%N, (JStr [35;47;99;111;109;112;111;110;101;110;116;115;47;112;97;114;97;109;101;116;101;114;115;47;77;73;83;83;73;78;71]%N))])])); ([114;101;115;112;111;110;115;101;115]%N, (JObj [([50;48;48]%N, (JObj [([100;101;115;99;114;105;112;116;105;111;110]%N, (JStr [111;107]%N))]))]))]))])); ([47;98]%N, (JObj [([36;114;101;102]%N, (JStr [35;47;110;111;119;104;101;114;101]%N))]))]))]).
Definition doc_dup : json :=
  (JObj [([111;112;101;110;97;112;105]%N, (JStr [51;46;48;46;50]%N)); ([105;110;102;111]%N, (JObj [([116;105;116;108;101]%N, (JStr [116]%N)); ([118;101;114;115;105;111;110]%N, (JStr [49]%N))])); ([112;97;116;104;115]%N, (JObj [([47;97]%N, (JObj [([103;101;116]%N, (JObj [([111;112;101;114;97;116;105;111;110;73;100]%N, (JStr [120]%N)); ([114;101;115;112;111;110;115;101;115]%N, (JObj [([50;48;48]%N, (JObj [([100;101;115;99;114;105;112;116;105;111;110]%N, (JStr [111;107]%N))]))]))]))])); ([47;98]%N, (JObj [([103;101;116]%N, (JObj [([111;112;101;114;97;116;105;111;110;73;100]%N, (JStr [120]%N)); ([114;101;115;112;111;110;115;101;115]%N, (JObj [([50;48;48]%N, (JObj [([100;101;115;99;114;105;112;116;105;111;110]%N, (JStr [111;107]%N))]))]))]))]))]))]).
Definition doc_partial : json :=
  (JObj [([111;112;101;110;97;112;105]%N, (JStr [51;46;48;46;50]%N)); ([105;110;102;111]%N, (JObj [([116;105;116;108;101]%N, (JStr [116]%N)); ([118;101;114;115;105;111;110]%N, (JStr [49]%N))])); ([112;97;116;104;115]%N, (JObj [([47;97]%N, (JObj [([103;101;116]%N, (JObj [([111;112;101;114;97;116;105;111;110;73;100]%N, (JStr [120]%N)); ([114;101;115;112;111;110;115;101;115]%N, (JObj [([50;48;48]%N, (JObj [([100;101;115;99;114;105;112;116;105;111;110]%N, (JStr [111;107]%N))]))]))]))])); ([47;98]%N, (JObj [([36;114;101;102]%N, (JStr [35;47;110;111;119;104;101;114;101]%N))]))]))]).

Definition first_ok (items : list item) : option operation :=
  match items with IOk o :: _ => Some o | _ => None end.
Definition dummy_op : operation := empty_op [] [] JNull JNull [].
Definition o_override : operation :=
  match first_ok (fst (get_all_operations V30 doc_override)) with Some o => o | None => dummy_op end.
Definition name_q : json := JStr [113%N].

(* path-level q (integer) wins in properties, ParameterSet.get returns the operation-level q (string) *)
Lemma effective_parameters_refuted :
  In (IOk o_override) (fst (get_all_operations V30 doc_override)) /\
  exists s_op s_path,
    effective_schema conv_id V30 (o_query o_override) name_q = Val (Some s_op) /\
    generated_schema conv_id V30 (o_query o_override) name_q = Val (Some s_path) /\
    s_op = JObj [(k_type, JStr s_string)] /\ s_path = JObj [(k_type, JStr [105;110;116;101;103;101;114]%N)] /\ s_op <> s_path.
Proof.
  split; [vm_compute; left; reflexivity|].
  eexists; eexists. split; [vm_compute; reflexivity|]. split; [vm_compute; reflexivity|].
  split; [vm_compute; reflexivity|]. split; [vm_compute; reflexivity|]. vm_compute. discriminate.
Qed.

Lemma names_unique_nonvacuous :
  exists o, In (IOk o) (fst (get_all_operations V30 doc_good)) /\ names_unique (o_query o) = true /\ List.length (o_query o) = 2%nat.
Proof.
  exists (match first_ok (fst (get_all_operations V30 doc_good)) with Some o => o | None => dummy_op end).
  vm_compute. split; [left; reflexivity | split; reflexivity].
Qed.

(* parameters: [5] under /bad ends the generator with TypeError: /bad and /ok2 are neither offered nor reported *)
Definition paths_of (doc : json) : list (str * json) :=
  match py_item doc k_paths with Val (JObj kvs) => kvs | _ => [] end.
Definition nth_path (doc : json) (n : nat) : str * json := nth n (paths_of doc) ([], JNull).

Lemma crash_outcome :
  snd (get_all_operations V30 doc_crash) = Some EType /\
  List.length (fst (get_all_operations V30 doc_crash)) = 1%nat /\
  iteration_completes V30 doc_crash = false.
Proof. vm_compute. repeat split. Qed.

Lemma not_accounted_n n : (n = 1 \/ n = 2)%nat ->
  ~ accounted_path V30 doc_crash (fst (get_all_operations V30 doc_crash)) (fst (nth_path doc_crash n)) (snd (nth_path doc_crash n)).
Proof.
  intros Hn H. unfold accounted_path in H.
  destruct Hn as [-> | ->].
  - remember (path_header doc_crash (snd (nth_path doc_crash 1))) as ph eqn:Eph. vm_compute in Eph. subst ph.
    match type of H with forall m entry, In (m, entry) [(?m0, ?e0)] -> _ => specialize (H m0 e0 (or_introl eq_refl) eq_refl) end.
    destruct H as [[o [Hi [_ [Hp _]]]]|[e [Hi _]]].
    + remember (fst (get_all_operations V30 doc_crash)) as items eqn:Ei. vm_compute in Ei. subst items.
      destruct Hi as [Hi|[]]. inversion Hi; subst o. vm_compute in Hp. discriminate.
    + remember (fst (get_all_operations V30 doc_crash)) as items eqn:Ei. vm_compute in Ei. subst items.
      destruct Hi as [Hi|[]]. discriminate.
  - remember (path_header doc_crash (snd (nth_path doc_crash 2))) as ph eqn:Eph. vm_compute in Eph. subst ph.
    match type of H with forall m entry, In (m, entry) [(?m0, ?e0)] -> _ => specialize (H m0 e0 (or_introl eq_refl) eq_refl) end.
    destruct H as [[o [Hi [_ [Hp _]]]]|[e [Hi _]]].
    + remember (fst (get_all_operations V30 doc_crash)) as items eqn:Ei. vm_compute in Ei. subst items.
      destruct Hi as [Hi|[]]. inversion Hi; subst o. vm_compute in Hp. discriminate.
    + remember (fst (get_all_operations V30 doc_crash)) as items eqn:Ei. vm_compute in Ei. subst items.
      destruct Hi as [Hi|[]]. discriminate.
Qed.

Lemma every_operation_refuted :
  exists doc paths path pi,
    py_item doc k_paths = Val (JObj paths) /\ In (path, pi) paths /\
    snd (get_all_operations V30 doc) = Some EType /\
    ~ accounted_path V30 doc (fst (get_all_operations V30 doc)) path pi.
Proof.
  exists doc_crash, (paths_of doc_crash), (fst (nth_path doc_crash 2)), (snd (nth_path doc_crash 2)).
  split; [vm_compute; reflexivity|]. split; [vm_compute; right; right; left; reflexivity|].
  split; [vm_compute; reflexivity|]. apply not_accounted_n. right; reflexivity.
Qed.

Lemma completes_nonvacuous :
  iteration_completes V30 doc_good = true /\
  exists o p m e p2 e2, fst (get_all_operations V30 doc_good) = [IOk o; IErr p (Some m) e; IErr p2 None e2].
Proof. split; [vm_compute; reflexivity|]. vm_compute. do 6 eexists. reflexivity. Qed.

(* ================================================================== the operation cache refines fresh lookups *)
Section KMap.
  Context {K V N : Type} (eqb : K -> K -> bool) (f : K -> N).
  Hypothesis eqb_f : forall a b, eqb a b = true <-> f a = f b.

  Lemma eqb_congr a b c : f b = f c -> eqb a b = eqb a c.
  Proof.
    intros H. destruct (eqb a b) eqn:E1, (eqb a c) eqn:E2; try reflexivity.
    - apply eqb_f in E1. rewrite H in E1. apply eqb_f in E1. congruence.
    - apply eqb_f in E2. rewrite <- H in E2. apply eqb_f in E2. congruence.
  Qed.

  Lemma kget_kset k k0 (x : V) l : kget eqb k (kset eqb k0 x l) = if eqb k k0 then Some x else kget eqb k l.
  Proof.
    induction l as [|[k' x'] r IH]; cbn [kset kget].
    - destruct (eqb k k0); reflexivity.
    - destruct (eqb k0 k') eqn:E; cbn [kget].
      + apply eqb_f in E. rewrite (eqb_congr k k0 k' E). destruct (eqb k k'); reflexivity.
      + rewrite IH. destruct (eqb k k') eqn:E2; [|reflexivity].
        destruct (eqb k k0) eqn:E3; [|reflexivity].
        apply eqb_f in E2. apply eqb_f in E3. assert (E4 : f k0 = f k') by congruence. apply eqb_f in E4. congruence.
  Qed.
End KMap.

Lemma str_eqb_f a b : str_eqb a b = true <-> (fun x : str => x) a = (fun x => x) b.
Proof. apply str_eqb_spec. Qed.

Lemma tkey_eqb_f (a b : tkey) : tkey_eqb a b = true <-> (fun x : tkey => x) a = (fun x => x) b.
Proof.
  destruct a as [[a1 a2] a3], b as [[b1 b2] b3]. cbn [tkey_eqb].
  rewrite !andb_true_iff, !str_eqb_spec. split; [intros [[-> ->] ->]; reflexivity | intros H; inversion H; auto].
Qed.

Lemma list_eqb_eq {A} (eqb : A -> A -> bool) (Hs : forall x y, eqb x y = true -> x = y) :
  forall a b, list_eqb eqb a b = true -> a = b.
Proof.
  induction a as [|x a IH]; intros [|y b] H; cbn in H; try discriminate; [reflexivity|].
  apply andb_true_iff in H. destruct H as [H1 H2]. f_equal; [apply Hs; exact H1 | apply IH; exact H2].
Qed.

Lemma param_eqb_eq a b : param_eqb a b = true -> a = b.
Proof.
  destruct a, b; cbn [param_eqb]; intros H; try discriminate;
    repeat (apply andb_true_iff in H; let H2 := fresh "H" in destruct H as [H H2]);
    repeat match goal with
           | X : json_eqb _ _ = true |- _ => apply json_eqb_eq in X; subst
           | X : list_eqb json_eqb _ _ = true |- _ => apply (list_eqb_eq _ json_eqb_eq) in X; subst
           end; reflexivity.
Qed.

Lemma op_core_eqb_eq a b : op_core_eqb a b = true -> op_core a = op_core b.
Proof.
  unfold op_core_eqb, op_core. intros H.
  repeat (apply andb_true_iff in H; let H2 := fresh "H" in destruct H as [H H2]).
  repeat match goal with
         | X : str_eqb _ _ = true |- _ => apply str_eqb_spec in X; rewrite X; clear X
         | X : json_eqb _ _ = true |- _ => apply json_eqb_eq in X; rewrite X; clear X
         | X : list_eqb param_eqb _ _ = true |- _ => apply (list_eqb_eq _ param_eqb_eq) in X; rewrite X; clear X
         end.
  reflexivity.
Qed.

(* results up to the scope recorded in the operation *)
Definition res_proj {T} (proj : operation -> T) (r : res operation) : res T :=
  match r with Val o => Val (proj o) | Raise e => Raise e end.
Definition result_proj {T} (proj : operation -> T) (r : result) :=
  match r with RIter x => inl x | ROp r => inr (res_proj proj r) end.
Definition res_core := res_proj op_core.
Definition result_core := result_proj op_core.

Definition post_of (a : access) (r : res operation) : res operation :=
  match a with AGet _ _ => to_lookup_error r | _ => r end.

(* what a lookup returns on an empty cache, in terms of its plan *)
Definition planned (a : access) (pl : plan) : res operation :=
  let '(_, b, idf, _) := pl in
  post_of a (match b with Val o => if id_ok (idf o) then Val o else Raise EType | Raise e => Raise e end).

Section Cache.
  Variable v : version.
  Variable doc : json.

  Definition fresh_op (a : access) : res operation :=
    match fresh v doc a with ROp r => r | RIter _ => Raise EOther end.

  Lemma by_tk_empty c tk : c_tks c = [] -> by_tk c tk = None.
  Proof. unfold by_tk. intros ->. reflexivity. Qed.

  Lemma finish_fresh c tk b idf rf :
    c_tks c = [] ->
    fst (finish c tk b idf rf) = match b with Val o => if id_ok (idf o) then Val o else Raise EType | Raise e => Raise e end.
  Proof.
    intros H. unfold finish. rewrite (by_tk_empty _ _ H). destruct b as [o|e]; [|reflexivity].
    unfold insert_operation, id_ok. destruct (idf o) as [i|].
    - destruct (hashable i); reflexivity.
    - destruct rf; reflexivity.
  Qed.

  Lemma fresh_planned a pl : pgo v doc a = Some pl -> fresh_op a = planned a pl.
  Proof.
    unfold fresh_op, fresh. destruct a as [|p m|i|r]; cbn [pgo step]; [discriminate| | |].
    - unfold access_get, get_map. cbn [c_maps empty_cache kget].
      destruct (fresh_map doc p) as [[scope item]|e]; [|discriminate].
      destruct (ci_get (lower_ascii m) match item with JObj kvs => kvs | _ => [] end) as [opj|]; [|discriminate].
      intros H; inversion H; subst pl. cbn [planned post_of].
      match goal with |- context [finish ?c ?tk ?b ?idf ?rf] =>
        pose proof (finish_fresh c tk b idf rf eq_refl) as F; destruct (finish c tk b idf rf) as [r c2] end.
      cbn [fst] in *. rewrite F. reflexivity.
    - unfold access_id. cbn [by_id c_ids empty_cache kget c_defs is_nil].
      destruct (populate doc []) as [defs [e|]]; [discriminate|]. cbn [with_defs c_defs].
      destruct (kget py_eq (JStr i) defs) as [en|]; [|discriminate].
      intros H; inversion H; subst pl. cbn [planned post_of].
      match goal with |- context [finish ?c ?tk ?b ?idf ?rf] =>
        pose proof (finish_fresh c tk b idf rf eq_refl) as F; destruct (finish c tk b idf rf) as [r c2] end.
      cbn [fst] in *. rewrite F. reflexivity.
    - unfold access_ref. cbn [by_ref c_refs empty_cache kget].
      destruct (resolve doc r) as [[url opj]|e]; [|discriminate].
      destruct (last_two (split_on 47 url)) as [[p m]|]; [|discriminate].
      intros H; inversion H; subst pl. cbn [planned post_of].
      match goal with |- context [finish ?c ?tk ?b ?idf ?rf] =>
        pose proof (finish_fresh c tk b idf rf eq_refl) as F; destruct (finish c tk b idf rf) as [x c2] end.
      cbn [fst] in *. rewrite F. reflexivity.
  Qed.
End Cache.

Section Cache2.
  Variable v : version.
  Variable doc : json.
  Variable U : list access.
  Variable T : Type.
  Variable proj : operation -> T.
  Variable eqb : operation -> operation -> bool.
  Hypothesis eqb_sound : forall a b, eqb a b = true -> proj a = proj b.
  Hypothesis Hcoh : coherent_gen eqb v doc U = true.

  Notation fresh_op := (fresh_op v doc).
  Definition good (a : access) (o : operation) : Prop := exists o', fresh_op a = Val o' /\ proj o' = proj o.

  Record Inv (c : cache) : Prop := {
    inv_maps : forall p m, kget str_eqb p (c_maps c) = Some m -> fresh_map doc p = Val m;
    inv_defs : c_defs c = [] \/ populate doc [] = (c_defs c, None);
    inv_itk : forall k i, kget tkey_eqb k (c_tks c) = Some i -> (i < List.length (c_ops c))%nat;
    inv_iid : forall k i, kget py_eq k (c_ids c) = Some i -> (i < List.length (c_ops c))%nat;
    inv_iref : forall k i, kget str_eqb k (c_refs c) = Some i -> (i < List.length (c_ops c))%nat;
    inv_tk : forall a tk b idf rf o, In a U -> pgo v doc a = Some (tk, b, idf, rf) -> by_tk c tk = Some o -> good a o;
    inv_id : forall i o, In (AById i) U -> by_id c (JStr i) = Some o -> good (AById i) o;
    inv_ref : forall r o, In (AByRef r) U -> by_ref c r = Some o -> good (AByRef r) o }.

  Lemma coh_self a : In a U -> self_ok v doc a = true.
  Proof.
    intros H. unfold coherent_gen in Hcoh. apply andb_true_iff in Hcoh. destruct Hcoh as [H1 _].
    apply andb_true_iff in H1. destruct H1 as [H1 _]. rewrite forallb_forall in H1. apply H1; exact H.
  Qed.
  Lemma coh_pair a b : In a U -> In b U -> pair_ok_gen eqb v doc a b = true.
  Proof.
    intros Ha Hb. unfold coherent_gen in Hcoh. apply andb_true_iff in Hcoh. destruct Hcoh as [H1 _].
    apply andb_true_iff in H1. destruct H1 as [_ H1]. rewrite forallb_forall in H1. specialize (H1 a Ha).
    rewrite forallb_forall in H1. apply H1; exact Hb.
  Qed.
  Lemma coh_pop i : In (AById i) U -> exists defs, populate doc [] = (defs, None).
  Proof.
    intros H. unfold coherent_gen in Hcoh. apply andb_true_iff in Hcoh. destruct Hcoh as [_ H1].
    apply orb_true_iff in H1. destruct H1 as [H1|H1].
    - apply negb_true_iff in H1. assert (E : existsb is_by_id U = true) by (apply existsb_exists; exists (AById i); split; [exact H | reflexivity]).
      congruence.
    - unfold populate_ok in H1. destruct (populate doc []) as [defs [e|]]; [discriminate|]. exists defs; reflexivity.
  Qed.

  Lemma good_of_plan a tk o idf rf : In a U -> pgo v doc a = Some (tk, Val o, idf, rf) -> fresh_op a = Val o.
  Proof.
    intros Ha Hp. rewrite (fresh_planned v doc a _ Hp). cbn [planned].
    pose proof (coh_self a Ha) as S. unfold self_ok in S. rewrite Hp in S. rewrite S. destruct a; reflexivity.
  Qed.

  Lemma op_at_app c o i : (i < List.length (c_ops c))%nat -> nth_error (c_ops c ++ [o]) i = nth_error (c_ops c) i.
  Proof. intros H. apply nth_error_app1. exact H. Qed.
  Lemma op_at_new c o : nth_error (c_ops c ++ [o]) (List.length (c_ops c)) = Some o.
  Proof. rewrite nth_error_app2 by lia. rewrite Nat.sub_diag. reflexivity. Qed.

  (* the generic step: consult the traversal key, otherwise build and insert *)
  Lemma finish_step c a tk b idf rf x c' :
    Inv c -> In a U -> pgo v doc a = Some (tk, b, idf, rf) ->
    (forall r, rf = Some r -> a = AByRef r) ->
    finish c tk b idf rf = (x, c') ->
    res_proj proj (post_of a x) = res_proj proj (fresh_op a) /\ Inv c'.
  Proof.
    intros I Ha Hp Hrf Hf. unfold finish in Hf.
    destruct (by_tk c tk) as [o|] eqn:Etk.
    - inversion Hf; subst x c'. split; [|exact I].
      destruct (inv_tk c I a tk b idf rf o Ha Hp Etk) as [o' [Hfo Hc]]. rewrite Hfo.
      replace (post_of a (Val o)) with (Val o : res operation) by (destruct a; reflexivity). cbn [res_proj]. rewrite Hc. reflexivity.
    - destruct b as [o|e].
      2:{ inversion Hf; subst x c'. split; [|exact I]. rewrite (fresh_planned v doc a _ Hp). reflexivity. }
      pose proof (coh_self a Ha) as S. unfold self_ok in S. rewrite Hp in S.
      pose proof (good_of_plan a tk o idf rf Ha Hp) as Hfresh.
      assert (Hgood_tk : forall a' tk' b' idf' rf', In a' U -> pgo v doc a' = Some (tk', b', idf', rf') -> tkey_eqb tk' tk = true -> good a' o).
      { intros a' tk' b' idf' rf' Ha' Hp' Ek. pose proof (coh_pair a a' Ha Ha') as P. unfold pair_ok_gen in P. rewrite Hp, Hp' in P.
        apply andb_true_iff in P. destruct P as [P _].
        assert (Ek' : tkey_eqb tk tk' = true) by (apply tkey_eqb_f; apply tkey_eqb_f in Ek; congruence).
        rewrite Ek' in P. cbn [negb orb] in P. destruct b' as [ob|]; [|discriminate].
        exists ob. split; [eapply good_of_plan; eauto | symmetry; apply eqb_sound; exact P]. }
      assert (Hgood_id : forall i j, idf o = Some i -> In (AById j) U -> py_eq (JStr j) i = true -> good (AById j) o).
      { intros i j Hi Hj Ej. pose proof (coh_pair a (AById j) Ha Hj) as P. unfold pair_ok_gen in P. rewrite Hp in P. rewrite Hi in P.
        destruct (pgo v doc (AById j)) as [[[[tkb bb] idfb] rfb]|] eqn:Hpb.
        - apply andb_true_iff in P. destruct P as [_ P]. rewrite Ej in P. cbn [negb orb] in P.
          destruct bb as [ob|]; [|discriminate]. exists ob. split; [eapply good_of_plan; eauto | symmetry; apply eqb_sound; exact P].
        - rewrite Ej in P. discriminate. }
      unfold insert_operation in Hf.
      set (idx := List.length (c_ops c)) in *.
      destruct (idf o) as [i|] eqn:Ei.
      + cbn [id_ok] in S. rewrite S in Hf. inversion Hf; subst x c'. clear Hf.
        split; [rewrite Hfresh; destruct a; reflexivity|].
        constructor; cbn [c_maps c_defs c_tks c_ids c_refs c_ops].
        * apply (inv_maps c I).
        * apply (inv_defs c I).
        * intros k n. rewrite (kget_kset tkey_eqb _ tkey_eqb_f). rewrite app_length; cbn [List.length].
          destruct (tkey_eqb k tk); [intros H; inversion H; subst; unfold idx; lia | intros H; apply (inv_itk c I) in H; lia].
        * intros k n. rewrite (kget_kset py_eq norm py_eq_norm). rewrite app_length; cbn [List.length].
          destruct (py_eq k i); [intros H; inversion H; subst; unfold idx; lia | intros H; apply (inv_iid c I) in H; lia].
        * intros k n H. rewrite app_length; cbn [List.length]. apply (inv_iref c I) in H; lia.
        * intros a' tk' b' idf' rf' o2 Ha' Hp'. unfold by_tk, op_at. cbn [c_tks c_ops].
          rewrite (kget_kset tkey_eqb _ tkey_eqb_f). destruct (tkey_eqb tk' tk) eqn:Ek.
          -- unfold idx. rewrite op_at_new. intros H; inversion H; subst o2. eapply Hgood_tk; eauto.
          -- destruct (kget tkey_eqb tk' (c_tks c)) as [n|] eqn:En; [|discriminate].
             rewrite (op_at_app c o n (inv_itk c I _ _ En)). intros H.
             apply (inv_tk c I a' tk' b' idf' rf' o2 Ha' Hp'). unfold by_tk, op_at. rewrite En. exact H.
        * intros j o2 Hj. unfold by_id, op_at. cbn [c_ids c_ops].
          rewrite (kget_kset py_eq norm py_eq_norm). destruct (py_eq (JStr j) i) eqn:Ej.
          -- unfold idx. rewrite op_at_new. intros H; inversion H; subst o2. eapply Hgood_id; eauto.
          -- destruct (kget py_eq (JStr j) (c_ids c)) as [n|] eqn:En; [|discriminate].
             rewrite (op_at_app c o n (inv_iid c I _ _ En)). intros H.
             apply (inv_id c I j o2 Hj). unfold by_id, op_at. rewrite En. exact H.
        * intros r o2 Hr. unfold by_ref, op_at. cbn [c_refs c_ops].
          destruct (kget str_eqb r (c_refs c)) as [n|] eqn:En; [|discriminate].
          rewrite (op_at_app c o n (inv_iref c I _ _ En)). intros H.
          apply (inv_ref c I r o2 Hr). unfold by_ref, op_at. rewrite En. exact H.
      + assert (Hc' : x = Val o /\ c' = {| c_defs := c_defs c; c_ids := c_ids c; c_tks := kset tkey_eqb tk idx (c_tks c);
                    c_refs := match rf with Some r => kset str_eqb r idx (c_refs c) | None => c_refs c end;
                    c_ops := c_ops c ++ [o]; c_maps := c_maps c |}).
        { destruct rf; inversion Hf; split; reflexivity. }
        destruct Hc' as [-> ->]. clear Hf.
        split; [rewrite Hfresh; destruct a; reflexivity|].
        constructor; cbn [c_maps c_defs c_tks c_ids c_refs c_ops].
        * apply (inv_maps c I).
        * apply (inv_defs c I).
        * intros k n. rewrite (kget_kset tkey_eqb _ tkey_eqb_f). rewrite app_length; cbn [List.length].
          destruct (tkey_eqb k tk); [intros H; inversion H; subst; unfold idx; lia | intros H; apply (inv_itk c I) in H; lia].
        * intros k n H. rewrite app_length; cbn [List.length]. apply (inv_iid c I) in H; lia.
        * intros k n. rewrite app_length; cbn [List.length]. destruct rf as [r|].
          -- rewrite (kget_kset str_eqb _ str_eqb_f). destruct (str_eqb k r); [intros H; inversion H; subst; unfold idx; lia | intros H; apply (inv_iref c I) in H; lia].
          -- intros H; apply (inv_iref c I) in H; lia.
        * intros a' tk' b' idf' rf' o2 Ha' Hp'. unfold by_tk, op_at. cbn [c_tks c_ops].
          rewrite (kget_kset tkey_eqb _ tkey_eqb_f). destruct (tkey_eqb tk' tk) eqn:Ek.
          -- unfold idx. rewrite op_at_new. intros H; inversion H; subst o2. eapply Hgood_tk; eauto.
          -- destruct (kget tkey_eqb tk' (c_tks c)) as [n|] eqn:En; [|discriminate].
             rewrite (op_at_app c o n (inv_itk c I _ _ En)). intros H.
             apply (inv_tk c I a' tk' b' idf' rf' o2 Ha' Hp'). unfold by_tk, op_at. rewrite En. exact H.
        * intros j o2 Hj. unfold by_id, op_at. cbn [c_ids c_ops].
          destruct (kget py_eq (JStr j) (c_ids c)) as [n|] eqn:En; [|discriminate].
          rewrite (op_at_app c o n (inv_iid c I _ _ En)). intros H.
          apply (inv_id c I j o2 Hj). unfold by_id, op_at. rewrite En. exact H.
        * intros r' o2 Hr. unfold by_ref, op_at. cbn [c_refs c_ops]. destruct rf as [r|].
          -- rewrite (kget_kset str_eqb _ str_eqb_f). destruct (str_eqb r' r) eqn:Er.
             ++ unfold idx. rewrite op_at_new. intros H; inversion H; subst o2. apply str_eqb_spec in Er. subst r'.
                rewrite (Hrf r eq_refl) in Hfresh. exists o. split; [exact Hfresh | reflexivity].
             ++ destruct (kget str_eqb r' (c_refs c)) as [n|] eqn:En; [|discriminate].
                rewrite (op_at_app c o n (inv_iref c I _ _ En)). intros H.
                apply (inv_ref c I r' o2 Hr). unfold by_ref, op_at. rewrite En. exact H.
          -- destruct (kget str_eqb r' (c_refs c)) as [n|] eqn:En; [|discriminate].
             rewrite (op_at_app c o n (inv_iref c I _ _ En)). intros H.
             apply (inv_ref c I r' o2 Hr). unfold by_ref, op_at. rewrite En. exact H.
  Qed.
End Cache2.

Section Cache3.
  Variable v : version.
  Variable doc : json.
  Variable U : list access.
  Variable T : Type.
  Variable proj : operation -> T.
  Variable eqb : operation -> operation -> bool.
  Hypothesis eqb_sound : forall a b, eqb a b = true -> proj a = proj b.
  Hypothesis Hcoh : coherent_gen eqb v doc U = true.
  Notation fresh_op := (fresh_op v doc).
  Notation Inv := (Inv v doc U T proj).

  Lemma Inv_empty : Inv empty_cache.
  Proof.
    constructor; cbn [empty_cache c_maps c_defs c_tks c_ids c_refs c_ops kget]; try discriminate; try (left; reflexivity);
      intros; unfold by_tk, by_id, by_ref in *; cbn in *; discriminate.
  Qed.

  Lemma Inv_with_map c p m : Inv c -> fresh_map doc p = Val m -> Inv (with_map c p m).
  Proof.
    intros I Hm. destruct I. constructor; cbn [with_map c_maps c_defs c_tks c_ids c_refs c_ops]; auto.
    intros p' m'. rewrite (kget_kset str_eqb _ str_eqb_f). destruct (str_eqb p' p) eqn:E.
    - apply str_eqb_spec in E. subst p'. intros H; inversion H; subst. exact Hm.
    - apply inv_maps0.
  Qed.

  Lemma Inv_with_defs c d : Inv c -> populate doc [] = (d, None) -> Inv (with_defs c d).
  Proof.
    intros I Hd. destruct I. constructor; cbn [with_defs c_maps c_defs c_tks c_ids c_refs c_ops]; auto.
  Qed.

  Lemma step_get c p m x c' :
    Inv c -> In (AGet p m) U -> access_get v doc c p m = (x, c') ->
    res_proj proj x = res_proj proj (fresh_op (AGet p m)) /\ Inv c'.
  Proof.
    intros I Ha H. unfold access_get, get_map in H.
    assert (Hfm : forall mm, kget str_eqb p (c_maps c) = Some mm -> fresh_map doc p = Val mm) by (apply (inv_maps _ _ _ _ _ c I)).
    (* the fresh lookup, unfolded once *)
    assert (Hfresh : fresh_op (AGet p m) =
              match fresh_map doc p with
              | Raise e => Raise e
              | Val (scope, item) =>
                  match ci_get (lower_ascii m) match item with JObj kvs => kvs | _ => [] end with
                  | None => Raise ELookup
                  | Some opj => match pgo v doc (AGet p m) with Some pl => planned (AGet p m) pl | None => Raise EOther end
                  end
              end).
    { destruct (pgo v doc (AGet p m)) as [pl|] eqn:Hp.
      - rewrite (fresh_planned v doc _ _ Hp). cbn [pgo] in Hp.
        destruct (fresh_map doc p) as [[scope item]|e]; [|discriminate].
        destruct (ci_get (lower_ascii m) match item with JObj kvs => kvs | _ => [] end); [reflexivity | discriminate].
      - unfold Proofs_C08.fresh_op, fresh. cbn [step]. unfold access_get, get_map. cbn [c_maps empty_cache kget].
        cbn [pgo] in Hp. destruct (fresh_map doc p) as [[scope item]|e]; [|reflexivity].
        destruct (ci_get (lower_ascii m) match item with JObj kvs => kvs | _ => [] end); [discriminate | reflexivity]. }
    assert (Hmain : forall scope item c1, Inv c1 -> fresh_map doc p = Val (scope, item) ->
              (let kvs := match item with JObj kvs => kvs | _ => [] end in
               match ci_get (lower_ascii m) kvs with
               | None => (Raise ELookup, c1)
               | Some opj =>
                   let '(r, c2) := finish c1 (scope, p, lower_ascii m) (build_by_path v doc p (lower_ascii m) scope kvs opj) id_of_resolved None in
                   (to_lookup_error r, c2)
               end) = (x, c') -> res_proj proj x = res_proj proj (fresh_op (AGet p m)) /\ Inv c').
    { intros scope item c1 I1 Hm. cbn zeta. rewrite Hfresh, Hm.
      destruct (ci_get (lower_ascii m) match item with JObj kvs => kvs | _ => [] end) as [opj|] eqn:Eci.
      - destruct (finish c1 _ _ id_of_resolved None) as [r c2] eqn:Ef. intros E; inversion E; subst x c'.
        assert (Hp : pgo v doc (AGet p m) = Some ((scope, p, lower_ascii m),
                       build_by_path v doc p (lower_ascii m) scope match item with JObj kvs => kvs | _ => [] end opj, id_of_resolved, None)).
        { cbn [pgo]. rewrite Hm, Eci. reflexivity. }
        destruct (finish_step v doc U T proj eqb eqb_sound Hcoh c1 (AGet p m) _ _ _ _ r c2 I1 Ha Hp (fun r0 E0 => ltac:(discriminate)) Ef) as [R I2].
        split; [|exact I2]. rewrite Hp. rewrite <- (fresh_planned v doc _ _ Hp). exact R.
      - intros E; inversion E; subst x c'. split; [reflexivity | exact I1]. }
    destruct (kget str_eqb p (c_maps c)) as [[scope item]|] eqn:Ek.
    - apply (Hmain scope item c I (Hfm _ eq_refl)). exact H.
    - destruct (fresh_map doc p) as [[scope item]|e] eqn:Em.
      + apply (Hmain scope item (with_map c p (scope, item))); [apply Inv_with_map; assumption | reflexivity | exact H].
      + inversion H; subst x c'. split; [rewrite Hfresh; reflexivity | exact I].
  Qed.
End Cache3.

Section Cache4.
  Variable v : version.
  Variable doc : json.
  Variable U : list access.
  Variable T : Type.
  Variable proj : operation -> T.
  Variable eqb : operation -> operation -> bool.
  Hypothesis eqb_sound : forall a b, eqb a b = true -> proj a = proj b.
  Hypothesis Hcoh : coherent_gen eqb v doc U = true.
  Notation fresh_op := (fresh_op v doc).
  Notation Inv := (Inv v doc U T proj).

  Lemma step_id c i x c' :
    Inv c -> In (AById i) U -> access_id v doc c i = (x, c') ->
    res_proj proj x = res_proj proj (fresh_op (AById i)) /\ Inv c'.
  Proof.
    intros I Ha H. unfold access_id in H.
    destruct (by_id c (JStr i)) as [o|] eqn:Eid.
    - inversion H; subst x c'. split; [|exact I].
      destruct (inv_id _ _ _ _ _ c I i o Ha Eid) as [o' [Hf Hc]]. rewrite Hf. cbn [res_proj]. rewrite Hc. reflexivity.
    - destruct (coh_pop v doc U eqb Hcoh i Ha) as [defs Hpop].
      assert (Hfresh : fresh_op (AById i) =
                match kget py_eq (JStr i) defs with
                | None => Raise (missing_id_error defs)
                | Some en => match pgo v doc (AById i) with Some pl => planned (AById i) pl | None => Raise EOther end
                end).
      { destruct (pgo v doc (AById i)) as [pl|] eqn:Hp.
        - rewrite (fresh_planned v doc _ _ Hp). cbn [pgo] in Hp. rewrite Hpop in Hp.
          destruct (kget py_eq (JStr i) defs); [reflexivity | discriminate].
        - unfold Proofs_C08.fresh_op, fresh. cbn [step]. unfold access_id. cbn [by_id c_ids empty_cache kget c_defs is_nil].
          rewrite Hpop. cbn [with_defs c_defs]. cbn [pgo] in Hp. rewrite Hpop in Hp.
          destruct (kget py_eq (JStr i) defs); [discriminate | reflexivity]. }
      assert (Hc1 : exists c1, Inv c1 /\ c_defs c1 = defs /\
                (let '(c1', crash) := if is_nil (c_defs c)
                          then let '(d, x0) := populate doc (c_defs c) in (with_defs c d, x0)
                          else (c, None) in (c1', crash)) = (c1, None)).
      { destruct (c_defs c) as [|d0 dr] eqn:Ed; cbn [is_nil].
        - rewrite Hpop. exists (with_defs c defs). split; [apply Inv_with_defs; assumption|]. split; reflexivity.
        - exists c. split; [exact I|]. split; [|reflexivity].
          destruct (inv_defs _ _ _ _ _ c I) as [E|E]; [congruence|]. rewrite Hpop in E. inversion E. congruence. }
      destruct Hc1 as [c1 [I1 [Hd1 Hc1]]].
      match type of H with (let '(_, _) := ?e in _) = _ =>
        match type of Hc1 with (let '(_, _) := ?e' in _) = _ => change e with e' in H end end.
      destruct (if is_nil (c_defs c) then let '(d, x0) := populate doc (c_defs c) in (with_defs c d, x0) else (c, None)) as [c1' crash].
      inversion Hc1; subst c1' crash. rewrite Hd1 in H. rewrite Hfresh.
      destruct (kget py_eq (JStr i) defs) as [en|] eqn:Ek.
      + assert (Hp : pgo v doc (AById i) = Some ((e_scope en, e_path en, e_method en), build_by_id v doc en, (fun _ => Some (JStr i)), None)).
        { cbn [pgo]. rewrite Hpop, Ek. reflexivity. }
        destruct (finish_step v doc U T proj eqb eqb_sound Hcoh c1 (AById i) _ _ _ _ x c' I1 Ha Hp (fun r0 E0 => ltac:(discriminate)) H) as [R I2].
        split; [|exact I2]. rewrite Hp. rewrite <- (fresh_planned v doc _ _ Hp). exact R.
      + inversion H; subst x c'. split; [reflexivity | exact I1].
  Qed.

  Lemma step_ref c r x c' :
    Inv c -> In (AByRef r) U -> access_ref v doc c r = (x, c') ->
    res_proj proj x = res_proj proj (fresh_op (AByRef r)) /\ Inv c'.
  Proof.
    intros I Ha H. unfold access_ref in H.
    destruct (by_ref c r) as [o|] eqn:Er.
    - inversion H; subst x c'. split; [|exact I].
      destruct (inv_ref _ _ _ _ _ c I r o Ha Er) as [o' [Hf Hc]]. rewrite Hf. cbn [res_proj]. rewrite Hc. reflexivity.
    - assert (Hfresh : fresh_op (AByRef r) =
                match resolve doc r with
                | Raise e => Raise e
                | Val (url, opj) =>
                    match last_two (split_on 47 url) with
                    | None => Raise EValue
                    | Some _ => match pgo v doc (AByRef r) with Some pl => planned (AByRef r) pl | None => Raise EOther end
                    end
                end).
      { destruct (pgo v doc (AByRef r)) as [pl|] eqn:Hp.
        - rewrite (fresh_planned v doc _ _ Hp). cbn [pgo] in Hp.
          destruct (resolve doc r) as [[url opj]|e]; [|discriminate].
          destruct (last_two (split_on 47 url)) as [[p m]|]; [reflexivity | discriminate].
        - unfold Proofs_C08.fresh_op, fresh. cbn [step]. unfold access_ref. cbn [by_ref c_refs empty_cache kget].
          cbn [pgo] in Hp. destruct (resolve doc r) as [[url opj]|e]; [|reflexivity].
          destruct (last_two (split_on 47 url)) as [[p m]|]; [discriminate | reflexivity]. }
      rewrite Hfresh.
      destruct (resolve doc r) as [[url opj]|e] eqn:Eres.
      2:{ inversion H; subst x c'. split; [reflexivity | exact I]. }
      destruct (last_two (split_on 47 url)) as [[p m]|] eqn:El.
      2:{ inversion H; subst x c'. split; [reflexivity | exact I]. }
      assert (Hp : pgo v doc (AByRef r) = Some (([], unescape p, m), build_by_ref v doc r url (unescape p) m opj, (fun _ => None), Some r)).
      { cbn [pgo]. rewrite Eres, El. reflexivity. }
      destruct (finish_step v doc U T proj eqb eqb_sound Hcoh c (AByRef r) _ _ _ _ x c' I Ha Hp (fun r0 E0 => ltac:(inversion E0; reflexivity)) H) as [R I2].
      split; [|exact I2]. rewrite Hp. rewrite <- (fresh_planned v doc _ _ Hp). exact R.
  Qed.

  Lemma run_refines accs : forall c, Inv c -> incl accs U ->
    map (result_proj proj) (run v doc c accs) = map (fun a => result_proj proj (fresh v doc a)) accs.
  Proof.
    induction accs as [|a r IH]; intros c I Hin; [reflexivity|].
    assert (Ha : In a U) by (apply Hin; left; reflexivity).
    assert (Hr : incl r U) by (intros z Hz; apply Hin; right; exact Hz).
    cbn [run map]. destruct (step v doc c a) as [x c'] eqn:Es.
    destruct a as [|p m|i|rf]; cbn [step] in Es.
    - inversion Es; subst x c'. cbn [map]. rewrite (IH c I Hr). reflexivity.
    - destruct (access_get v doc c p m) as [y c2] eqn:E. inversion Es; subst x c'.
      destruct (step_get v doc U T proj eqb eqb_sound Hcoh c p m y c2 I Ha E) as [R I2]. cbn [map]. rewrite (IH c2 I2 Hr). f_equal.
      cbn [result_proj]. rewrite R. unfold fresh_op. destruct (fresh v doc (AGet p m)) eqn:Ef; [|reflexivity].
      unfold fresh in Ef. cbn [step] in Ef. destruct (access_get v doc empty_cache p m); discriminate.
    - destruct (access_id v doc c i) as [y c2] eqn:E. inversion Es; subst x c'.
      destruct (step_id c i y c2 I Ha E) as [R I2]. cbn [map]. rewrite (IH c2 I2 Hr). f_equal.
      cbn [result_proj]. rewrite R. unfold fresh_op. destruct (fresh v doc (AById i)) eqn:Ef; [|reflexivity].
      unfold fresh in Ef. cbn [step] in Ef. destruct (access_id v doc empty_cache i); discriminate.
    - destruct (access_ref v doc c rf) as [y c2] eqn:E. inversion Es; subst x c'.
      destruct (step_ref c rf y c2 I Ha E) as [R I2]. cbn [map]. rewrite (IH c2 I2 Hr). f_equal.
      cbn [result_proj]. rewrite R. unfold fresh_op. destruct (fresh v doc (AByRef rf)) eqn:Ef; [|reflexivity].
      unfold fresh in Ef. cbn [step] in Ef. destruct (access_ref v doc empty_cache rf); discriminate.
  Qed.
End Cache4.

Lemma cache_refines_fresh v doc accs :
  coherent v doc accs = true ->
  map result_core (run v doc empty_cache accs) = map (fun a => result_core (fresh v doc a)) accs.
Proof.
  intros H. apply (run_refines v doc accs _ op_core op_core_eqb op_core_eqb_eq H accs empty_cache); [apply Inv_empty | apply incl_refl].
Qed.

Lemma op_full_eqb_eq a b : op_full_eqb a b = true -> a = b.
Proof.
  unfold op_full_eqb. intros H. apply andb_true_iff in H. destruct H as [H1 H2].
  apply op_core_eqb_eq in H1. apply str_eqb_spec in H2. unfold op_core in H1.
  destruct a, b. cbn in *. inversion H1. subst. reflexivity.
Qed.

Lemma result_proj_id_inj r1 r2 : result_proj (fun o => o) r1 = result_proj (fun o => o) r2 -> r1 = r2.
Proof.
  destruct r1 as [x1|[o1|e1]], r2 as [x2|[o2|e2]]; cbn [result_proj res_proj]; intros H; try discriminate; congruence.
Qed.

(* with the scope: the operations themselves are equal *)
Lemma cache_refines_fresh_strict v doc accs :
  coherent_strict v doc accs = true ->
  run v doc empty_cache accs = map (fresh v doc) accs.
Proof.
  intros H.
  pose proof (run_refines v doc accs _ (fun o => o) op_full_eqb op_full_eqb_eq H accs empty_cache (Inv_empty _ _ _ _ _) (incl_refl _)) as E.
  remember (run v doc empty_cache accs) as rs eqn:Er. clear Er H.
  revert rs E. induction accs as [|a r IH]; intros [|x rs] E; cbn [map] in *; try discriminate; [reflexivity|].
  inversion E as [[E1 E2]]. f_equal; [apply result_proj_id_inj; exact E1 | apply IH; exact E2].
Qed.

Lemma cache_refines_fresh_views conv v doc accs :
  coherent_strict v doc accs = true ->
  map (result_view_of conv v) (run v doc empty_cache accs) = map (fun a => result_view_of conv v (fresh v doc a)) accs.
Proof. intros H. rewrite (cache_refines_fresh_strict v doc accs H), map_map. reflexivity. Qed.

(* the scope recorded by a lookup by path and method or by operationId is the scope component of
   its traversal key; a lookup by reference records the URL of the reference under the root scope *)
Lemma build_op_scope v doc path method shared entry resolved scope o :
  build_op v doc path method shared entry resolved scope = Val o -> o_scope o = scope /\ o_path o = path /\ o_method o = method.
Proof.
  unfold build_op. intros H.
  destruct (py_get_d resolved k_parameters (JArr [])); cbn [bind] in H; [|discriminate].
  destruct (collect v doc a shared resolved); cbn [bind] in H; [|discriminate].
  apply make_operation_ident in H. unfold ident in H. inversion H. auto.
Qed.

Lemma lookup_scope_is_key v doc a tk idf rf o :
  pgo v doc a = Some (tk, Val o, idf, rf) ->
  match a with
  | AByRef r => fst (fst tk) = [] /\ exists opj, resolve doc r = Val (o_scope o, opj)
  | _ => o_scope o = fst (fst tk)
  end /\ o_path o = snd (fst tk) /\ o_method o = snd tk.
Proof.
  destruct a as [|p m|i|r]; cbn [pgo]; [discriminate| | |].
  - destruct (fresh_map doc p) as [[scope item]|]; [|discriminate].
    destruct (ci_get _ _) as [opj|]; [|discriminate]. intros H; inversion H as [[Htk Hb Hidf Hrf]]. clear H Hidf Hrf. subst tk.
    unfold build_by_path in Hb.
    destruct (resolve_op doc opj); cbn [bind] in Hb; [|discriminate].
    destruct (resolve_op doc _); cbn [bind] in Hb; [|discriminate].
    apply build_op_scope in Hb. cbn [fst snd]. tauto.
  - destruct (populate doc []) as [defs [e|]]; [discriminate|].
    destruct (kget py_eq (JStr i) defs) as [en|]; [|discriminate]. intros H; inversion H as [[Htk Hb Hidf Hrf]]. clear H Hidf Hrf. subst tk.
    unfold build_by_id in Hb.
    destruct (resolve_op doc (e_op en)); cbn [bind] in Hb; [|discriminate].
    destruct (shared_parameters doc (e_item en)); cbn [bind] in Hb; [|discriminate].
    apply build_op_scope in Hb. cbn [fst snd]. tauto.
  - destruct (resolve doc r) as [[url opj]|] eqn:Er; [|discriminate].
    destruct (last_two (split_on 47 url)) as [[p m]|]; [|discriminate]. intros H; inversion H as [[Htk Hb Hidf Hrf]]. clear H Hidf Hrf. subst tk.
    unfold build_by_ref in Hb.
    destruct (resolve_op doc opj); cbn [bind] in Hb; [|discriminate].
    destruct (before_last_slash r); cbn [bind] in Hb; [|discriminate].
    destruct (resolve doc s) as [[u pi]|]; cbn [bind] in Hb; [|discriminate].
    destruct (shared_parameters doc pi); cbn [bind] in Hb; [|discriminate].
    apply build_op_scope in Hb. cbn [fst snd]. destruct Hb as [Hs [Hp Hm]]. rewrite Hs.
    split; [split; [reflexivity | exists opj; reflexivity] | split; assumption].
Qed.

(* the id scan records every operation with the scope of ITS OWN path item: the root scope for an
   inline path item, the URL of the reference for a path item behind $ref *)
Definition own_scope (doc : json) (paths : list (str * json)) (en : entry) : Prop :=
  exists pi, In (e_path en, pi) paths /\ resolve_path_item doc pi = Val (e_scope en, e_item en)
             /\ exists kvs, py_items (e_item en) = Val kvs /\ In (e_method en, e_op en) kvs.

Lemma kset_in (P : entry -> Prop) id en0 : forall defs,
  (forall k en, In (k, en) defs -> P en) -> P en0 ->
  forall k en, In (k, en) (kset py_eq id en0 defs) -> P en.
Proof.
  induction defs as [|[k' en'] dr IHd]; intros Hd H0 k en Hin; cbn [kset] in Hin.
  - destruct Hin as [Hin|[]]. inversion Hin; subst. exact H0.
  - destruct (py_eq id k').
    + destruct Hin as [Hin|Hin]; [inversion Hin; subst; exact H0 | eapply Hd; right; exact Hin].
    + destruct Hin as [Hin|Hin]; [inversion Hin; subst; eapply Hd; left; reflexivity|].
      eapply IHd; [intros; eapply Hd; right; eassumption | exact H0 | exact Hin].
Qed.

Lemma populate_entries_own (P : entry -> Prop) path scope item kvs : forall defs defs' x,
  (forall k en, In (k, en) defs -> P en) ->
  (forall key e, In (key, e) kvs -> P {| e_path := path; e_method := key; e_scope := scope; e_item := item; e_op := e |}) ->
  populate_entries path scope item kvs defs = (defs', x) ->
  forall k en, In (k, en) defs' -> P en.
Proof.
  induction kvs as [|[key e] r IH]; intros defs defs' x Hd Hk H; cbn [populate_entries] in H.
  - inversion H; subst. exact Hd.
  - assert (Hr : forall key0 e0, In (key0, e0) r -> P {| e_path := path; e_method := key0; e_scope := scope; e_item := item; e_op := e0 |})
      by (intros; apply Hk; right; assumption).
    destruct (negb (is_http_method key)); [eapply IH; eauto|].
    destruct (py_in k_operationId e) as [[|]|]; [| eapply IH; eauto | inversion H; subst; exact Hd].
    destruct (py_item e k_operationId) as [id|]; [|inversion H; subst; exact Hd].
    destruct (hashable id); [|inversion H; subst; exact Hd].
    eapply IH; [| exact Hr | exact H].
    apply kset_in; [exact Hd | apply Hk; left; reflexivity].
Qed.

Lemma populate_paths_own doc all paths : forall defs defs' x,
  (forall z, In z paths -> In z all) ->
  (forall k en, In (k, en) defs -> own_scope doc all en) ->
  populate_paths doc paths defs = (defs', x) ->
  forall k en, In (k, en) defs' -> own_scope doc all en.
Proof.
  induction paths as [|[path pi] r IH]; intros defs defs' x Hsub Hd H; cbn [populate_paths] in H.
  - inversion H; subst. exact Hd.
  - destruct (py_in k_ref pi) as [has|] eqn:Ehas; cbn [bind] in H; [|inversion H; subst; exact Hd].
    assert (Hrp : forall scope item, (if has then do x0 <- py_item pi k_ref; resolve_value doc x0 else Val ([], pi)) = Val (scope, item) ->
                  resolve_path_item doc pi = Val (scope, item)).
    { intros scope item E. unfold resolve_path_item. rewrite Ehas. cbn [bind]. exact E. }
    destruct (if has then do x0 <- py_item pi k_ref; resolve_value doc x0 else Val ([], pi)) as [[scope item]|] eqn:Esc;
      cbn [bind] in H; [|inversion H; subst; exact Hd].
    destruct (py_items item) as [kvs|] eqn:Ekv; cbn [bind] in H; [|inversion H; subst; exact Hd].
    assert (Hnew : forall key e0, In (key, e0) kvs ->
              own_scope doc all {| e_path := path; e_method := key; e_scope := scope; e_item := item; e_op := e0 |}).
    { intros key e0 Hin. exists pi. cbn. split; [apply Hsub; left; reflexivity|]. split; [apply Hrp; reflexivity|]. exists kvs. split; assumption. }
    destruct (populate_entries path scope item kvs defs) as [defs1 [e|]] eqn:Epe.
    + inversion H; subst. eapply (populate_entries_own (own_scope doc all)); [exact Hd | exact Hnew | exact Epe].
    + eapply IH; [intros; apply Hsub; right; assumption | | exact H].
      eapply (populate_entries_own (own_scope doc all)); [exact Hd | exact Hnew | exact Epe].
Qed.

Lemma populate_own doc paths defs x :
  py_get_d doc k_paths (JObj []) = Val (JObj paths) ->
  populate doc [] = (defs, x) -> forall k en, In (k, en) defs -> own_scope doc paths en.
Proof.
  unfold populate. intros Hp. rewrite Hp. cbn [py_items]. intros H.
  apply (populate_paths_own doc paths paths [] defs x); [intros z Hz; exact Hz | intros k en Hin; inversion Hin | exact H].
Qed.

(* witnesses: results that depend on earlier accesses *)
Definition s_x : str := [120%N].
Definition p_a : str := [47;97]%N.
Definition m_get : str := [103;101;116]%N.
Definition accs_dup : list access := [AGet p_a m_get; AById s_x].
Definition accs_twice_id : list access := [AById s_x; AById s_x].
Definition accs_twice_get : list access := [AGet p_a m_get; AGet p_a m_get].
Definition doc_unhashable : json :=
  JObj [([111;112;101;110;97;112;105]%N, JStr [51;46;48;46;50]%N);
        (k_paths, JObj [(p_a, JObj [(m_get, JObj [(k_operationId, JArr [])])])])].

Lemma cache_refuted_duplicate_id :
  map result_core (run V30 doc_dup empty_cache accs_dup) <> map (fun a => result_core (fresh V30 doc_dup a)) accs_dup
  /\ coherent V30 doc_dup accs_dup = false.
Proof. split; [vm_compute; discriminate | vm_compute; reflexivity]. Qed.

Lemma cache_refuted_failed_scan :
  map result_core (run V30 doc_partial empty_cache accs_twice_id) <> map (fun a => result_core (fresh V30 doc_partial a)) accs_twice_id
  /\ populate_ok doc_partial = false.
Proof. split; [vm_compute; discriminate | vm_compute; reflexivity]. Qed.

Lemma cache_refuted_unhashable_id :
  map result_core (run V30 doc_unhashable empty_cache accs_twice_get) <> map (fun a => result_core (fresh V30 doc_unhashable a)) accs_twice_get
  /\ forallb (self_ok V30 doc_unhashable) accs_twice_get = false.
Proof. split; [vm_compute; discriminate | vm_compute; reflexivity]. Qed.

Definition doc_good2 : json :=
  (JObj [([111;112;101;110;97;112;105]%N, (JStr [51;46;48;46;50]%N)); ([105;110;102;111]%N, (JObj [([116;105;116;108;101]%N, (JStr [116]%N)); ([118;101;114;115;105;111;110]%N, (JStr [49]%N))])); ([112;97;116;104;115]%N, (JObj [([47;97]%N, (JObj [([112;97;114;97;109;101;116;101;114;115]%N, (JArr [(JObj [([110;97;109;101]%N, (JStr [105;100]%N)); ([105;110]%N, (JStr [113;117;101;114;121]%N)); ([115;99;104;101;109;97]%N, (JObj [([116;121;112;101]%N, (JStr [105;110;116;101;103;101;114]%N))]))])])); ([103;101;116]%N, (JObj [([111;112;101;114;97;116;105;111;110;73;100]%N, (JStr [120]%N)); ([112;97;114;97;109;101;116;101;114;115]%N, (JArr [(JObj [([110;97;109;101]%N, (JStr [113]%N)); ([105;110]%N, (JStr [113;117;101;114;121]%N)); ([114;101;113;117;105;114;101;100]%N, (JBool true)); ([115;99;104;101;109;97]%N, (JObj [([116;121;112;101]%N, (JStr [115;116;114;105;110;103]%N))]))])])); ([114;101;115;112;111;110;115;101;115]%N, (JObj [([50;48;48]%N, (JObj [([100;101;115;99;114;105;112;116;105;111;110]%N, (JStr [111;107]%N))]))]))])); ([112;111;115;116]%N, (JObj [([112;97;114;97;109;101;116;101;114;115]%N, (JArr [(JObj [([36;114;101;102]%N, (JStr [35;47;99;111;109;112;111;110;101;110;116;115;47;112;97;114;97;109;101;116;101;114;115;47;77;73;83;83;73;78;71]%N))])])); ([114;101;115;112;111;110;115;101;115]%N, (JObj [([50;48;48]%N, (JObj [([100;101;115;99;114;105;112;116;105;111;110]%N, (JStr [111;107]%N))]))]))]))]))]))]).
Definition accs_good : list access :=
  [AGet p_a [71;69;84]%N; AById s_x; AByRef [35;47;112;97;116;104;115;47;126;49;97;47;103;101;116]%N; AIter; AById s_x; AGet p_a m_get;
   AGet [47;98]%N m_get; AById [110;111]%N].
Lemma coherent_nonvacuous :
  coherent V30 doc_good2 accs_good = true /\
  exists o, nth_error (run V30 doc_good2 empty_cache accs_good) 2 = Some (ROp (Val o)) /\ List.length (o_query o) = 2%nat.
Proof. split; [vm_compute; reflexivity|]. vm_compute. eexists. split; reflexivity. Qed.

(* the recorded scope depends on whether the operation was first reached by reference *)
Definition ref_a_get : str := [35;47;112;97;116;104;115;47;126;49;97;47;103;101;116]%N.
Definition accs_ref_first : list access := [AByRef ref_a_get; AGet p_a m_get].
Lemma cache_strict_refuted :
  run V30 doc_good2 empty_cache accs_ref_first <> map (fresh V30 doc_good2) accs_ref_first
  /\ coherent V30 doc_good2 accs_ref_first = true /\ coherent_strict V30 doc_good2 accs_ref_first = false
  /\ exists o1 o2, nth_error (run V30 doc_good2 empty_cache accs_ref_first) 1 = Some (ROp (Val o1))
                   /\ fresh V30 doc_good2 (AGet p_a m_get) = ROp (Val o2) /\ o_scope o1 = ref_a_get /\ o_scope o2 = [].
Proof.
  split; [vm_compute; discriminate|]. split; [vm_compute; reflexivity|]. split; [vm_compute; reflexivity|].
  vm_compute. do 2 eexists. repeat split.
Qed.

Definition accs_good_strict : list access :=
  [AById s_x; AGet p_a [71;69;84]%N; AIter; AById s_x; AGet p_a m_get; AGet [47;98]%N m_get; AById [110;111]%N].
Lemma coherent_strict_nonvacuous :
  coherent_strict V30 doc_good2 accs_good_strict = true /\
  exists o, nth_error (run V30 doc_good2 empty_cache accs_good_strict) 1 = Some (ROp (Val o)) /\ List.length (o_query o) = 2%nat.
Proof. split; [vm_compute; reflexivity|]. vm_compute. eexists. split; reflexivity. Qed.

(* ------------------------------------------------------------------ security-derived parameters (security.py:22)
   The already-defined test is by (name, location): what other containers hold never matters. *)
Lemma set_get_app_some ps qs n p : set_get ps n = Val (Some p) -> set_get (ps ++ qs) n = Val (Some p).
Proof.
  induction ps as [|q r IH]; cbn [set_get app]; [discriminate|].
  destruct (p_name q) as [m|]; cbn [bind]; [|discriminate].
  destruct (py_eq m n); [tauto | exact IH].
Qed.

Lemma set_get_app_none ps qs n : set_get ps n = Val None -> set_get (ps ++ qs) n = set_get qs n.
Proof.
  induction ps as [|q r IH]; cbn [set_get app]; [reflexivity|].
  destruct (p_name q) as [m|]; cbn [bind]; [|discriminate].
  destruct (py_eq m n); [discriminate | exact IH].
Qed.

Lemma set_get_in ps n p : set_get ps n = Val (Some p) -> In p ps.
Proof.
  induction ps as [|q r IH]; cbn [set_get]; [discriminate|].
  destruct (p_name q) as [m|]; cbn [bind]; [|discriminate].
  destruct (py_eq m n); [intros H; inversion H; left; reflexivity | intros H; right; exact (IH H)].
Qed.

Lemma container_add_to o c c' p : container (add_to o c' p) c = container o c ++ (if loc_eqb c c' then [p] else []).
Proof. destruct c, c'; cbn [add_to container loc_eqb o_pathp o_headers o_cookies o_query o_body]; rewrite ?app_nil_r; reflexivity. Qed.

Lemma add_parameter_container o p o' c :
  add_parameter o p = Val o' -> container o' c = container o c ++ (if goes_to c p then [p] else []).
Proof.
  unfold add_parameter, goes_to. destruct (p_location p) as [l|]; cbn [bind]; [|discriminate].
  intros H; inversion H; subst o'. destruct (loc_of l) as [c'|]; [apply container_add_to | rewrite app_nil_r; reflexivity].
Qed.

Lemma add_parameters_container ps : forall o o' c,
  add_parameters o ps = Val o' -> container o' c = container o c ++ declared_in c ps.
Proof.
  unfold declared_in.
  induction ps as [|p r IH]; intros o o' c H; cbn [add_parameters filter] in *.
  - inversion H. rewrite app_nil_r. reflexivity.
  - destruct (add_parameter o p) as [o1|] eqn:E; cbn [bind] in H; [|discriminate].
    rewrite (IH _ _ c H), (add_parameter_container _ _ _ c E), <- app_assoc.
    destruct (goes_to c p); reflexivity.
Qed.

(* a parameter derived from one of the given security definitions *)
Definition sec_param (v : version) (defs : list json) (p : param) : Prop :=
  exists d j, In d defs /\ (api_key_param v d = Val j \/ http_auth_param v d = Val j) /\ p = PParam j.

Lemma sec_param_cons v d r p : sec_param v r p -> sec_param v (d :: r) p.
Proof. intros [d' [j [Hi [Hj Hp]]]]. exists d', j. split; [right; exact Hi | split; assumption]. Qed.

(* the declared parameters stay where they are, in order; whatever is appended is security-derived *)
Lemma process_definitions_extends v defs : forall o o', process_definitions v defs o = Val o' ->
  forall c, exists added, container o' c = container o c ++ added /\ Forall (sec_param v defs) added.
Proof.
  induction defs as [|d r IH]; intros o o' H c; cbn [process_definitions] in H.
  - inversion H. exists []. rewrite app_nil_r. split; [reflexivity | constructor].
  - destruct (py_get d k_name) as [name|]; cbn [bind] in H; [|discriminate].
    destruct (py_get d k_in) as [location|]; cbn [bind] in H; [|discriminate].
    match type of H with bind ?x _ = _ => destruct x as [skp|] end; cbn [bind] in H; [|discriminate].
    destruct skp.
    { destruct (IH _ _ H c) as [added [Hc Hf]]. exists added. split; [exact Hc|].
      eapply Forall_impl; [|exact Hf]. intros a. apply sec_param_cons. }
    destruct (py_item d k_type) as [ty|]; cbn [bind] in H; [|discriminate].
    match type of H with bind ?x _ = _ => destruct x as [o1|] eqn:E1 end; cbn [bind] in H; [|discriminate].
    match type of H with bind ?x _ = _ => destruct x as [o2|] eqn:E2 end; cbn [bind] in H; [|discriminate].
    destruct (IH _ _ H c) as [added [Hc Hf]].
    assert (A1 : exists a1, container o1 c = container o c ++ a1 /\ Forall (sec_param v (d :: r)) a1).
    { destruct (json_eqb ty (JStr s_apiKey)).
      - destruct (api_key_param v d) as [j|] eqn:Ej; cbn [bind] in E1; [|discriminate].
        rewrite (add_parameter_container _ _ _ c E1).
        destruct (goes_to c (PParam j)); [|exists []; split; [reflexivity | constructor]].
        exists [PParam j]. split; [reflexivity|]. constructor; [|constructor].
        exists d, j. split; [left; reflexivity | split; [left; exact Ej | reflexivity]].
      - inversion E1. exists []. rewrite app_nil_r. split; [reflexivity | constructor]. }
    assert (A2 : exists a2, container o2 c = container o1 c ++ a2 /\ Forall (sec_param v (d :: r)) a2).
    { destruct (json_eqb ty (JStr (if is_v20 v then s_basic else s_http))).
      - destruct (http_auth_param v d) as [j|] eqn:Ej; cbn [bind] in E2; [|discriminate].
        rewrite (add_parameter_container _ _ _ c E2).
        destruct (goes_to c (PParam j)); [|exists []; split; [reflexivity | constructor]].
        exists [PParam j]. split; [reflexivity|]. constructor; [|constructor].
        exists d, j. split; [left; reflexivity | split; [right; exact Ej | reflexivity]].
      - inversion E2. exists []. rewrite app_nil_r. split; [reflexivity | constructor]. }
    destruct A1 as [a1 [H1 F1]]. destruct A2 as [a2 [H2 F2]].
    exists (a1 ++ a2 ++ added). split.
    + rewrite Hc, H2, H1, <- !app_assoc. reflexivity.
    + apply Forall_app. split; [exact F1|]. apply Forall_app. split; [exact F2|].
      eapply Forall_impl; [|exact Hf]. intros a. apply sec_param_cons.
Qed.

Lemma skip_eq o n l : n <> JNull -> l <> JNull ->
  match n, l with
  | JNull, _ | _, JNull => Val false
  | _, _ => do g <- get_parameter o n l; Val (match g with Some _ => true | None => false end)
  end = (do g <- get_parameter o n l; Val (match g with Some _ => true | None => false end)).
Proof. intros Hn Hl. destruct n; try congruence; destruct l; try congruence; reflexivity. Qed.

Lemma loc_of_str l c : loc_of l = Some c -> exists s, l = JStr s /\ str_eqb s s_formData = false.
Proof.
  destruct l; cbn [loc_of]; try discriminate. intros H. exists s. split; [reflexivity|].
  destruct (str_eqb s s_formData) eqn:E; [|reflexivity].
  apply str_eqb_spec in E. subst s. vm_compute in H. discriminate.
Qed.

Lemma loc_eqb_refl c : loc_eqb c c = true.
Proof. destruct c; reflexivity. Qed.

(* the parameter an apiKey definition yields has the name and the location of the definition *)
Lemma api_key_param_fields v d n l :
  py_get d k_name = Val (Some n) -> py_get d k_in = Val (Some l) ->
  exists j, api_key_param v d = Val j /\ p_name (PParam j) = Val n /\ py_item j k_in = Val l.
Proof.
  destruct d; cbn [py_get]; try discriminate. intros Hn Hl. inversion Hn as [Hn']. inversion Hl as [Hl'].
  unfold api_key_param, py_item. rewrite Hn', Hl'. cbn [bind].
  eexists. split; [reflexivity|]. destruct (is_v20 v); split; vm_compute; reflexivity.
Qed.

(* every active apiKey definition is served by ITS container, at its name: by the declared parameter
   with the same (name, location) when there is one, by a security-derived parameter otherwise;
   parameters with the same name in OTHER locations play no role (they are not even mentioned) *)
Lemma process_definitions_present v defs : forall o o', process_definitions v defs o = Val o' ->
  forall d n l c, In d defs -> py_item d k_type = Val (JStr s_apiKey) ->
  py_get d k_name = Val (Some n) -> py_get d k_in = Val (Some l) -> n <> JNull -> loc_of l = Some c ->
  exists p, set_get (container o' c) n = Val (Some p).
Proof.
  induction defs as [|d0 r IH]; intros o o' H d n l c Hin Hty Hn Hl Hnn Hloc; [destruct Hin|].
  destruct Hin as [->|Hin].
  - cbn [process_definitions] in H. rewrite Hn, Hl in H. cbn [bind] in H.
    assert (Hlnn : l <> JNull) by (intros ->; discriminate Hloc).
    rewrite skip_eq in H; [|exact Hnn|exact Hlnn].
    destruct (loc_of_str _ _ Hloc) as [s [-> Hnf]].
    unfold get_parameter in H. cbn [hashable negb] in H. rewrite Hloc in H.
    destruct (set_get (container o c) n) as [g|] eqn:Eg; cbn [bind] in H; [|discriminate].
    destruct g as [p|].
    + destruct (process_definitions_extends _ _ _ _ H c) as [added [Hc _]].
      exists p. rewrite Hc. apply set_get_app_some. exact Eg.
    + rewrite Hty in H. cbn [bind] in H. rewrite json_eqb_refl in H.
      destruct (api_key_param_fields v d n (JStr s) Hn Hl) as [j [Ej [Hjn Hjl]]].
      rewrite Ej in H. cbn [bind] in H.
      destruct (add_parameter o (PParam j)) as [o1|] eqn:E1; cbn [bind] in H; [|discriminate].
      assert (Hne : json_eqb (JStr s_apiKey) (JStr (if is_v20 v then s_basic else s_http)) = false)
        by (destruct (is_v20 v); vm_compute; reflexivity).
      rewrite Hne in H. cbn [bind] in H.
      destruct (process_definitions_extends _ _ _ _ H c) as [added [Hc _]].
      exists (PParam j). rewrite Hc. apply set_get_app_some.
      rewrite (add_parameter_container _ _ _ c E1).
      assert (Hg : goes_to c (PParam j) = true).
      { unfold goes_to, p_location. rewrite Hjl. cbn [bind hashable].
        assert (Hf : json_eqb (JStr s) (JStr s_formData) = false).
        { destruct (json_eqb (JStr s) (JStr s_formData)) eqn:E; [|reflexivity].
          apply json_eqb_eq in E. inversion E; subst s. rewrite str_eqb_refl in Hnf. discriminate. }
        rewrite Hf, Hloc. apply loc_eqb_refl. }
      rewrite Hg, (set_get_app_none _ _ _ Eg). cbn [set_get]. rewrite Hjn. cbn [bind]. rewrite py_eq_refl. reflexivity.
  - cbn [process_definitions] in H.
    destruct (py_get d0 k_name) as [name|]; cbn [bind] in H; [|discriminate].
    destruct (py_get d0 k_in) as [location|]; cbn [bind] in H; [|discriminate].
    match type of H with bind ?x _ = _ => destruct x as [skp|] end; cbn [bind] in H; [|discriminate].
    destruct skp; [eapply IH; eauto|].
    destruct (py_item d0 k_type) as [ty|]; cbn [bind] in H; [|discriminate].
    match type of H with bind ?x _ = _ => destruct x as [o1|] end; cbn [bind] in H; [|discriminate].
    match type of H with bind ?x _ = _ => destruct x as [o2|] end; cbn [bind] in H; [|discriminate].
    eapply IH; eauto.
Qed.

Lemma api_key_of_spec d n c : api_key_of d = Some (n, c) ->
  exists l, py_item d k_type = Val (JStr s_apiKey) /\ py_get d k_name = Val (Some n) /\ py_get d k_in = Val (Some l)
            /\ n <> JNull /\ loc_of l = Some c.
Proof.
  unfold api_key_of.
  destruct (py_item d k_type) as [ty|]; [|discriminate].
  destruct (py_get d k_name) as [[n'|]|]; try discriminate.
  destruct (py_get d k_in) as [[l|]|]; try discriminate.
  destruct (json_eqb ty (JStr s_apiKey)) eqn:Et; cbn [andb]; [|discriminate].
  destruct (json_eqb n' JNull) eqn:En; cbn [negb]; [discriminate|].
  destruct (loc_of l) as [c'|] eqn:El; [|discriminate].
  intros H; inversion H; subst n' c'. exists l. apply json_eqb_eq in Et. subst ty.
  repeat split; try reflexivity; try exact El.
  intros ->. rewrite json_eqb_refl in En. discriminate.
Qed.

(* the effective parameters of a built operation, security-derived ones included *)
Lemma security_parameters_effective v doc path method params raw resolved scope o' :
  make_operation v doc path method params raw resolved scope = Val o' ->
  exists active, active_definitions v doc raw = Val active /\
  forall c,
    (* (1) the declared parameters of the container come first, unchanged and in order; what follows is security-derived *)
    (exists added, container o' c = declared_in c params ++ added /\ Forall (sec_param v active) added) /\
    (* (2) every key an active apiKey definition asks for in this container is served: by the declared parameter of that
           (name, location) when there is one, by a security-derived one otherwise - whatever the other containers hold *)
    (forall d n, In d active -> api_key_of d = Some (n, c) ->
       exists p, set_get (container o' c) n = Val (Some p) /\
                 (forall p0, set_get (declared_in c params) n = Val (Some p0) -> p = p0) /\
                 (set_get (declared_in c params) n = Val None -> sec_param v active p)).
Proof.
  unfold make_operation, add_security, active_definitions. intros H.
  destruct (add_parameters _ params) as [o1|] eqn:E1; cbn [bind] in H; [|discriminate].
  assert (Hraw : o_raw o1 = raw).
  { pose proof (add_parameters_ident _ _ _ E1) as I. unfold ident in I. cbn [empty_op o_raw o_path o_method o_resolved o_scope] in I.
    inversion I. reflexivity. }
  rewrite Hraw in H.
  destruct (security_definitions v doc) as [defs|]; cbn [bind] in H |- *; [|discriminate].
  destruct (security_requirements doc raw) as [reqs|]; cbn [bind] in H |- *; [|discriminate].
  destruct (py_items defs) as [kvs|]; cbn [bind] in H |- *; [|discriminate].
  eexists. split; [reflexivity|]. intros c.
  pose proof (add_parameters_container _ _ _ c E1) as D. cbn [empty_op container o_pathp o_headers o_cookies o_query o_body] in D.
  assert (D' : container o1 c = declared_in c params) by (rewrite D; destruct c; reflexivity).
  destruct (process_definitions_extends _ _ _ _ H c) as [added [Hc Hf]].
  rewrite D' in Hc.
  split; [exists added; split; assumption|].
  intros d n Hin Hk.
  destruct (api_key_of_spec _ _ _ Hk) as [l [Hty [Hn [Hl [Hnn Hloc]]]]].
  destruct (process_definitions_present _ _ _ _ H d n l c Hin Hty Hn Hl Hnn Hloc) as [p Hp].
  exists p. split; [exact Hp|]. split.
  - intros p0 H0. rewrite Hc, (set_get_app_some _ added _ _ H0) in Hp. inversion Hp. reflexivity.
  - intros H0. rewrite Hc, (set_get_app_none _ _ _ H0) in Hp. apply set_get_in in Hp.
    rewrite Forall_forall in Hf. apply Hf. exact Hp.
Qed.

(* executable form, as evaluated against the implementation *)
Lemma security_keys_present_holds v doc path method params raw resolved scope o' active :
  make_operation v doc path method params raw resolved scope = Val o' ->
  active_definitions v doc raw = Val active -> security_keys_present active o' = true.
Proof.
  intros H Ha. destruct (security_parameters_effective _ _ _ _ _ _ _ _ _ H) as [active' [Ha' S]].
  rewrite Ha in Ha'. inversion Ha'; subst active'.
  unfold security_keys_present. apply forallb_forall. intros d Hin.
  destruct (api_key_of d) as [[n c]|] eqn:Ek; [|reflexivity].
  destruct (S c) as [_ S2]. destruct (S2 d n Hin Ek) as [p [Hp _]]. rewrite Hp. reflexivity.
Qed.

(* witness: API key in the header token, a declared query parameter token on the operation, a declared header token on
   another one, two requirements at once (header token and query api_key) *)
From Coq Require String.
Import String.StringSyntax.
Definition doc_sec_clash : json :=
  let tok := S "token" in
  let str_schema := JObj [(k_schema, JObj [(k_type, JStr s_string)])] in
  let prm := fun n l => JObj [(k_name, JStr n); (k_in, JStr l); (k_schema, JObj [(k_type, JStr s_string)])] in
  let ok := (S "responses", JObj [(S "200", JObj [(k_description, JStr (S "ok"))])]) in
  JObj [(S "openapi", JStr (S "3.0.2"));
        (k_security, JArr [JObj [(S "T", JArr []); (S "K", JArr [])]]);
        (k_paths, JObj [
           (S "/reset", JObj [(k_parameters, JArr [prm tok s_cookie]);
                              (S "post", JObj [(k_parameters, JArr [prm tok s_query]); ok])]);
           (S "/me", JObj [(S "get", JObj [(k_parameters, JArr [prm tok s_header; prm (S "api_key") s_query]); ok])])]);
        (k_components, JObj [(k_securitySchemes, JObj [
           (S "T", JObj [(k_type, JStr s_apiKey); (k_name, JStr tok); (k_in, JStr s_header)]);
           (S "K", JObj [(k_type, JStr s_apiKey); (k_name, JStr (S "api_key")); (k_in, JStr s_query)])])])].

Lemma security_clash_witness :
  fresh_keys V30 doc_sec_clash (AGet (S "/reset") (S "post"))
    = Val [Val []; Val [JStr (S "token")]; Val [JStr (S "token")]; Val [JStr (S "token"); JStr (S "api_key")]] /\
  fresh_keys V30 doc_sec_clash (AGet (S "/me") (S "get"))
    = Val [Val []; Val [JStr (S "token")]; Val []; Val [JStr (S "api_key")]].
Proof. split; vm_compute; reflexivity. Qed.

(* ================================================================== JSON-pointer escaping of path keys
   (after the seeded regression C08_d) *)
Definition esc1 (c : N) : str := if N.eqb c 126 then [126; 48]%N else if N.eqb c 47 then [126; 49]%N else [c].
Definition esc0 (c : N) : str := if N.eqb c 126 then [126; 48]%N else [c].

Lemma escape_pointer_flat p : escape_pointer p = flat_map esc1 p.
Proof.
  unfold escape_pointer, replace_char. induction p as [|c p IH]; [reflexivity|].
  cbn [flat_map]. rewrite flat_map_app. rewrite IH. f_equal.
  unfold esc1. destruct (N.eqb c 126) eqn:E.
  - reflexivity.
  - cbn [flat_map]. rewrite app_nil_r. reflexivity.
Qed.

Lemma repl2_skip a b c x t : N.eqb x a = false -> repl2 a b c (x :: t) = x :: repl2 a b c t.
Proof. intros H. destruct t as [|y r]; [reflexivity|]. cbn [repl2]. rewrite H. reflexivity. Qed.

Lemma unescape_step1 p : repl2 126 49 47 (flat_map esc1 p) = flat_map esc0 p.
Proof.
  induction p as [|c p IH]; [reflexivity|]. cbn [flat_map]. unfold esc1 at 1, esc0 at 1.
  destruct (N.eqb c 126) eqn:E.
  - cbn [app].
    change (repl2 126 49 47 (126 :: 48 :: flat_map esc1 p)%N) with (126 :: repl2 126 49 47 (48 :: flat_map esc1 p))%N.
    rewrite repl2_skip by reflexivity. rewrite IH. reflexivity.
  - destruct (N.eqb c 47) eqn:E2.
    + cbn [app].
      change (repl2 126 49 47 (126 :: 49 :: flat_map esc1 p)%N) with (47 :: repl2 126 49 47 (flat_map esc1 p))%N.
      rewrite IH. apply N.eqb_eq in E2. subst c. reflexivity.
    + cbn [app]. rewrite repl2_skip by exact E. rewrite IH. reflexivity.
Qed.

Lemma unescape_step2 p : repl2 126 48 126 (flat_map esc0 p) = p.
Proof.
  induction p as [|c p IH]; [reflexivity|]. cbn [flat_map]. unfold esc0 at 1.
  destruct (N.eqb c 126) eqn:E.
  - cbn [app].
    change (repl2 126 48 126 (126 :: 48 :: flat_map esc0 p)%N) with (126 :: repl2 126 48 126 (flat_map esc0 p))%N.
    rewrite IH. apply N.eqb_eq in E. subst c. reflexivity.
  - cbn [app]. rewrite repl2_skip by exact E. rewrite IH. reflexivity.
Qed.

(* RFC 6901: decoding (~1 first, then ~0) inverts the encoding operation_reference applies, for EVERY string *)
Lemma pointer_roundtrip p : unescape (escape_pointer p) = p.
Proof. unfold unescape. rewrite escape_pointer_flat, unescape_step1, unescape_step2. reflexivity. Qed.

Lemma escape_pointer_inj p q : escape_pointer p = escape_pointer q -> p = q.
Proof. intros H. rewrite <- (pointer_roundtrip p), <- (pointer_roundtrip q), H. reflexivity. Qed.

Lemma escape_pointer_chars p x : In x (escape_pointer p) -> x = 126%N \/ x = 48%N \/ x = 49%N \/ (In x p /\ x <> 47%N /\ x <> 126%N).
Proof.
  rewrite escape_pointer_flat. induction p as [|c p IH]; cbn [flat_map]; [intros []|].
  rewrite in_app_iff. intros [H|H].
  - unfold esc1 in H. destruct (N.eqb c 126) eqn:E; [cbn in H; intuition|].
    destruct (N.eqb c 47) eqn:E2; [cbn in H; intuition|].
    destruct H as [H|[]]. subst x. right; right; right. apply N.eqb_neq in E. apply N.eqb_neq in E2. split; [left; reflexivity | split; assumption].
  - destruct (IH H) as [?|[?|[?|[? ?]]]]; auto. right; right; right. split; [right; assumption | assumption].
Qed.

Lemma escape_pointer_no_slash p : ~ In 47%N (escape_pointer p).
Proof. intros H. apply escape_pointer_chars in H. destruct H as [H|[H|[H|[_ [H _]]]]]; try discriminate. apply H; reflexivity. Qed.

Lemma escape_pointer_nonempty p : p <> [] -> exists t c, escape_pointer p = t ++ [c] /\ c <> 47%N.
Proof.
  intros Hp. destruct (exists_last (l := escape_pointer p)) as [t [c E]].
  - rewrite escape_pointer_flat. destruct p as [|x p]; [congruence|]. cbn [flat_map]. unfold esc1.
    destruct (N.eqb x 126); [discriminate|]. destruct (N.eqb x 47); discriminate.
  - exists t, c. split; [exact E|]. intros ->. apply (escape_pointer_no_slash p). rewrite E. apply in_or_app. right. left. reflexivity.
Qed.

(* ------------------------------------------------------------------ split / rstrip on joined tokens *)
Lemma split_on_aux_nosep sep s : forall cur, ~ In sep s -> split_on_aux sep s cur = [rev cur ++ s].
Proof.
  induction s as [|c s IH]; intros cur H; cbn [split_on_aux]; [rewrite app_nil_r; reflexivity|].
  destruct (N.eqb c sep) eqn:E; [apply N.eqb_eq in E; subst; exfalso; apply H; left; reflexivity|].
  rewrite IH by (intros X; apply H; right; exact X). cbn [rev]. rewrite <- app_assoc. reflexivity.
Qed.

Lemma split_on_aux_app sep a b : forall cur, ~ In sep a ->
  split_on_aux sep (a ++ sep :: b) cur = (rev cur ++ a) :: split_on_aux sep b [].
Proof.
  induction a as [|c a IH]; intros cur H; cbn [app split_on_aux].
  - rewrite N.eqb_refl, app_nil_r. reflexivity.
  - destruct (N.eqb c sep) eqn:E; [apply N.eqb_eq in E; subst; exfalso; apply H; left; reflexivity|].
    rewrite IH by (intros X; apply H; right; exact X). cbn [rev]. rewrite <- app_assoc. reflexivity.
Qed.

Lemma split_on_app sep a b : ~ In sep a -> split_on sep (a ++ sep :: b) = a :: split_on sep b.
Proof. intros H. unfold split_on. rewrite split_on_aux_app by exact H. reflexivity. Qed.
Lemma split_on_nosep sep s : ~ In sep s -> split_on sep s = [s].
Proof. intros H. unfold split_on. rewrite split_on_aux_nosep by exact H. reflexivity. Qed.

Lemma rstrip_slash_id t c : c <> 47%N -> rstrip_slash (t ++ [c]) = t ++ [c].
Proof.
  intros H. unfold rstrip_slash. rewrite rev_app_distr. cbn [rev app strip_left mem existsb].
  apply N.eqb_neq in H. rewrite H. cbn [orb]. cbn [rev]. rewrite rev_involutive. reflexivity.
Qed.

(* ------------------------------------------------------------------ the reference operation_reference builds, taken apart *)
Definition meth_ok (m : str) : bool :=
  str_eqb (lower_ascii m) m && negb (mem 47 m) && negb (mem 126 m) && negb (mem 37 m) && negb (is_nil m).

Lemma http_method_ok m : is_http_method m = true -> meth_ok m = true.
Proof.
  unfold is_http_method. rewrite existsb_exists. intros [x [Hin He]]. apply str_eqb_spec in He. subst x.
  assert (F : forallb meth_ok HTTP_METHODS = true) by (vm_compute; reflexivity).
  rewrite forallb_forall in F. apply F. exact Hin.
Qed.

Lemma not_mem c s : negb (mem c s) = true -> ~ In c s.
Proof. intros H X. apply mem_spec in X. rewrite X in H. discriminate. Qed.

Lemma http_method_props m : is_http_method m = true ->
  lower_ascii m = m /\ ~ In 47%N m /\ ~ In 126%N m /\ ~ In 37%N m /\ exists t c, m = t ++ [c] /\ c <> 47%N.
Proof.
  intros H. apply http_method_ok in H. unfold meth_ok in H.
  repeat (apply andb_true_iff in H; let H2 := fresh "H" in destruct H as [H H2]).
  apply str_eqb_spec in H. apply not_mem in H3. apply not_mem in H2. apply not_mem in H1.
  repeat split; try assumption.
  destruct m as [|x m]; [discriminate|]. destruct (exists_last (l := x :: m)) as [t [c E]]; [discriminate|].
  exists t, c. split; [exact E|]. intros ->. apply H3. rewrite E. apply in_or_app. right. left. reflexivity.
Qed.

Lemma reference_of_join p m : reference_of p m = ([35] ++ 47 :: k_paths ++ 47 :: escape_pointer p ++ 47 :: m)%N.
Proof. reflexivity. Qed.

Lemma k_paths_no_slash : ~ In 47%N k_paths.
Proof. apply not_mem. vm_compute. reflexivity. Qed.

Lemma split_reference p m : ~ In 47%N m -> split_on 47 (reference_of p m) = [[35%N]; k_paths; escape_pointer p; m].
Proof.
  intros Hm. rewrite reference_of_join.
  rewrite split_on_app by (intros [X|[]]; discriminate).
  rewrite split_on_app by exact k_paths_no_slash.
  rewrite split_on_app by apply escape_pointer_no_slash.
  rewrite split_on_nosep by exact Hm. reflexivity.
Qed.

Lemma rstrip_reference p m : (exists t c, m = t ++ [c] /\ c <> 47%N) -> rstrip_slash (reference_of p m) = reference_of p m.
Proof.
  intros [t [c [E Hc]]]. subst m. unfold reference_of.
  replace (S "#/paths/" ++ escape_pointer p ++ 47%N :: t ++ [c]) with ((S "#/paths/" ++ escape_pointer p ++ 47%N :: t) ++ [c]).
  - apply rstrip_slash_id. exact Hc.
  - rewrite <- app_assoc. f_equal. rewrite <- app_assoc. reflexivity.
Qed.

(* the round trip of the whole reference, for ALL path strings: the (path, method) get_operation_by_reference
   derives from operation_reference is the operation's own *)
Lemma reference_roundtrip p m : ~ In 47%N m -> m <> [] -> path_of_reference (reference_of p m) = Some (p, m).
Proof.
  intros Hm Hne. unfold path_of_reference, path_of_url.
  rewrite rstrip_reference.
  - rewrite split_reference by exact Hm. cbn [last_two rev app]. rewrite pointer_roundtrip. reflexivity.
  - destruct (exists_last Hne) as [t [c E]]. exists t, c. split; [exact E|]. intros ->. apply Hm. rewrite E. apply in_or_app. right. left. reflexivity.
Qed.

Lemma reference_of_inj p m q n : ~ In 47%N m -> m <> [] -> reference_of p m = reference_of q n -> ~ In 47%N n -> n <> [] -> p = q /\ m = n.
Proof.
  intros Hm Hne E Hn Hnn. pose proof (reference_roundtrip p m Hm Hne) as R1. pose proof (reference_roundtrip q n Hn Hnn) as R2.
  rewrite E in R1. rewrite R1 in R2. inversion R2. auto.
Qed.

(* the sentinel: with the two substitutions in the other order the token ~01 (a literal ~1 in the path) becomes a slash,
   and two different paths of one document are decoded to the same path *)
Lemma pointer_roundtrip_wrong_order_refuted :
  unescape_wrong (escape_pointer (S "~1")) = S "/" /\ unescape_wrong (escape_pointer (S "~1")) <> S "~1" /\
  S "/a/v~1" <> S "/a/v/" /\
  path_of_url unescape_wrong (reference_of (S "/a/v~1") (S "get")) = Some (S "/a/v/", S "get") /\
  path_of_url unescape_wrong (reference_of (S "/a/v/") (S "get")) = Some (S "/a/v/", S "get") /\
  path_of_url unescape (reference_of (S "/a/v~1") (S "get")) = Some (S "/a/v~1", S "get").
Proof. repeat split; try (vm_compute; reflexivity); vm_compute; discriminate. Qed.

(* ------------------------------------------------------------------ resolving such a reference *)
Lemma pct_high_nopct s : ~ In 37%N s -> pct_high s = false.
Proof.
  induction s as [|c t IH]; intros H; [reflexivity|]. cbn [pct_high].
  destruct (N.eqb c 37) eqn:E; [apply N.eqb_eq in E; subst; exfalso; apply H; left; reflexivity|].
  apply IH. intros X. apply H. right. exact X.
Qed.
Lemma unquote_nopct s : ~ In 37%N s -> unquote s = s.
Proof.
  induction s as [|c t IH]; intros H; [reflexivity|]. cbn [unquote].
  destruct (N.eqb c 37) eqn:E; [apply N.eqb_eq in E; subst; exfalso; apply H; left; reflexivity|].
  rewrite IH; [reflexivity|]. intros X. apply H. right. exact X.
Qed.
Lemma repl2_absent a b c s : ~ In a s -> repl2 a b c s = s.
Proof.
  induction s as [|x t IH]; intros H; [reflexivity|].
  rewrite repl2_skip.
  - rewrite IH; [reflexivity|]. intros X. apply H. right. exact X.
  - apply N.eqb_neq. intros ->. apply H. left. reflexivity.
Qed.
Lemma unescape_notilde s : ~ In 126%N s -> unescape s = s.
Proof. intros H. unfold unescape. rewrite (repl2_absent 126 49 47 s H). apply repl2_absent. exact H. Qed.

Lemma resolve_tokens doc x f t c parts v :
  x <> 47%N -> x :: f = t ++ [c] -> c <> 47%N -> ~ In 37%N (x :: f) ->
  split_on 47 (x :: f) = parts -> pointer_walk doc (map unescape parts) = Some v ->
  resolve doc (35 :: 47 :: x :: f)%N = Val ((35 :: 47 :: x :: f)%N, v).
Proof.
  intros Hx Hl Hc Hp Hs Hw. unfold resolve.
  assert (R : rstrip_slash (35 :: 47 :: x :: f)%N = (35 :: 47 :: x :: f)%N).
  { rewrite Hl. change (35 :: 47 :: t ++ [c])%N with ((35 :: 47 :: t) ++ [c])%N. apply rstrip_slash_id. exact Hc. }
  rewrite R. cbn [strip_left mem existsb]. rewrite N.eqb_refl. cbn [orb].
  apply N.eqb_neq in Hx. rewrite Hx. cbn [orb is_nil].
  rewrite (pct_high_nopct _ Hp), (unquote_nopct _ Hp), Hs, Hw. reflexivity.
Qed.

Lemma opt_json_eqb_eq a b : opt_json_eqb a b = true -> a = b.
Proof. destruct a, b; cbn; intros H; try discriminate; [apply json_eqb_eq in H; subst|]; reflexivity. Qed.

Record plain (doc : json) (p m : str) (kvs : list (str * json)) (opj : json) : Prop := {
  pl_entry : entry_of doc p = Some kvs;
  pl_ne : p <> [];
  pl_pct : ~ In 37%N p;
  pl_meth : is_http_method m = true;
  pl_noref : assoc_mem k_ref kvs = false;
  pl_op : assoc_get m kvs = Some opj;
  pl_ci : ci_get m kvs = Some opj;
  pl_params : ci_get k_parameters kvs = assoc_get k_parameters kvs }.

Lemma plain_entry_spec doc p m : plain_entry doc p m = true -> exists kvs opj, plain doc p m kvs opj.
Proof.
  unfold plain_entry. destruct (entry_of doc p) as [kvs|] eqn:Ee; [|discriminate]. intros H.
  repeat (apply andb_true_iff in H; let H2 := fresh "H" in destruct H as [H H2]).
  unfold assoc_mem in H2. destruct (assoc_get m kvs) as [opj|] eqn:Eo; [|discriminate].
  exists kvs, opj. apply opt_json_eqb_eq in H1. apply opt_json_eqb_eq in H0.
  constructor; try assumption.
  - destruct p; [discriminate | discriminate].
  - apply not_mem. exact H5.
  - apply negb_true_iff. exact H3.
Qed.

Lemma entry_walk doc p kvs : entry_of doc p = Some kvs ->
  pointer_walk doc [k_paths; p] = Some (JObj kvs).
Proof.
  unfold entry_of. destruct doc as [| | | | |top]; try discriminate.
  destruct (assoc_get k_paths top) as [[| | | | |paths]|] eqn:E1; try discriminate.
  destruct (assoc_get p paths) as [[| | | | |kvs']|] eqn:E2; try discriminate.
  intros H; inversion H; subst kvs'. cbn [pointer_walk pointer_step]. rewrite E1. cbn [pointer_step]. rewrite E2. reflexivity.
Qed.

Lemma escape_pointer_no_pct p : ~ In 37%N p -> ~ In 37%N (escape_pointer p).
Proof. intros H X. apply escape_pointer_chars in X. destruct X as [X|[X|[X|[X _]]]]; try discriminate. apply H; exact X. Qed.

Lemma k_paths_no_pct : ~ In 37%N k_paths.
Proof. apply not_mem. vm_compute. reflexivity. Qed.

Section Plain.
  Variables (doc : json) (p m : str) (kvs : list (str * json)) (opj : json).
  Hypothesis P : plain doc p m kvs opj.

  Lemma resolve_reference : resolve doc (reference_of p m) = Val (reference_of p m, opj).
  Proof.
    destruct (http_method_props m (pl_meth _ _ _ _ _ P)) as [_ [Hs [Ht [Hp [t [c [Em Hc]]]]]]].
    change (reference_of p m) with (35 :: 47 :: 112 :: ([97;116;104;115] ++ 47 :: escape_pointer p ++ 47 :: m))%N.
    apply resolve_tokens with (t := (k_paths ++ 47 :: escape_pointer p ++ 47 :: t)%N) (c := c)
                              (parts := [k_paths; escape_pointer p; m]).
    - discriminate.
    - rewrite Em. change (112 :: [97;116;104;115] ++ 47 :: escape_pointer p ++ 47 :: t ++ [c])%N
        with (k_paths ++ 47 :: escape_pointer p ++ 47 :: t ++ [c])%N.
      rewrite <- app_assoc. cbn [app]. rewrite <- app_assoc. reflexivity.
    - exact Hc.
    - change (112 :: [97;116;104;115] ++ 47 :: escape_pointer p ++ 47 :: m)%N with (k_paths ++ 47 :: escape_pointer p ++ 47 :: m)%N.
      intros X. apply in_app_or in X. destruct X as [X|[X|X]]; [exact (k_paths_no_pct X) | discriminate |].
      apply in_app_or in X. destruct X as [X|[X|X]]; [exact (escape_pointer_no_pct p (pl_pct _ _ _ _ _ P) X) | discriminate | exact (Hp X)].
    - change (112 :: [97;116;104;115] ++ 47 :: escape_pointer p ++ 47 :: m)%N with (k_paths ++ 47 :: escape_pointer p ++ 47 :: m)%N.
      rewrite split_on_app by exact k_paths_no_slash.
      rewrite split_on_app by apply escape_pointer_no_slash.
      rewrite split_on_nosep by exact Hs. reflexivity.
    - cbn [map]. rewrite pointer_roundtrip, (unescape_notilde m Ht).
      change (unescape k_paths) with k_paths.
      change [k_paths; p; m] with ([k_paths; p] ++ [m]).
      assert (W : forall a b d, pointer_walk d (a ++ b) = match pointer_walk d a with Some d' => pointer_walk d' b | None => None end).
      { induction a as [|x a IH]; intros b d; [reflexivity|]. cbn [app pointer_walk]. destruct (pointer_step d x); [apply IH | reflexivity]. }
      rewrite W, (entry_walk doc p kvs (pl_entry _ _ _ _ _ P)). cbn [pointer_walk pointer_step]. rewrite (pl_op _ _ _ _ _ P). reflexivity.
  Qed.

  Definition parent_of : str := (35 :: 47 :: k_paths ++ 47 :: escape_pointer p)%N.

  Lemma before_last_slash_reference : before_last_slash (reference_of p m) = Some parent_of.
  Proof.
    destruct (http_method_props m (pl_meth _ _ _ _ _ P)) as [_ [Hs _]].
    unfold before_last_slash. rewrite split_reference by exact Hs. reflexivity.
  Qed.

  Lemma resolve_parent : resolve doc parent_of = Val (parent_of, JObj kvs).
  Proof.
    destruct (escape_pointer_nonempty p (pl_ne _ _ _ _ _ P)) as [t [c [Ee Hc]]].
    unfold parent_of.
    change (35 :: 47 :: k_paths ++ 47 :: escape_pointer p)%N with (35 :: 47 :: 112 :: ([97;116;104;115] ++ 47 :: escape_pointer p))%N.
    apply resolve_tokens with (t := (k_paths ++ 47 :: t)%N) (c := c) (parts := [k_paths; escape_pointer p]).
    - discriminate.
    - rewrite Ee. change (112 :: [97;116;104;115] ++ 47 :: t ++ [c])%N with (k_paths ++ 47 :: t ++ [c])%N.
      rewrite <- app_assoc. reflexivity.
    - exact Hc.
    - change (112 :: [97;116;104;115] ++ 47 :: escape_pointer p)%N with (k_paths ++ 47 :: escape_pointer p)%N.
      intros X. apply in_app_or in X. destruct X as [X|[X|X]]; [exact (k_paths_no_pct X) | discriminate |].
      exact (escape_pointer_no_pct p (pl_pct _ _ _ _ _ P) X).
    - change (112 :: [97;116;104;115] ++ 47 :: escape_pointer p)%N with (k_paths ++ 47 :: escape_pointer p)%N.
      rewrite split_on_app by exact k_paths_no_slash.
      rewrite split_on_nosep by apply escape_pointer_no_slash. reflexivity.
    - cbn [map]. rewrite pointer_roundtrip. change (unescape k_paths) with k_paths.
      apply entry_walk. exact (pl_entry _ _ _ _ _ P).
  Qed.

  Lemma fresh_map_plain : fresh_map doc p = Val ([], JObj kvs).
  Proof.
    pose proof (pl_entry _ _ _ _ _ P) as E. unfold entry_of in E.
    destruct doc as [| | | | |top]; try discriminate.
    destruct (assoc_get k_paths top) as [[| | | | |paths]|] eqn:E1; try discriminate.
    destruct (assoc_get p paths) as [[| | | | |kvs']|] eqn:E2; try discriminate.
    inversion E; subst kvs'.
    unfold fresh_map, py_get_d. cbn [py_get bind]. rewrite E1. cbn [bind py_item]. rewrite E2. cbn [bind].
    unfold resolve_path_item. cbn [py_in bind]. rewrite (pl_noref _ _ _ _ _ P). cbn [bind ci_dict]. reflexivity.
  Qed.
End Plain.

(* ------------------------------------------------------------------ the recorded scope does not influence what is built *)
Definition set_scope (s : str) (o : operation) : operation :=
  {| o_path := o_path o; o_method := o_method o; o_raw := o_raw o; o_resolved := o_resolved o; o_scope := s;
     o_pathp := o_pathp o; o_headers := o_headers o; o_cookies := o_cookies o; o_query := o_query o; o_body := o_body o |}.

Lemma add_to_set_scope s o l p : add_to (set_scope s o) l p = set_scope s (add_to o l p).
Proof. destruct l; reflexivity. Qed.

Lemma add_parameter_set_scope s o p : add_parameter (set_scope s o) p = res_proj (set_scope s) (add_parameter o p).
Proof.
  unfold add_parameter. destruct (p_location p) as [l|]; cbn [bind res_proj]; [|reflexivity].
  destruct (loc_of l); [rewrite add_to_set_scope|]; reflexivity.
Qed.

Lemma add_parameters_set_scope s ps : forall o, add_parameters (set_scope s o) ps = res_proj (set_scope s) (add_parameters o ps).
Proof.
  induction ps as [|p r IH]; intros o; [reflexivity|]. cbn [add_parameters]. rewrite add_parameter_set_scope.
  destruct (add_parameter o p) as [o1|]; cbn [bind res_proj]; [apply IH | reflexivity].
Qed.

Lemma get_parameter_set_scope s o n l : get_parameter (set_scope s o) n l = get_parameter o n l.
Proof.
  unfold get_parameter. destruct (negb (hashable l)); [reflexivity|].
  destruct (loc_of l) as [c|]; [destruct c|]; reflexivity.
Qed.

Lemma process_definitions_set_scope v s defs : forall o,
  process_definitions v defs (set_scope s o) = res_proj (set_scope s) (process_definitions v defs o).
Proof.
  induction defs as [|d r IH]; intros o; [reflexivity|]. cbn [process_definitions].
  destruct (py_get d k_name) as [name|]; cbn [bind res_proj]; [|reflexivity].
  destruct (py_get d k_in) as [location|]; cbn [bind res_proj]; [|reflexivity].
  match goal with |- bind ?x _ = res_proj _ (bind ?y _) => assert (Esk : x = y) end.
  { destruct name as [n|]; [|reflexivity]. destruct location as [l|]; [|destruct n; reflexivity].
    destruct n, l; try reflexivity; rewrite get_parameter_set_scope; reflexivity. }
  rewrite Esk. match goal with |- bind ?x _ = _ => destruct x as [sk|] end; cbn [bind res_proj]; [|reflexivity].
  destruct sk; [apply IH|].
  destruct (py_item d k_type) as [ty|]; cbn [bind res_proj]; [|reflexivity].
  match goal with |- bind ?x _ = res_proj _ (bind ?y _) => assert (E1 : x = res_proj (set_scope s) y) end.
  { destruct (json_eqb ty (JStr s_apiKey)); [|reflexivity].
    destruct (api_key_param v d); cbn [bind res_proj]; [apply add_parameter_set_scope | reflexivity]. }
  rewrite E1. match goal with |- bind (res_proj _ ?y) _ = _ => destruct y as [o1|] end; cbn [bind res_proj]; [|reflexivity].
  match goal with |- bind ?x _ = res_proj _ (bind ?y _) => assert (E2 : x = res_proj (set_scope s) y) end.
  { destruct (json_eqb ty (JStr (if is_v20 v then s_basic else s_http))); [|reflexivity].
    destruct (http_auth_param v d); cbn [bind res_proj]; [apply add_parameter_set_scope | reflexivity]. }
  rewrite E2. match goal with |- bind (res_proj _ ?y) _ = _ => destruct y as [o2|] end; cbn [bind res_proj]; [|reflexivity].
  apply IH.
Qed.

Lemma add_security_set_scope v doc s o : add_security v doc (set_scope s o) = res_proj (set_scope s) (add_security v doc o).
Proof.
  unfold add_security. change (o_raw (set_scope s o)) with (o_raw o).
  destruct (security_definitions v doc) as [defs|]; cbn [bind res_proj]; [|reflexivity].
  destruct (security_requirements doc (o_raw o)) as [reqs|]; cbn [bind res_proj]; [|reflexivity].
  destruct (py_items defs) as [kvs|]; cbn [bind res_proj]; [|reflexivity].
  apply process_definitions_set_scope.
Qed.

Lemma make_operation_scope v doc path method params raw resolved s1 s2 :
  make_operation v doc path method params raw resolved s2
  = res_proj (set_scope s2) (make_operation v doc path method params raw resolved s1).
Proof.
  unfold make_operation.
  change (empty_op path method raw resolved s2) with (set_scope s2 (empty_op path method raw resolved s1)).
  rewrite add_parameters_set_scope.
  destruct (add_parameters (empty_op path method raw resolved s1) params) as [o|]; cbn [bind res_proj]; [apply add_security_set_scope | reflexivity].
Qed.

Lemma build_op_scope_core v doc path method shared entry resolved s1 s2 :
  res_core (build_op v doc path method shared entry resolved s1) = res_core (build_op v doc path method shared entry resolved s2).
Proof.
  unfold build_op.
  destruct (py_get_d resolved k_parameters (JArr [])) as [params|]; cbn [bind]; [|reflexivity].
  destruct (collect v doc params shared resolved) as [collected|]; cbn [bind]; [|reflexivity].
  rewrite (make_operation_scope v doc path method collected entry resolved s1 s2).
  destruct (make_operation v doc path method collected entry resolved s1); reflexivity.
Qed.

(* ------------------------------------------------------------------ a lookup by operation_reference and a lookup by (path, method)
   address the same cache entry and build the same operation *)
Transparent shared_parameters.
Lemma plain_plans v doc p m kvs opj : plain doc p m kvs opj ->
  pgo v doc (AByRef (reference_of p m))
    = Some (([], p, m), build_by_ref v doc (reference_of p m) (reference_of p m) p m opj, (fun _ => None), Some (reference_of p m))
  /\ pgo v doc (AGet p m) = Some (([], p, m), build_by_path v doc p m [] kvs opj, id_of_resolved, None)
  /\ res_core (build_by_ref v doc (reference_of p m) (reference_of p m) p m opj) = res_core (build_by_path v doc p m [] kvs opj).
Proof.
  intros P. destruct (http_method_props m (pl_meth _ _ _ _ _ P)) as [Hl [Hs _]].
  split; [|split].
  - cbn [pgo]. rewrite (resolve_reference doc p m kvs opj P). rewrite split_reference by exact Hs.
    cbn [last_two rev app]. rewrite pointer_roundtrip. reflexivity.
  - cbn [pgo]. rewrite (fresh_map_plain doc p m kvs opj P). rewrite Hl, (pl_ci _ _ _ _ _ P). reflexivity.
  - unfold build_by_ref, build_by_path.
    destruct (resolve_op doc opj) as [resolved|]; cbn [bind]; [|reflexivity].
    rewrite (before_last_slash_reference doc p m kvs opj P). cbn [bind].
    rewrite (resolve_parent doc p m kvs opj P). cbn [bind].
    unfold shared_parameters, py_get_d. cbn [py_get bind]. rewrite (pl_params _ _ _ _ _ P).
    destruct (resolve_op doc match assoc_get k_parameters kvs with Some x => x | None => JArr [] end) as [shared|]; cbn [bind]; [|reflexivity].
    apply build_op_scope_core.
Qed.

Opaque shared_parameters.

Lemma to_lookup_error_core r : res_core (to_lookup_error r) = to_lookup_error (res_core r).
Proof. destruct r as [o|[]]; reflexivity. Qed.

(* on fresh schema objects: the lookup by operation_reference returns what the lookup by path and method returns
   (KeyError from the build is reported as LookupError by MethodMap.__getitem__, as KeyError by the reference route) *)
Lemma reference_lookup_is_path_lookup v doc p m :
  plain_entry doc p m = true -> self_ok v doc (AGet p m) = true ->
  to_lookup_error (res_core (fresh_op v doc (AByRef (reference_of p m)))) = res_core (fresh_op v doc (AGet p m)).
Proof.
  intros H S. destruct (plain_entry_spec doc p m H) as [kvs [opj P]].
  destruct (plain_plans v doc p m kvs opj P) as [Pr [Pg E]].
  rewrite (fresh_planned v doc _ _ Pr), (fresh_planned v doc _ _ Pg). cbn [planned post_of id_ok].
  unfold self_ok in S. rewrite Pg in S.
  destruct (build_by_ref v doc (reference_of p m) (reference_of p m) p m opj) as [o1|e1];
    destruct (build_by_path v doc p m [] kvs opj) as [o2|e2]; cbn [res_core res_proj] in E; try discriminate.
  - rewrite S. rewrite to_lookup_error_core. unfold res_core. cbn [res_proj]. f_equal. exact E.
  - rewrite to_lookup_error_core. cbn [res_core res_proj]. inversion E. reflexivity.
Qed.

(* ------------------------------------------------------------------ every sequence of such lookups is coherent *)
Lemma list_eqb_refl {A} (eqb : A -> A -> bool) (R : forall x, eqb x x = true) l : list_eqb eqb l l = true.
Proof. induction l as [|x l IH]; [reflexivity|]. cbn [list_eqb]. rewrite R, IH. reflexivity. Qed.

Lemma param_eqb_refl p : param_eqb p p = true.
Proof. destruct p; cbn [param_eqb]; rewrite ?json_eqb_refl, ?(list_eqb_refl json_eqb json_eqb_refl); reflexivity. Qed.

Lemma op_core_eqb_complete a b : op_core a = op_core b -> op_core_eqb a b = true.
Proof.
  unfold op_core, op_core_eqb. intros H. inversion H as [[H1 H2 H3 H4 H5 H6 H7 H8 H9]].
  rewrite H1, H2, H3, H4, H5, H6, H7, H8, H9.
  rewrite !str_eqb_refl, !json_eqb_refl, !(list_eqb_refl param_eqb param_eqb_refl). reflexivity.
Qed.

Lemma plain_access_plan v doc a : plain_access doc a = true ->
  exists p m kvs opj b idf rf, plain doc p m kvs opj /\ pgo v doc a = Some (([], p, m), b, idf, rf)
    /\ res_core b = res_core (build_by_path v doc p m [] kvs opj) /\ is_by_id a = false.
Proof.
  destruct a as [|p m|i|r]; cbn [plain_access]; try discriminate.
  - intros H. destruct (plain_entry_spec doc p m H) as [kvs [opj P]].
    destruct (plain_plans v doc p m kvs opj P) as [_ [Pg _]].
    exists p, m, kvs, opj. do 3 eexists. split; [exact P|]. split; [exact Pg|]. split; reflexivity.
  - destruct (path_of_reference r) as [[p m]|]; [|discriminate]. intros H.
    apply andb_true_iff in H. destruct H as [H Er]. apply str_eqb_spec in Er. subst r.
    destruct (plain_entry_spec doc p m H) as [kvs [opj P]].
    destruct (plain_plans v doc p m kvs opj P) as [Pr [_ E]].
    exists p, m, kvs, opj. do 3 eexists. split; [exact P|]. split; [exact Pr|]. split; [exact E | reflexivity].
Qed.

Lemma plain_pair_ok v doc a b : plain_access doc a = true -> plain_access doc b = true -> pair_ok v doc a b = true.
Proof.
  intros Ha Hb.
  destruct (plain_access_plan v doc a Ha) as (p & m & kvs & opj & ba & idfa & rfa & Pa & Pga & Ea & Na).
  destruct (plain_access_plan v doc b Hb) as (p' & m' & kvs' & opj' & bb & idfb & rfb & Pb & Pgb & Eb & Nb).
  unfold pair_ok, pair_ok_gen. rewrite Pga. destruct ba as [oa|]; [|reflexivity]. rewrite Pgb.
  apply andb_true_iff. split.
  - destruct (tkey_eqb ([], p, m) ([], p', m')) eqn:Ek; [|reflexivity]. cbn [negb orb].
    apply tkey_eqb_f in Ek. inversion Ek; subst p' m'.
    pose proof (pl_entry _ _ _ _ _ Pa) as E1. rewrite (pl_entry _ _ _ _ _ Pb) in E1. inversion E1; subst kvs'.
    pose proof (pl_op _ _ _ _ _ Pa) as E2. rewrite (pl_op _ _ _ _ _ Pb) in E2. inversion E2; subst opj'.
    rewrite <- Eb in Ea. destruct bb as [ob|]; cbn [res_core res_proj] in Ea; [|discriminate].
    apply op_core_eqb_complete. assert (X : forall (x y : str * str * json * json * (list param * list param * list param * list param * list param)), Val x = Val y -> x = y) by (intros x y Hxy; inversion Hxy; reflexivity). apply X. exact Ea.
  - destruct (idfa oa); [|reflexivity]. destruct b; try reflexivity. discriminate.
Qed.

Lemma plain_coherent v doc U :
  forallb (plain_access doc) U = true -> forallb (self_ok v doc) U = true -> coherent v doc U = true.
Proof.
  intros HP HS. unfold coherent, coherent_gen. rewrite HS. cbn [andb].
  rewrite forallb_forall in HP. apply andb_true_iff. split.
  - apply forallb_forall. intros a Ha. apply forallb_forall. intros b Hb. apply plain_pair_ok; apply HP; assumption.
  - apply orb_true_iff. left. apply negb_true_iff.
    destruct (existsb is_by_id U) eqn:E; [|reflexivity].
    apply existsb_exists in E. destruct E as [a [Ha Hi]]. specialize (HP a Ha). destruct a; discriminate.
Qed.

(* for every document and EVERY sequence of lookups by (path, method) and by operation_reference of plain entries, in any
   order and number: each lookup returns what it returns on a fresh schema object *)
Lemma plain_lookups_refine_fresh v doc accs :
  forallb (plain_access doc) accs = true -> forallb (self_ok v doc) accs = true ->
  map result_core (run v doc empty_cache accs) = map (fun a => result_core (fresh v doc a)) accs.
Proof. intros HP HS. apply cache_refines_fresh. apply plain_coherent; assumption. Qed.

(* ------------------------------------------------------------------ witnesses *)
Definition ok_responses : str * json := (S "responses", JObj [(S "200", JObj [(k_description, JStr (S "ok"))])]).
Definition op_with (id : str) (pname ploc : str) : json :=
  JObj [(k_operationId, JStr id);
        (k_parameters, JArr [JObj [(k_name, JStr pname); (k_in, JStr ploc); (k_schema, JObj [(k_type, JStr s_string)])]]);
        ok_responses].
Definition m_get' : str := S "get".
(* a literal ~1 in one path, and the path the wrong-order decoding would turn it into *)
Definition doc_tilde : json :=
  JObj [(S "openapi", JStr (S "3.0.2"));
        (k_paths, JObj [(S "/a/v/", JObj [(m_get', op_with (S "listArchive") (S "page") s_query)]);
                        (S "/a/v~1", JObj [(m_get', op_with (S "getShortName") (S "token") s_header)])])].
Definition accs_tilde : list access :=
  [AGet (S "/a/v/") m_get'; AByRef (reference_of (S "/a/v~1") m_get'); AGet (S "/a/v~1") m_get';
   AByRef (reference_of (S "/a/v/") m_get'); AByRef (reference_of (S "/a/v~1") m_get')].

Lemma plain_lookups_nonvacuous :
  forallb (plain_access doc_tilde) accs_tilde = true /\ forallb (self_ok V30 doc_tilde) accs_tilde = true /\
  reference_of (S "/a/v~1") m_get' = S "#/paths/~1a~1v~01/get" /\
  exists o, nth_error (run V30 doc_tilde empty_cache accs_tilde) 1 = Some (ROp (Val o)) /\
            o_path o = S "/a/v~1" /\ o_raw o = op_with (S "getShortName") (S "token") s_header /\ List.length (o_headers o) = 1%nat.
Proof.
  split; [vm_compute; reflexivity|]. split; [vm_compute; reflexivity|]. split; [vm_compute; reflexivity|].
  vm_compute. eexists. repeat split; reflexivity.
Qed.

(* percent signs: operation_reference does not escape them and the resolver unquotes the fragment before it is split *)
Definition doc_pct : json :=
  JObj [(S "openapi", JStr (S "3.0.2"));
        (k_paths, JObj [(S "/a%7Eb", JObj [(m_get', op_with (S "one") (S "x") s_query)]);
                        (S "/a~b", JObj [(m_get', op_with (S "two") (S "y") s_query)]);
                        (S "/a%2Fb", JObj [(m_get', op_with (S "three") (S "z") s_query)])])].

Lemma reference_lookup_percent_refuted :
  plain_entry doc_pct (S "/a%7Eb") m_get' = false /\ mem 37 (S "/a%7Eb") = true /\
  (exists o o', fresh V30 doc_pct (AByRef (reference_of (S "/a%7Eb") m_get')) = ROp (Val o) /\
                fresh V30 doc_pct (AGet (S "/a%7Eb") m_get') = ROp (Val o') /\
                o_path o = S "/a%7Eb" /\ o_raw o = op_with (S "two") (S "y") s_query /\
                o_raw o' = op_with (S "one") (S "x") s_query /\ o_raw o <> o_raw o') /\
  fresh V30 doc_pct (AByRef (reference_of (S "/a%2Fb") m_get')) = ROp (Raise ERef) /\
  (exists o', fresh V30 doc_pct (AGet (S "/a%2Fb") m_get') = ROp (Val o')).
Proof.
  split; [vm_compute; reflexivity|]. split; [vm_compute; reflexivity|]. split.
  - vm_compute. do 2 eexists. repeat split; try reflexivity. discriminate.
  - split; [vm_compute; reflexivity|]. vm_compute. eexists. reflexivity.
Qed.

(* the link statistic: the target computed for operationRef = operation_reference is the operation's own key *)
Lemma operation_ref_target_own doc p m : plain_entry doc p m = true ->
  operation_ref_target doc (JStr (reference_of p m)) = Some (m, p).
Proof.
  intros H. destruct (plain_entry_spec doc p m H) as [kvs [opj P]].
  destruct (http_method_props m (pl_meth _ _ _ _ _ P)) as [_ [Hs _]].
  unfold operation_ref_target, resolve_value. rewrite (resolve_reference doc p m kvs opj P).
  unfold path_of_url. rewrite split_reference by exact Hs. cbn [last_two rev app]. rewrite pointer_roundtrip. reflexivity.
Qed.
