(* C19 property theorems only.  Each is closed by [exact] of a lemma of Proofs_C19 and followed by
   Print Assumptions.  run = the code as it is now; run_prefix = the code before the fix commit;
   spec_run / own_chain = value semantics of registration expressions (no sharing): the filters a hook
   was given by its own (last) registration expression. *)
From Coq Require Import List NArith Bool.
From Verif Require Import Common.Str C19.Model_C19 C19.Proofs_C19.
Import ListNotations.

(* For every configuration of dispatchers and closures and every history of registration operations
   (both decorator forms, chained filters, lone filter calls, late decorator calls, direct registrations,
   unregistrations), the filter_set attribute of every function is exactly the value its own
   registration expression built: no FilterSet is shared between registrations. *)
Theorem C19_hook_gets_own_filter : forall scopes closures ops f,
  filter_of (fst (run scopes closures ops)) f = own_chain (spec_run closures ops) f.
Proof. exact hook_gets_own_filter. Qed.
Print Assumptions C19_hook_gets_own_filter.

(* declarative reading, function form: after ANY history that leaves the closure with nothing pending,
   register.apply_to(..).skip_for(..)...(f) gives f exactly the chain written in that expression *)
Theorem C19_function_form_gets_its_chain : forall scopes closures pre ri cs f,
  closure_clean (spec_run closures pre) ri = true ->
  (cs = [] \/ nonfilterable (h_name f) = false) ->
  filter_of (fst (run scopes closures (pre ++ filter_ops ri cs ++ [ORegFn ri f]))) (h_id f) = Some (chain_value cs).
Proof. exact function_form_expression. Qed.
Print Assumptions C19_function_form_gets_its_chain.

(* named form: register.apply_to(cs1)(name).skip_for(cs2)(f) gives f the chain cs1 followed by cs2 *)
Theorem C19_named_form_gets_its_chain : forall scopes closures pre ri cs1 n cs2 f,
  closure_clean (spec_run closures pre) ri = true ->
  nonfilterable n = false ->
  let d := length (s_decs (spec_run closures pre)) in
  filter_of (fst (run scopes closures
      (pre ++ filter_ops ri cs1 ++ [ORegName ri n] ++ dec_filter_ops d cs2 ++ [ODecApply d f]))) (h_id f)
  = Some (chain_value (cs1 ++ cs2)).
Proof. exact named_form_expression. Qed.
Print Assumptions C19_named_form_gets_its_chain.

(* the region hypothesis closure_clean holds initially and again after every accepted function-form registration *)
Theorem C19_closure_clean_initially : forall closures ri, ri < length closures -> closure_clean (spec_run closures []) ri = true.
Proof. exact clean_initially. Qed.
Print Assumptions C19_closure_clean_initially.

Theorem C19_closure_clean_after_registration : forall closures pre ri cs f,
  closure_clean (spec_run closures pre) ri = true ->
  (cs = [] \/ nonfilterable (h_name f) = false) ->
  closure_clean (spec_run closures (pre ++ filter_ops ri cs ++ [ORegFn ri f])) ri = true.
Proof. exact clean_after_function_form. Qed.
Print Assumptions C19_closure_clean_after_registration.

(* the behaviour before the fix, kept so that its return is recognised: history
   [apply_to A; register h1; apply_to B; register h2] gave h2 the filter A instead of B *)
Theorem C19_prefix_behaviour_refuted : exists scopes closures ops f,
  filter_of (fst (run_prefix scopes closures ops)) f <> own_chain (spec_run closures ops) f.
Proof. exists [Schema], [0], hist_two, (h_id f_filter_query). exact (proj2 (proj2 prefix_behaviour_refuted)). Qed.
Print Assumptions C19_prefix_behaviour_refuted.

Theorem C19_prefix_behaviour_witness :
  filter_of (fst (run_prefix [Schema] [0] hist_two)) (h_id f_filter_query) = Some fs_get /\
  own_chain (spec_run [0] hist_two) (h_id f_filter_query) = Some fs_users /\
  filter_of (fst (run_prefix [Schema] [0] hist_two)) (h_id f_filter_query)
    <> own_chain (spec_run [0] hist_two) (h_id f_filter_query).
Proof. exact prefix_behaviour_refuted. Qed.
Print Assumptions C19_prefix_behaviour_witness.

(* a hook whose own chain is empty, or that has no filter_set at all (direct registration), is never skipped *)
Theorem C19_unfiltered_applies_everywhere : forall scopes closures ops f ctx,
  own_chain (spec_run closures ops) f = Some fs_empty \/ own_chain (spec_run closures ops) f = None ->
  should_skip (fst (run scopes closures ops)) f ctx = false.
Proof. exact unfiltered_applies_everywhere. Qed.
Print Assumptions C19_unfiltered_applies_everywhere.

(* F4: ... but the chain a closure hands out is what is pending in it, and a registration refused by
   validate_filterable_hook leaves its filters pending: the next function has no filters of its own and is skipped *)
Theorem C19_unfiltered_applies_everywhere_refuted : exists scopes closures pre ri g f o,
  h_id g <> h_id f /\
  should_skip (fst (run scopes closures (pre ++ [ORegFn ri g; ORegFn ri f]))) (h_id f) (Some o) = true.
Proof.
  exists [Schema], [0], [OFilter 0 true (call_method sGET)], 0, f_bpp, f_map_query, op_post.
  split; [discriminate | exact (proj2 (proj2 unfiltered_applies_everywhere_refuted))].
Qed.
Print Assumptions C19_unfiltered_applies_everywhere_refuted.

(* F3: filters chained on a decorator leave filter_used set: the next unfiltered registration of a
   non-filterable hook name on that closure is refused *)
Theorem C19_unfiltered_accepted_refuted : exists scopes closures pre d g ri f,
  last (snd (run scopes closures (pre ++ [ODecApply d g; ORegFn ri f]))) Done = RejectedFilter.
Proof.
  exists [Schema], [0], [ORegName 0 (NGen KMap TBody); ODecFilter 0 true (call_method sGET)], 0, f_map_body, 0, f_bpp.
  exact unfiltered_accepted_refuted_last.
Qed.
Print Assumptions C19_unfiltered_accepted_refuted.

(* which hooks transform the strategy of a parameter container: exactly those registered under that name on the
   global, schema or test dispatcher whose own filters select the operation *)
Theorem C19_all_scopes_applied : forall scopes closures ops g s t c o k f,
  let st := fst (run scopes closures ops) in
  In (k, f) (apply_to_all st g s t c (Some o)) <->
  exists di, in_scope g s t di /\ In f (all_by_name st di (NGen k c)) /\
             match own_chain (spec_run closures ops) f with Some fs => fset_match fs o = true | None => True end.
Proof. exact all_scopes_applied. Qed.
Print Assumptions C19_all_scopes_applied.

Theorem C19_scope_order : forall st g s ti c ctx,
  apply_to_all st g s (Some ti) c ctx
  = apply_to_container st g c ctx ++ apply_to_container st s c ctx ++ apply_to_container st ti c ctx.
Proof. exact scope_order. Qed.
Print Assumptions C19_scope_order.

(* what data generation applies, for ALL six targets (path_parameters, query, headers, cookies, body and case):
   exactly the hooks registered under that name on a dispatcher in scope whose own filters select the operation *)
Theorem C19_generation_hooks : forall scopes closures ops g s t c o k f,
  let st := fst (run scopes closures ops) in
  In (k, f) (generation_hooks st g s t c o) <->
  exists di, in_scope g s t di /\ In f (all_by_name st di (NGen k c)) /\
             match own_chain (spec_run closures ops) f with Some fs => fset_match fs o = true | None => True end.
Proof. exact generation_hooks_full. Qed.
Print Assumptions C19_generation_hooks.

(* the case level on its own (APIOperation.as_strategy._apply_hooks) *)
Theorem C19_case_hooks_respect_filters : forall scopes closures ops g s t o k f,
  let st := fst (run scopes closures ops) in
  In (k, f) (as_strategy_case_hooks st g s t o) <->
  exists di, in_scope g s t di /\ In f (all_by_name st di (NGen k TCase)) /\
             match own_chain (spec_run closures ops) f with Some fs => fset_match fs o = true | None => True end.
Proof. exact case_hooks_respect_filters. Qed.
Print Assumptions C19_case_hooks_respect_filters.

(* F2, fixed by 4324b099: the behaviour before (as_strategy applied case hooks without looking at their filters),
   kept so that its return is recognised *)
Theorem C19_case_hooks_prefix_behaviour_refuted : exists scopes closures ops g s t o k f fs,
  own_chain (spec_run closures ops) f = Some fs /\ fset_match fs o = false /\
  In (k, f) (generation_hooks_prefix (fst (run scopes closures ops)) g s t TCase o).
Proof.
  exists [Global; Schema], [0; 1], [OFilter 0 true (call_method sGET); ORegFn 0 f_map_case], 0, 1, None, op_post, KMap, 6%N, fs_get.
  exact case_hooks_prefix_behaviour_refuted.
Qed.
Print Assumptions C19_case_hooks_prefix_behaviour_refuted.

(* histories with data generation interleaved with (un)registration on the same objects: what a generation applies is
   determined by the registration operations before it; earlier generations (how many, for which operations) do not matter *)
Theorem C19_generation_uses_current_registrations : forall st g s t pre o post,
  nth (count_generates pre) (gen_trace st g s t (pre ++ EGenerate o :: post)) []
  = map (fun c => generation_hooks (fst (run_gen true st (ops_of pre))) g s t c o) all_targets.
Proof. exact generation_uses_current_registrations. Qed.
Print Assumptions C19_generation_uses_current_registrations.

(* ... hence, from the initial state: hook f is applied by that generation for target c iff it is registered at that
   moment under k_c on the global, schema or test dispatcher and the filters of its own expression select the operation *)
Theorem C19_generation_now : forall scopes closures g s t pre o post c k f,
  In c all_targets ->
  (exists l, nth_error (nth (count_generates pre)
                            (gen_trace (init scopes closures) g s t (pre ++ EGenerate o :: post)) [])
                       (match c with TPath => 0 | TQuery => 1 | THeaders => 2 | TCookies => 3 | TBody => 4 | TCase => 5 end) = Some l
             /\ (In (k, f) l <->
                 exists di, in_scope g s t di /\ In f (all_by_name (fst (run scopes closures (ops_of pre))) di (NGen k c)) /\
                            match own_chain (spec_run closures (ops_of pre)) f with Some fs => fset_match fs o = true | None => True end)).
Proof. exact generation_now. Qed.
Print Assumptions C19_generation_now.

(* unregister removes exactly that function from every name of that dispatcher and touches nothing else *)
Theorem C19_unregister_exact : forall fixed st di f st',
  step_gen fixed st (OUnregister di f) = (st', Done) ->
  (forall n, all_by_name st' di n = filter (fun g => negb (N.eqb g f)) (all_by_name st di n)) /\
  (forall dj n, dj <> di -> all_by_name st' dj n = all_by_name st dj n) /\
  (forall g, filter_of st' g = filter_of st g) /\
  regs st' = regs st /\ decs st' = decs st.
Proof. exact unregister_exact. Qed.
Print Assumptions C19_unregister_exact.

Theorem C19_unregistered_not_applied : forall fixed st di f st' c ctx k,
  step_gen fixed st (OUnregister di f) = (st', Done) ->
  ~ In (k, f) (apply_to_container st' di c ctx) /\
  (forall g, g <> f -> (In (k, g) (apply_to_container st' di c ctx) <-> In (k, g) (apply_to_container st di c ctx))).
Proof. exact unregistered_not_applied. Qed.
Print Assumptions C19_unregistered_not_applied.

Theorem C19_unregister_all_exact : forall fixed st di st',
  step_gen fixed st (OUnregisterAll di) = (st', Done) ->
  (forall n, all_by_name st' di n = []) /\
  (forall dj n, dj <> di -> all_by_name st' dj n = all_by_name st dj n) /\
  (forall g, filter_of st' g = filter_of st g).
Proof. exact unregister_all_exact. Qed.
Print Assumptions C19_unregister_all_exact.

(* F5: the filter set lives on the function object: a second registration of the same function replaces the
   filters of the first one too (the main theorem speaks of the LAST registration expression of f) *)
Theorem C19_registration_keeps_filter_refuted : exists scopes closures c r1 r2 f t o k,
  fset_match (chain_value [(true, c)]) o = false /\
  In (k, h_id f) (apply_to_container (fst (run scopes closures [OFilter r1 true c; ORegFn r1 f; ORegFn r2 f])) 0 t (Some o)).
Proof.
  exists [Global; Schema], [0; 1], (call_method sGET), 0, 1, f_flatmap_headers, THeaders, op_post, KFlatmap.
  exact registration_keeps_filter_refuted.
Qed.
Print Assumptions C19_registration_keeps_filter_refuted.

(* auth providers: in every history that only names existing objects, the filter set of every wrapper (and of the
   SelectiveAuthProvider it registers) is exactly the chain of apply_to/skip_for calls written on that wrapper *)
Theorem C19_auth_provider_own_filter : forall n ops w,
  no_bad_index (snd (arun n ops)) = true ->
  hp (a_sets (fst (arun n ops))) w = chain_value (calls_on w ops).
Proof. exact auth_provider_own_filter. Qed.
Print Assumptions C19_auth_provider_own_filter.

(* ... and the provider that authenticates an operation is the first one of the storage whose own chain selects it *)
Theorem C19_auth_first_matching : forall n ops ps o,
  no_bad_index (snd (arun n ops)) = true -> ps <> [] ->
  storage_set (a_sets (fst (arun n ops))) ps o =
  match find (fun p => match p with
                       | PPlain _ => true
                       | PSelective _ w => fset_match (chain_value (calls_on w ops)) o
                       end) ps with
  | Some p => AuthBy (provider_cls p)
  | None => AuthNone
  end.
Proof. exact auth_first_matching. Qed.
Print Assumptions C19_auth_first_matching.

(* non-vacuity: the hypotheses are satisfiable by non-trivial histories *)
Theorem C19_hypotheses_satisfiable :
  (snd (run [Schema] [0] hist_two) = [Done; Done; Done; Done] /\
   filter_of (fst (run [Schema] [0] hist_two)) (h_id f_map_body) = Some fs_get /\
   filter_of (fst (run [Schema] [0] hist_two)) (h_id f_filter_query) = Some fs_users /\
   dispatch (fst (run [Schema] [0] hist_two)) 0 (NGen KFilter TQuery) (Some op_post) = [2%N] /\
   dispatch (fst (run [Schema] [0] hist_two)) 0 (NGen KMap TBody) (Some op_post) = []) /\
  (no_bad_index (snd (arun 2 auth_hist)) = true /\
   nth 1 (a_storages (fst (arun 2 auth_hist))) [] = [PSelective 7 0; PSelective 8 1; PPlain 9] /\
   set_on_case (fst (arun 2 auth_hist)) None 1 op_get = AuthBy 7 /\
   set_on_case (fst (arun 2 auth_hist)) None 1 op_post = AuthBy 8).
Proof. split; [exact hist_two_now | exact auth_example]. Qed.
Print Assumptions C19_hypotheses_satisfiable.

(* ---------- registrations (not functions): one function object registered several times ---------- *)
(* the ledger - one entry per accepted registration, computed from the specification state only, unregister(f) removes
   the entries of f on that dispatcher - lists exactly what HookDispatcher._hooks holds under every name, in order *)
Theorem C19_ledger_is_hooks : forall scopes closures ops di n,
  all_by_name (fst (run scopes closures ops)) di n = map e_fn (filter (entry_on di n) (ledger scopes closures ops)).
Proof. exact ledger_is_hooks. Qed.
Print Assumptions C19_ledger_is_hooks.

(* THE PROPERTY per registration, for all histories (any number of registrations of one function object, on any
   dispatchers, in any form, with unregistrations in between): the hooks the code runs under a name on a dispatcher are
   exactly the registrations there whose OWN chain selects the operation - in the region where every registration under
   that name carries the chain its function object carries now (entry_current) *)
Theorem C19_each_registration_own_chain_partial : forall scopes closures ops di n ctx,
  forallb (entry_current (spec_run closures ops)) (filter (entry_on di n) (ledger scopes closures ops)) = true ->
  dispatch (fst (run scopes closures ops)) di n ctx
  = spec_dispatch (spec_run closures ops) (ledger scopes closures ops) di n ctx.
Proof. exact each_registration_own_chain. Qed.
Print Assumptions C19_each_registration_own_chain_partial.

(* the same for the strategy transformations of one container *)
Theorem C19_each_registration_own_chain_container_partial : forall scopes closures ops di t ctx,
  (forall k, forallb (entry_current (spec_run closures ops))
                     (filter (entry_on di (NGen k t)) (ledger scopes closures ops)) = true) ->
  apply_to_container (fst (run scopes closures ops)) di t ctx
  = spec_apply_to_container (spec_run closures ops) (ledger scopes closures ops) di t ctx.
Proof. exact each_registration_own_chain_container. Qed.
Print Assumptions C19_each_registration_own_chain_container_partial.

(* one registration at a time *)
Theorem C19_current_registration_own_chain : forall scopes closures ops e ctx,
  entry_current (spec_run closures ops) e = true ->
  should_skip (fst (run scopes closures ops)) (e_fn e) ctx = negb (entry_selects (spec_run closures ops) e ctx).
Proof. exact current_entry_own_chain. Qed.
Print Assumptions C19_current_registration_own_chain.

(* F5 stated for registrations: outside the region the code deviates in both directions *)
Theorem C19_each_registration_own_chain_refuted : exists scopes closures ops di n o,
  dispatch (fst (run scopes closures ops)) di n (Some o)
  <> spec_dispatch (spec_run closures ops) (ledger scopes closures ops) di n (Some o).
Proof.
  exists [Global; Schema], [0; 1], [OFilter 0 true (call_method sGET); ORegFn 0 f_flatmap_headers; ORegFn 1 f_flatmap_headers],
         0, (NGen KFlatmap THeaders), op_post.
  exact each_registration_own_chain_refuted_neq.
Qed.
Print Assumptions C19_each_registration_own_chain_refuted.

Theorem C19_direct_registration_inherits_refuted : exists scopes closures ops di n o,
  dispatch (fst (run scopes closures ops)) di n (Some o) = [] /\
  spec_dispatch (spec_run closures ops) (ledger scopes closures ops) di n (Some o) <> [].
Proof.
  exists [Global; Schema], [0; 1], hist_direct, 1, (NGen KFlatmap THeaders), op_post.
  exact direct_registration_inherits_refuted_neq.
Qed.
Print Assumptions C19_direct_registration_inherits_refuted.

(* what F5 does NOT touch: after ANY history (the same function registered before with filters, anywhere, in any form,
   unregistered or still registered) an UNFILTERED registration expression on a closure with nothing pending makes the
   function apply everywhere; both decorator forms *)
Theorem C19_unfiltered_reregistration_applies_everywhere : forall scopes closures pre ri f ctx,
  closure_clean (spec_run closures pre) ri = true ->
  should_skip (fst (run scopes closures (pre ++ [ORegFn ri f]))) (h_id f) ctx = false.
Proof. exact unfiltered_reregistration_function_form. Qed.
Print Assumptions C19_unfiltered_reregistration_applies_everywhere.

Theorem C19_unfiltered_named_reregistration_applies_everywhere : forall scopes closures pre ri n f ctx,
  closure_clean (spec_run closures pre) ri = true ->
  let d := length (s_decs (spec_run closures pre)) in
  should_skip (fst (run scopes closures (pre ++ [ORegName ri n; ODecApply d f]))) (h_id f) ctx = false.
Proof. exact unfiltered_reregistration_named_form. Qed.
Print Assumptions C19_unfiltered_named_reregistration_applies_everywhere.

(* non-vacuity: one function registered with a filter, unregistered, registered again unfiltered on two dispatchers and
   under a second name - every entry is in the region and the unfiltered registrations fire for POST *)
Theorem C19_reregistration_satisfiable :
  let ops := [OFilter 0 true (call_method sGET); ORegFn 0 f_map_query; OUnregister 0 21%N; ORegFn 0 f_map_query;
              ORegFn 1 f_map_query; ORegName 1 (NGen KMap THeaders); ODecApply 0 f_map_query] in
  let ss := spec_run [0; 1] ops in
  let lg := ledger [Global; Schema] [0; 1] ops in
  map (fun e => (e_disp e, e_fn e, entry_current ss e)) lg = [(0, 21%N, true); (1, 21%N, true); (1, 21%N, true)] /\
  dispatch (fst (run [Global; Schema] [0; 1] ops)) 0 (NGen KMap TQuery) (Some op_post) = [21%N] /\
  spec_dispatch ss lg 0 (NGen KMap TQuery) (Some op_post) = [21%N] /\
  spec_dispatch ss lg 1 (NGen KMap THeaders) (Some op_post) = [21%N].
Proof. exact reregistration_example. Qed.
Print Assumptions C19_reregistration_satisfiable.

(* ---------- evaluation sequences: the same filter sets asked about operations of SEVERAL schemas, in any order ---------- *)
(* Filter evaluation is a pure function of the operation it is given.  Evaluation is written as a machine over an explicit
   memory (eval_trace, matcher match_plain = FilterSet.match as it is).  For every state st (any registration history),
   every memory m, every sequence pre of registrations and evaluations (operations of any number of schemas - equal labels
   included -, any order, repeated) and everything that follows: the hooks applied by the evaluation of operation o are
   those of generation_hooks for o in the state the REGISTRATIONS of pre lead to - the evaluations of pre are erased. *)
Theorem C19_filter_evaluation_pure : forall st m pre s t o post,
  nth (count_evals pre) (eval_trace match_plain st m (pre ++ QEval s t o :: post)) []
  = map (fun c => generation_hooks (fst (run_gen true st (qops_of pre))) 0 s t c o) all_targets.
Proof. exact filter_evaluation_pure. Qed.
Print Assumptions C19_filter_evaluation_pure.

(* two evaluation sequences that contain the same registrations give the evaluation of o the same result *)
Theorem C19_filter_evaluation_order_independent : forall st m1 m2 pre1 pre2 s t o post1 post2,
  qops_of pre1 = qops_of pre2 ->
  nth (count_evals pre1) (eval_trace match_plain st m1 (pre1 ++ QEval s t o :: post1)) []
  = nth (count_evals pre2) (eval_trace match_plain st m2 (pre2 ++ QEval s t o :: post2)) [].
Proof. exact filter_evaluation_order_independent. Qed.
Print Assumptions C19_filter_evaluation_order_independent.

(* ... hence, from the initial state: hook f is applied for target c by the k-th evaluation iff it is registered at that
   moment under k_c on the global dispatcher, the dispatcher of the schema of o, or the test dispatcher, and the filters
   of its own expression select o (its attributes: label, method, path, tags, operationId, truth tables by o_idx) *)
Theorem C19_evaluation_sequence_own_chain : forall scopes closures m pre s t o post c k f,
  exists l, nth_error (nth (count_evals pre)
                           (eval_trace match_plain (init scopes closures) m (pre ++ QEval s t o :: post)) [])
                      (match c with TPath => 0 | TQuery => 1 | THeaders => 2 | TCookies => 3 | TBody => 4 | TCase => 5 end) = Some l
            /\ (In (k, f) l <->
                exists di, in_scope 0 s t di /\ In f (all_by_name (fst (run scopes closures (qops_of pre))) di (NGen k c)) /\
                           match own_chain (spec_run closures (qops_of pre)) f with Some fs => fset_match fs o = true | None => True end).
Proof. exact evaluation_sequence_own_chain. Qed.
Print Assumptions C19_evaluation_sequence_own_chain.

(* the same for auth providers: the k-th case is authenticated as set_on_case says in the state the auth registrations
   before it lead to, whatever was authenticated before ... *)
Theorem C19_auth_evaluation_pure : forall st m pre t s o post,
  nth (count_aevals pre) (auth_trace match_plain st m (pre ++ AQEval t s o :: post)) AuthNone
  = set_on_case (fst (arun_from st (aqops_of pre))) t s o.
Proof. exact auth_evaluation_pure. Qed.
Print Assumptions C19_auth_evaluation_pure.

(* ... by the first provider of the storage in charge (ps) whose OWN chain selects that operation *)
Theorem C19_auth_evaluation_first_matching : forall n m pre o post ps,
  no_bad_index (snd (arun n (aqops_of pre))) = true -> ps <> [] ->
  forall t s, set_on_case (fst (arun n (aqops_of pre))) t s o = storage_set (a_sets (fst (arun n (aqops_of pre)))) ps o ->
  nth (count_aevals pre) (auth_trace match_plain (ainit n) m (pre ++ AQEval t s o :: post)) AuthNone
  = match find (fun p => match p with
                         | PPlain _ => true
                         | PSelective _ w => fset_match (chain_value (calls_on w (aqops_of pre))) o
                         end) ps with
    | Some p => AuthBy (provider_cls p)
    | None => AuthNone
    end.
Proof. exact auth_evaluation_first_matching. Qed.
Print Assumptions C19_auth_evaluation_first_matching.

(* regression sentinel (seed C19_d): FilterSet.match remembering its verdict per operation LABEL.  Witness: a global hook
   apply_to(tag=admin), GET /users of schema A tagged admin, GET /users of schema B tagged public - the verdict for the
   second operation depends on whether the first one was evaluated before *)
Theorem C19_label_cache_refuted : exists st s1 s2 o1 o2,
  o_label o1 = o_label o2 /\ o_tags o1 <> o_tags o2 /\
  nth 1 (eval_trace match_cached st [] [QEval s1 None o1; QEval s2 None o2]) []
  <> nth 0 (eval_trace match_cached st [] [QEval s2 None o2]) [].
Proof.
  exists st_admin_hook, 1, 2, op_users_admin, op_users_public.
  repeat split; [exact (proj1 (proj2 label_cache_witness)) | exact label_cache_refuted_neq].
Qed.
Print Assumptions C19_label_cache_refuted.

(* both directions: wrongly applied after the tagged operation, wrongly skipped after the untagged one; the code as it is
   (match_plain) applies the hook to the tagged operation only, in both orders (non-vacuity of the theorems above) *)
Theorem C19_label_cache_witness :
  o_label op_users_admin = o_label op_users_public /\ o_tags op_users_admin <> o_tags op_users_public /\
  map query_row (eval_trace match_plain st_admin_hook [] [QEval 1 None op_users_admin; QEval 2 None op_users_public])
    = [[(KMap, 21%N)]; []] /\
  map query_row (eval_trace match_plain st_admin_hook [] [QEval 2 None op_users_public; QEval 1 None op_users_admin])
    = [[]; [(KMap, 21%N)]] /\
  map query_row (eval_trace match_cached st_admin_hook [] [QEval 1 None op_users_admin; QEval 2 None op_users_public])
    = [[(KMap, 21%N)]; [(KMap, 21%N)]] /\
  map query_row (eval_trace match_cached st_admin_hook [] [QEval 2 None op_users_public; QEval 1 None op_users_admin])
    = [[]; []].
Proof. exact label_cache_witness. Qed.
Print Assumptions C19_label_cache_witness.

Theorem C19_auth_label_cache_refuted : exists st s1 s2 o1 o2,
  o_label o1 = o_label o2 /\
  nth 1 (auth_trace match_cached st [] [AQEval None s1 o1; AQEval None s2 o2]) AuthNone
  <> nth 0 (auth_trace match_cached st [] [AQEval None s2 o2]) AuthNone.
Proof.
  exists ast_admin, 1, 2, op_users_admin, op_users_public. split; [reflexivity | exact auth_label_cache_refuted_neq].
Qed.
Print Assumptions C19_auth_label_cache_refuted.

(* the strongest true restriction of the sentinel, and the reason every single-schema stage is blind to it: as long as the
   label determines the operation among those evaluated (region labels_determine: all operations from one schema), the
   label-keyed memory gives the results of the code - for every state and every evaluation sequence *)
Theorem C19_label_cache_single_schema_partial : forall st qs,
  labels_determine (map snd qs) = true ->
  eval_trace match_cached st [] (qevals qs) = eval_trace match_plain st [] (qevals qs).
Proof. exact label_cache_single_schema. Qed.
Print Assumptions C19_label_cache_single_schema_partial.

(* SEVERAL hooks registered under ONE name on one dispatcher (seed C19_g).  The callbacks for filter_case / map_case /
   flatmap_case are built in one loop and called by Hypothesis later, at draw time; of_kind k = the hook functions one
   generated case runs under kind k, in order.  For every state (hence after every registration history), dispatcher,
   kind and operation: exactly the hooks of that name which their own filter set selects, in registration order ... *)
Theorem C19_same_name_hooks_in_order : forall st di k o,
  of_kind k (apply_case_hooks st di o)
  = filter (fun f => negb (should_skip st f (Some o))) (all_by_name st di (NGen k TCase)).
Proof. exact same_name_in_order. Qed.
Print Assumptions C19_same_name_hooks_in_order.

(* ... each selected hook as often as it is registered under that name (once per registration; none skipped), a hook that
   is filtered out for the operation never *)
Theorem C19_same_name_hooks_each_once : forall st di k o f,
  count_n f (of_kind k (apply_case_hooks st di o))
  = if should_skip st f (Some o) then 0 else count_n f (all_by_name st di (NGen k TCase)).
Proof. exact same_name_each_once. Qed.
Print Assumptions C19_same_name_hooks_each_once.

(* ... and over the three scopes: global, then schema, then test *)
Theorem C19_same_name_hooks_all_scopes : forall st g s t k o,
  of_kind k (as_strategy_case_hooks st g s t o)
  = fired st (Some o) (all_by_name st g (NGen k TCase)) ++ fired st (Some o) (all_by_name st s (NGen k TCase))
    ++ match t with Some ti => fired st (Some o) (all_by_name st ti (NGen k TCase)) | None => [] end.
Proof. exact same_name_all_scopes. Qed.
Print Assumptions C19_same_name_hooks_all_scopes.

(* sentinel: callbacks that look their hook up when they are CALLED (a closure over the loop variable of an exhausted
   generator) all run the last hook of the list.  Two map_case hooks on the schema dispatcher, the first for GET, the second
   for POST, operation GET /users: the filtered-out second hook runs, the selected first one never does *)
Theorem C19_late_binding_refuted : exists scopes closures ops di k o f_out f_in,
  let st := fst (run scopes closures ops) in
  should_skip st f_out (Some o) = true /\
  count_n f_out (of_kind k (apply_case_hooks_late st di o)) = 1 /\
  should_skip st f_in (Some o) = false /\
  count_n f_in (all_by_name st di (NGen k TCase)) = 1 /\
  count_n f_in (of_kind k (apply_case_hooks_late st di o)) = 0.
Proof.
  exists [Global; Schema], [0; 1], hist_same_name, 1, KMap, op_get, 7%N, 6%N. exact late_binding_refuted.
Qed.
Print Assumptions C19_late_binding_refuted.

Theorem C19_late_binding_witness :
  let st := fst (run [Global; Schema] [0; 1] hist_same_name) in
  all_by_name st 1 (NGen KMap TCase) = [6%N; 7%N] /\
  should_skip st 6%N (Some op_get) = false /\ should_skip st 7%N (Some op_get) = true /\
  generation_hooks st 0 1 None TCase op_get = [(KMap, 6%N)] /\
  generation_hooks st 0 1 None TCase op_post = [(KMap, 7%N)] /\
  generation_hooks_late st 0 1 None TCase op_get = [(KMap, 7%N)] /\
  generation_hooks_late st 0 1 None TCase op_post = [(KMap, 7%N)].
Proof. exact late_binding_witness. Qed.
Print Assumptions C19_late_binding_witness.

(* the strongest true restriction of the sentinel, and the reason stages with one hook per name are blind to it *)
Theorem C19_late_binding_single_hook_partial : forall st di o,
  one_per_case_name st di = true -> apply_case_hooks_late st di o = apply_case_hooks st di o.
Proof. exact late_binding_single_hook. Qed.
Print Assumptions C19_late_binding_single_hook_partial.
