(* C19 proofs.  Part A: the heap machine of to_filterable_hook refines the value semantics
   (every hook gets the filters of its own registration expression).  Part B: dispatch, scope
   order, unregistration.  Part C: auth providers.  Part D: witnesses (pre-fix behaviour, findings)
   and non-vacuity examples. *)
From Coq Require Import List NArith Bool Arith Lia.
From Verif Require Import Common.Str C19.Model_C19.
Import ListNotations.

(* ====================================================================================== *)
(* generic list facts                                                                     *)
(* ====================================================================================== *)
Lemma length_upd {A} i (x : A) l : length (upd i x l) = length l.
Proof. revert i; induction l as [|a l IH]; intros [|i]; cbn; auto. Qed.

Lemma nth_error_upd_same {A} i (x y : A) l : nth_error l i = Some y -> nth_error (upd i x l) i = Some x.
Proof. revert i; induction l as [|a l IH]; intros [|i]; cbn; intros H; try discriminate; auto. Qed.

Lemma nth_error_upd_other {A} i j (x : A) l : i <> j -> nth_error (upd i x l) j = nth_error l j.
Proof.
  revert i j; induction l as [|a l IH]; intros [|i] [|j] H; cbn; auto; try congruence;
  try (apply IH; congruence).
Qed.

Lemma nth_error_lt {A} (l : list A) i x : nth_error l i = Some x -> i < length l.
Proof. intros H; apply nth_error_Some; congruence. Qed.

Lemma nth_error_none_len {A B} (l : list A) (l' : list B) i :
  length l = length l' -> nth_error l i = None -> nth_error l' i = None.
Proof. intros HL H; apply nth_error_None in H; apply nth_error_None; lia. Qed.

Lemma nth_error_some_len {A B} (l : list A) (l' : list B) i x :
  length l = length l' -> nth_error l i = Some x -> exists y, nth_error l' i = Some y.
Proof.
  intros HL H; apply nth_error_lt in H.
  destruct (nth_error l' i) eqn:E; [eauto|]. apply nth_error_None in E; lia.
Qed.

Lemma hp_upd_same h t v : t < length h -> hp (upd t v h) t = v.
Proof. unfold hp; revert t; induction h as [|a h IH]; intros [|t] H; cbn in *; try lia; auto. apply IH; lia. Qed.

Lemma hp_upd_other h t u v : t <> u -> hp (upd t v h) u = hp h u.
Proof.
  unfold hp; revert t u; induction h as [|a h IH]; intros [|t] [|u] H; cbn; auto; try congruence;
  try (apply IH; congruence).
Qed.

Lemma hp_app_old h x i : i < length h -> hp (h ++ [x]) i = hp h i.
Proof. intros H; unfold hp; apply app_nth1; exact H. Qed.

Lemma hp_app_new h x : hp (h ++ [x]) (length h) = x.
Proof. unfold hp; rewrite app_nth2, Nat.sub_diag; [reflexivity | lia]. Qed.

Lemma upd_hp_same h t : upd t (hp h t) h = h.
Proof. unfold hp; revert t; induction h as [|a h IH]; intros [|t]; cbn; auto. rewrite IH; reflexivity. Qed.

Lemma fst_run_cons fixed st o ops :
  fst (run_gen fixed st (o :: ops)) = fst (run_gen fixed (fst (step_gen fixed st o)) ops).
Proof.
  cbn [run_gen]. destruct (step_gen fixed st o) as [st' out]. cbn [fst].
  destruct (run_gen fixed st' ops) as [st'' outs]. reflexivity.
Qed.

(* ====================================================================================== *)
(* Part A: refinement invariant                                                           *)
(* ====================================================================================== *)
Definition attr_ok (h : list fset) (rs : list registrar) (ds : list decorator) (a : N * nat) (b : N * own) : Prop :=
  fst a = fst b /\ snd a < length h /\
  match snd b with
  | OwnVal v => hp h (snd a) = v
                /\ (forall i r, nth_error rs i = Some r -> r_cur r <> snd a)
                /\ (forall k d, nth_error ds k = Some d -> d_fs d <> snd a)
  | OwnDec k => exists d, nth_error ds k = Some d /\ d_fs d = snd a
  end.

Record Inv (h : list fset) (rs : list registrar) (ds : list decorator) (fa : list (N * nat)) (ss : sstate) : Prop := {
  I_len_regs : length rs = length (s_regs ss);
  I_len_decs : length ds = length (s_decs ss);
  I_reg : forall i r s, nth_error rs i = Some r -> nth_error (s_regs ss) i = Some s ->
            r_used r = s_used s /\ hp h (r_cur r) = s_pending s /\ r_proxy r = r_cur r /\ r_cur r < length h;
  I_dec : forall k d s, nth_error ds k = Some d -> nth_error (s_decs ss) k = Some s ->
            d_reg d = sd_reg s /\ d_name d = sd_name s /\ hp h (d_fs d) = sd_val s
            /\ d_proxy d = d_fs d /\ d_fs d < length h;
  I_rr : forall i j r r', nth_error rs i = Some r -> nth_error rs j = Some r' -> r_cur r = r_cur r' -> i = j;
  I_dd : forall i j d d', nth_error ds i = Some d -> nth_error ds j = Some d' -> d_fs d = d_fs d' -> i = j;
  I_rd : forall i k r d, nth_error rs i = Some r -> nth_error ds k = Some d -> r_cur r <> d_fs d;
  I_attr : Forall2 (attr_ok h rs ds) fa (s_attr ss)
}.

Definition InvS (st : state) (ss : sstate) : Prop := Inv (heap st) (regs st) (decs st) (fattr st) ss.

(* the observable consequence *)
Lemma inv_filter_of st ss f : InvS st ss -> filter_of st f = own_chain ss f.
Proof.
  intros [_ Hlen _ Hdec _ _ _ Hattr]. unfold filter_of, own_chain.
  induction Hattr as [|[g i] [g' o] fa sa Hab _ IH]; [reflexivity|].
  destruct Hab as (Hk & _ & Ho). cbn [fst snd] in *. subst g'.
  cbn [lookup slookup]. destruct (N.eqb f g); [|exact IH].
  cbn [option_map]. destruct o as [v|k].
  - destruct Ho as (Hv & _); rewrite Hv; reflexivity.
  - destruct Ho as (d & Hd & Hfs).
    destruct (nth_error (s_decs ss) k) as [sd|] eqn:Esd.
    + destruct (Hdec k d sd Hd Esd) as (_ & _ & Hv & _). rewrite <- Hfs, Hv; reflexivity.
    + exfalso. apply nth_error_lt in Hd. apply nth_error_None in Esd. lia.
Qed.

Lemma upd_cases {A} i (y x' : A) l j x :
  nth_error l i = Some y -> nth_error (upd i x' l) j = Some x ->
  (j = i /\ x = x') \/ (j <> i /\ nth_error l j = Some x).
Proof.
  intros Hi Hj. destruct (Nat.eq_dec i j) as [->|Hne].
  - left. rewrite (nth_error_upd_same _ _ _ _ Hi) in Hj. split; congruence.
  - right. rewrite nth_error_upd_other in Hj by exact Hne. split; [congruence | exact Hj].
Qed.

Lemma app_cases {A} (l : list A) y j x :
  nth_error (l ++ [y]) j = Some x ->
  (j < length l /\ nth_error l j = Some x) \/ (j = length l /\ x = y).
Proof.
  intros H. destruct (Nat.lt_ge_cases j (length l)) as [Hlt|Hge].
  - left. rewrite nth_error_app1 in H by exact Hlt. auto.
  - right. rewrite nth_error_app2 in H by exact Hge.
    destruct (j - length l) as [|m] eqn:E; cbn in H.
    + split; [lia | congruence].
    + destruct m; discriminate.
Qed.

Lemma Forall2_weaken {A B} (P Q : A -> B -> Prop) l l' :
  (forall a b, P a b -> Q a b) -> Forall2 P l l' -> Forall2 Q l l'.
Proof. intros H F; induction F; constructor; auto. Qed.

(* ---------- a filter call written through a closure (and its flag) ---------- *)
Lemma inv_reg_write h rs ds fa ss i r s b v :
  Inv h rs ds fa ss -> nth_error rs i = Some r -> nth_error (s_regs ss) i = Some s ->
  Inv (upd (r_cur r) v h)
      (upd i {| r_disp := r_disp r; r_used := b; r_cur := r_cur r; r_proxy := r_proxy r |} rs) ds fa
      {| s_regs := upd i {| s_used := b; s_pending := v |} (s_regs ss); s_decs := s_decs ss; s_attr := s_attr ss |}.
Proof.
  intros [Hlr Hld Hreg Hdec Hrr Hdd Hrd Hattr] Hr Hs.
  destruct (Hreg i r s Hr Hs) as (_ & _ & Hpx & Hbound).
  assert (Hcur : forall j x, nth_error (upd i {| r_disp := r_disp r; r_used := b; r_cur := r_cur r; r_proxy := r_proxy r |} rs) j = Some x ->
                 exists x0, nth_error rs j = Some x0 /\ r_cur x0 = r_cur x).
  { intros j x Hj. destruct (upd_cases _ _ _ _ _ _ Hr Hj) as [[-> ->]|[_ Hj']]; eauto. }
  constructor; cbn [s_regs s_decs s_attr].
  - rewrite !length_upd; exact Hlr.
  - exact Hld.
  - intros j x sx Hj Hsj. rewrite length_upd.
    destruct (upd_cases _ _ _ _ _ _ Hr Hj) as [[-> ->]|[Hne Hj']].
    + rewrite (nth_error_upd_same _ _ _ _ Hs) in Hsj. inversion Hsj; subst sx. cbn.
      repeat split; auto. apply hp_upd_same; exact Hbound.
    + rewrite nth_error_upd_other in Hsj by congruence.
      destruct (Hreg j x sx Hj' Hsj) as (Hu & Hp & Hq & Hb). repeat split; auto.
      rewrite hp_upd_other; [exact Hp|]. intros E. apply Hne. symmetry. exact (Hrr i j r x Hr Hj' E).
  - intros k d sd Hk Hsk. rewrite length_upd.
    destruct (Hdec k d sd Hk Hsk) as (H1 & H2 & H3 & H4 & H5). repeat split; auto.
    rewrite hp_upd_other; [exact H3|]. exact (Hrd i k r d Hr Hk).
  - intros j1 j2 x1 x2 H1 H2 E.
    destruct (Hcur _ _ H1) as (y1 & Hy1 & E1). destruct (Hcur _ _ H2) as (y2 & Hy2 & E2).
    apply (Hrr j1 j2 y1 y2 Hy1 Hy2). congruence.
  - exact Hdd.
  - intros j k x d Hj Hk. destruct (Hcur _ _ Hj) as (y & Hy & E). rewrite <- E. exact (Hrd j k y d Hy Hk).
  - eapply Forall2_weaken; [|exact Hattr].
    intros [g id] [g' o] (Hk & Hb & Ho). cbn [fst snd] in *. repeat split; auto.
    + rewrite length_upd; exact Hb.
    + destruct o as [v0|k]; [|exact Ho]. destruct Ho as (Hv & Hnr & Hnd). repeat split; auto.
      * rewrite hp_upd_other; [exact Hv|]. exact (Hnr i r Hr).
      * intros j x Hj. destruct (Hcur _ _ Hj) as (y & Hy & E). rewrite <- E. exact (Hnr j y Hy).
Qed.

(* ---------- a filter call written through a decorator ---------- *)
Lemma inv_dec_write h rs ds fa ss k d s v :
  Inv h rs ds fa ss -> nth_error ds k = Some d -> nth_error (s_decs ss) k = Some s ->
  Inv (upd (d_fs d) v h) rs ds fa
      {| s_regs := s_regs ss;
         s_decs := upd k {| sd_reg := sd_reg s; sd_name := sd_name s; sd_val := v |} (s_decs ss);
         s_attr := s_attr ss |}.
Proof.
  intros [Hlr Hld Hreg Hdec Hrr Hdd Hrd Hattr] Hd Hs.
  destruct (Hdec k d s Hd Hs) as (Hdr & Hdn & _ & Hpx & Hbound).
  constructor; cbn [s_regs s_decs s_attr].
  - exact Hlr.
  - rewrite length_upd; exact Hld.
  - intros j x sx Hj Hsj. rewrite length_upd.
    destruct (Hreg j x sx Hj Hsj) as (Hu & Hp & Hq & Hb). repeat split; auto.
    rewrite hp_upd_other; [exact Hp|]. intros E. exact (Hrd j k x d Hj Hd (eq_sym E)).
  - intros j x sx Hj Hsj. rewrite length_upd.
    destruct (Nat.eq_dec k j) as [<-|Hne].
    + rewrite (nth_error_upd_same _ _ _ _ Hs) in Hsj. inversion Hsj; subst sx. cbn.
      assert (x = d) by congruence; subst x. repeat split; auto. apply hp_upd_same; exact Hbound.
    + rewrite nth_error_upd_other in Hsj by exact Hne.
      destruct (Hdec j x sx Hj Hsj) as (H1 & H2 & H3 & H4 & H5). repeat split; auto.
      rewrite hp_upd_other; [exact H3|]. intros E. apply Hne. exact (Hdd k j d x Hd Hj E).
  - exact Hrr.
  - exact Hdd.
  - exact Hrd.
  - eapply Forall2_weaken; [|exact Hattr].
    intros [g id] [g' o] (Hk & Hb & Ho). cbn [fst snd] in *. repeat split; auto.
    + rewrite length_upd; exact Hb.
    + destruct o as [v0|k0]; [|exact Ho]. destruct Ho as (Hv & Hnr & Hnd). repeat split; auto.
      rewrite hp_upd_other; [exact Hv|]. exact (Hnd k d Hd).
Qed.

(* ---------- register(function): the cell of the closure is frozen into the function, the closure gets a new one ---------- *)
Lemma inv_reg_fn h rs ds fa ss i r s f :
  Inv h rs ds fa ss -> nth_error rs i = Some r -> nth_error (s_regs ss) i = Some s ->
  Inv (h ++ [fs_empty])
      (upd i {| r_disp := r_disp r; r_used := false; r_cur := length h; r_proxy := length h |} rs) ds
      ((f, r_cur r) :: fa)
      {| s_regs := upd i {| s_used := false; s_pending := fs_empty |} (s_regs ss); s_decs := s_decs ss;
         s_attr := (f, OwnVal (s_pending s)) :: s_attr ss |}.
Proof.
  intros [Hlr Hld Hreg Hdec Hrr Hdd Hrd Hattr] Hr Hs.
  destruct (Hreg i r s Hr Hs) as (_ & Hpend & _ & Hbound).
  assert (Hlen : length (h ++ [fs_empty]) = S (length h)) by (rewrite app_length; cbn; lia).
  set (r' := {| r_disp := r_disp r; r_used := false; r_cur := length h; r_proxy := length h |}).
  assert (Hcur : forall j x, nth_error (upd i r' rs) j = Some x ->
                 (j = i /\ x = r') \/ (j <> i /\ nth_error rs j = Some x /\ r_cur x < length h)).
  { intros j x Hj. destruct (upd_cases _ _ _ _ _ _ Hr Hj) as [[-> ->]|[Hne Hj']]; [left; auto|right].
    destruct (nth_error_some_len _ (s_regs ss) _ _ Hlr Hj') as (sx & Hsx).
    destruct (Hreg j x sx Hj' Hsx) as (_ & _ & _ & Hb). auto. }
  constructor; cbn [s_regs s_decs s_attr].
  - rewrite !length_upd; exact Hlr.
  - exact Hld.
  - intros j x sx Hj Hsj. rewrite Hlen.
    destruct (Hcur _ _ Hj) as [[-> ->]|(Hne & Hj' & Hb)].
    + rewrite (nth_error_upd_same _ _ _ _ Hs) in Hsj. inversion Hsj; subst sx. cbn.
      repeat split; auto. apply hp_app_new.
    + rewrite nth_error_upd_other in Hsj by congruence.
      destruct (Hreg j x sx Hj' Hsj) as (Hu & Hp & Hq & _). repeat split; auto; try lia.
      rewrite hp_app_old; [exact Hp | exact Hb].
  - intros k d sd Hk Hsk. rewrite Hlen.
    destruct (Hdec k d sd Hk Hsk) as (H1 & H2 & H3 & H4 & H5). repeat split; auto; try lia.
    rewrite hp_app_old; [exact H3 | exact H5].
  - intros j1 j2 x1 x2 H1 H2 E.
    destruct (Hcur _ _ H1) as [[-> ->]|(Hn1 & Hy1 & Hb1)]; destruct (Hcur _ _ H2) as [[-> ->]|(Hn2 & Hy2 & Hb2)]; auto.
    + cbn in E. lia.
    + cbn in E. lia.
    + exact (Hrr j1 j2 x1 x2 Hy1 Hy2 E).
  - exact Hdd.
  - intros j k x d Hj Hk.
    destruct (nth_error_some_len _ (s_decs ss) _ _ Hld Hk) as (sd & Hsd).
    destruct (Hdec k d sd Hk Hsd) as (_ & _ & _ & _ & Hb).
    destruct (Hcur _ _ Hj) as [[-> ->]|(Hn & Hy & _)].
    + cbn. lia.
    + exact (Hrd j k x d Hy Hk).
  - constructor.
    + unfold attr_ok; cbn [fst snd]. repeat split; auto; try lia.
      * rewrite hp_app_old; [exact Hpend | exact Hbound].
      * intros j x Hj. destruct (Hcur _ _ Hj) as [[-> ->]|(Hn & Hy & _)].
        -- cbn. lia.
        -- intros E. apply Hn. exact (Hrr j i x r Hy Hr E).
      * intros k d Hk E. exact (Hrd i k r d Hr Hk (eq_sym E)).
    + eapply Forall2_weaken; [|exact Hattr].
      intros [g id] [g' o] (Hk & Hb & Ho). unfold attr_ok; cbn [fst snd] in *. rewrite ?Hlen. split; [exact Hk|]. split; [lia|].
      destruct o as [v0|k]; [|exact Ho]. destruct Ho as (Hv & Hnr & Hnd). repeat split; auto.
      * rewrite hp_app_old; [exact Hv | exact Hb].
      * intros j x Hj. destruct (Hcur _ _ Hj) as [[-> ->]|(Hn & Hy & _)]; [cbn; lia | exact (Hnr j x Hy)].
Qed.

(* ---------- register(name): the cell of the closure becomes the decorator's, the closure gets a new one ---------- *)
Lemma inv_reg_name h rs ds fa ss i r s n :
  Inv h rs ds fa ss -> nth_error rs i = Some r -> nth_error (s_regs ss) i = Some s ->
  Inv (h ++ [fs_empty])
      (upd i {| r_disp := r_disp r; r_used := false; r_cur := length h; r_proxy := length h |} rs)
      (ds ++ [{| d_reg := i; d_name := n; d_fs := r_cur r; d_proxy := r_cur r |}]) fa
      {| s_regs := upd i {| s_used := false; s_pending := fs_empty |} (s_regs ss);
         s_decs := s_decs ss ++ [{| sd_reg := i; sd_name := n; sd_val := s_pending s |}];
         s_attr := s_attr ss |}.
Proof.
  intros [Hlr Hld Hreg Hdec Hrr Hdd Hrd Hattr] Hr Hs.
  destruct (Hreg i r s Hr Hs) as (_ & Hpend & _ & Hbound).
  assert (Hlen : length (h ++ [fs_empty]) = S (length h)) by (rewrite app_length; cbn; lia).
  set (r' := {| r_disp := r_disp r; r_used := false; r_cur := length h; r_proxy := length h |}).
  set (d' := {| d_reg := i; d_name := n; d_fs := r_cur r; d_proxy := r_cur r |}).
  assert (Hcur : forall j x, nth_error (upd i r' rs) j = Some x ->
                 (j = i /\ x = r') \/ (j <> i /\ nth_error rs j = Some x /\ r_cur x < length h)).
  { intros j x Hj. destruct (upd_cases _ _ _ _ _ _ Hr Hj) as [[-> ->]|[Hne Hj']]; [left; auto|right].
    destruct (nth_error_some_len _ (s_regs ss) _ _ Hlr Hj') as (sx & Hsx).
    destruct (Hreg j x sx Hj' Hsx) as (_ & _ & _ & Hb). auto. }
  assert (Hdc : forall k d, nth_error (ds ++ [d']) k = Some d ->
                (k < length ds /\ nth_error ds k = Some d /\ d_fs d < length h) \/ (k = length ds /\ d = d')).
  { intros k d Hk. destruct (app_cases _ _ _ _ Hk) as [[Hlt Hk']|[-> ->]]; [left|right; auto].
    destruct (nth_error_some_len _ (s_decs ss) _ _ Hld Hk') as (sd & Hsd).
    destruct (Hdec k d sd Hk' Hsd) as (_ & _ & _ & _ & Hb). auto. }
  constructor; cbn [s_regs s_decs s_attr].
  - rewrite !length_upd; exact Hlr.
  - rewrite !app_length; cbn; lia.
  - intros j x sx Hj Hsj. rewrite Hlen.
    destruct (Hcur _ _ Hj) as [[-> ->]|(Hne & Hj' & Hb)].
    + rewrite (nth_error_upd_same _ _ _ _ Hs) in Hsj. inversion Hsj; subst sx. cbn.
      repeat split; auto. apply hp_app_new.
    + rewrite nth_error_upd_other in Hsj by congruence.
      destruct (Hreg j x sx Hj' Hsj) as (Hu & Hp & Hq & _). repeat split; auto; try lia.
      rewrite hp_app_old; [exact Hp | exact Hb].
  - intros k d sd Hk Hsk. rewrite Hlen.
    destruct (Hdc _ _ Hk) as [(Hlt & Hk' & Hb)|[-> ->]].
    + rewrite nth_error_app1 in Hsk by lia.
      destruct (Hdec k d sd Hk' Hsk) as (H1 & H2 & H3 & H4 & H5). repeat split; auto; try lia.
      rewrite hp_app_old; [exact H3 | exact H5].
    + rewrite Hld, nth_error_app2, Nat.sub_diag in Hsk by lia. cbn in Hsk. inversion Hsk; subst sd. cbn.
      repeat split; auto; try lia. rewrite hp_app_old; [exact Hpend | exact Hbound].
  - intros j1 j2 x1 x2 H1 H2 E.
    destruct (Hcur _ _ H1) as [[-> ->]|(Hn1 & Hy1 & Hb1)]; destruct (Hcur _ _ H2) as [[-> ->]|(Hn2 & Hy2 & Hb2)]; auto.
    + cbn in E. lia.
    + cbn in E. lia.
    + exact (Hrr j1 j2 x1 x2 Hy1 Hy2 E).
  - intros k1 k2 d1 d2 H1 H2 E.
    destruct (Hdc _ _ H1) as [(Hl1 & Hk1 & Hb1)|[-> ->]]; destruct (Hdc _ _ H2) as [(Hl2 & Hk2 & Hb2)|[-> ->]]; auto.
    + exact (Hdd k1 k2 d1 d2 Hk1 Hk2 E).
    + cbn in E. exfalso. exact (Hrd i k1 r d1 Hr Hk1 (eq_sym E)).
    + cbn in E. exfalso. exact (Hrd i k2 r d2 Hr Hk2 E).
  - intros j k x d Hj Hk.
    destruct (Hcur _ _ Hj) as [[-> ->]|(Hn & Hy & Hbx)]; destruct (Hdc _ _ Hk) as [(Hl & Hk' & Hb)|[-> ->]]; cbn.
    + lia.
    + lia.
    + exact (Hrd j k x d Hy Hk').
    + intros E. apply Hn. exact (Hrr j i x r Hy Hr E).
  - eapply Forall2_weaken; [|exact Hattr].
    intros [g id] [g' o] (Hk & Hb & Ho). unfold attr_ok; cbn [fst snd] in *. rewrite ?Hlen. split; [exact Hk|]. split; [lia|].
    destruct o as [v0|k].
    + destruct Ho as (Hv & Hnr & Hnd). repeat split; auto.
      * rewrite hp_app_old; [exact Hv | exact Hb].
      * intros j x Hj. destruct (Hcur _ _ Hj) as [[-> ->]|(Hn & Hy & _)]; [cbn; lia | exact (Hnr j x Hy)].
      * intros k d Hk'. destruct (Hdc _ _ Hk') as [(Hl & Hk'' & _)|[-> ->]]; [exact (Hnd k d Hk'')|].
        cbn. exact (Hnr i r Hr).
    + destruct Ho as (d & Hd & Hfs). exists d. split; [|exact Hfs].
      rewrite nth_error_app1; [exact Hd | exact (nth_error_lt _ _ _ Hd)].
Qed.

(* ---------- decorator(function) ---------- *)
Lemma inv_dec_apply h rs ds fa ss k d f :
  Inv h rs ds fa ss -> nth_error ds k = Some d ->
  Inv h rs ds ((f, d_fs d) :: fa)
      {| s_regs := s_regs ss; s_decs := s_decs ss; s_attr := (f, OwnDec k) :: s_attr ss |}.
Proof.
  intros [Hlr Hld Hreg Hdec Hrr Hdd Hrd Hattr] Hd.
  destruct (nth_error_some_len _ (s_decs ss) _ _ Hld Hd) as (sd & Hsd).
  destruct (Hdec k d sd Hd Hsd) as (_ & _ & _ & _ & Hb).
  constructor; cbn [s_regs s_decs s_attr]; auto.
  constructor; [|exact Hattr]. unfold attr_ok; cbn [fst snd]. repeat split; auto. exists d; auto.
Qed.

(* ---------- one step of the code as it is preserves the invariant ---------- *)
Lemma step_inv st ss o : InvS st ss -> InvS (fst (step st o)) (spec_step ss o).
Proof.
  unfold InvS, step. intros HI. pose proof HI as [Hlr Hld Hreg Hdec _ _ _ _].
  destruct st as [h rs ds fa dp]. cbn [heap regs decs fattr disps] in *.
  destruct o as [ri inc c|ri f|ri n|di inc c|di f|di f n|di f|di]; cbn [step_gen spec_step heap regs decs fattr disps].
  - (* OFilter *)
    destruct (nth_error rs ri) as [r|] eqn:Er.
    + destruct (nth_error_some_len _ (s_regs ss) _ _ Hlr Er) as (s & Es). rewrite Es.
      destruct (Hreg ri r s Er Es) as (Hu & Hp & Hpx & Hb).
      destruct r as [rd ru rc rp]. cbn [r_used r_cur r_proxy r_disp] in *. subst rp.
      unfold do_filter, s_filter, set_reg. cbn [heap regs decs fattr disps r_used r_cur r_proxy r_disp]. rewrite Hp.
      destruct (add_filter inc c (s_pending s)) as [fs'|] eqn:Ea; cbn [fst heap regs decs fattr disps].
      * exact (inv_reg_write _ _ _ _ _ _ _ _ true fs' HI Er Es).
      * pose proof (inv_reg_write _ _ _ _ _ _ _ _ true (hp h rc) HI Er Es) as H.
        cbn [r_used r_cur r_proxy r_disp] in H. rewrite upd_hp_same, Hp in H. exact H.
    + rewrite (nth_error_none_len _ (s_regs ss) _ Hlr Er). exact HI.
  - (* ORegFn *)
    destruct (nth_error rs ri) as [r|] eqn:Er.
    + destruct (nth_error_some_len _ (s_regs ss) _ _ Hlr Er) as (s & Es). rewrite Es.
      destruct (Hreg ri r s Er Es) as (Hu & Hp & Hpx & Hb). rewrite <- Hu.
      destruct (r_used r && nonfilterable (h_name f)); [exact HI|].
      destruct (register_on dp (r_disp r) f (h_name f)) as [out ds']. cbn [fst heap regs decs fattr disps].
      exact (inv_reg_fn _ _ _ _ _ _ _ _ (h_id f) HI Er Es).
    + rewrite (nth_error_none_len _ (s_regs ss) _ Hlr Er). exact HI.
  - (* ORegName *)
    destruct (nth_error rs ri) as [r|] eqn:Er.
    + destruct (nth_error_some_len _ (s_regs ss) _ _ Hlr Er) as (s & Es). rewrite Es.
      destruct (Hreg ri r s Er Es) as (Hu & Hp & Hpx & Hb). rewrite <- Hu.
      destruct (r_used r && nonfilterable n); [exact HI|].
      cbn [fst heap regs decs fattr disps].
      exact (inv_reg_name _ _ _ _ _ _ _ _ n HI Er Es).
    + rewrite (nth_error_none_len _ (s_regs ss) _ Hlr Er). exact HI.
  - (* ODecFilter *)
    destruct (nth_error ds di) as [d|] eqn:Ed.
    + destruct (nth_error_some_len _ (s_decs ss) _ _ Hld Ed) as (sd & Esd). rewrite Esd.
      destruct (Hdec di d sd Ed Esd) as (Hdr & Hdn & Hdv & Hdp & Hdb). rewrite <- Hdr.
      destruct (nth_error rs (d_reg d)) as [r|] eqn:Er.
      * destruct (nth_error_some_len _ (s_regs ss) _ _ Hlr Er) as (s & Es). rewrite Es.
        destruct (Hreg _ r s Er Es) as (Hu & Hp & Hpx & Hb).
        unfold do_filter, s_filter, set_reg. cbn [heap regs decs fattr disps]. rewrite Hdp, Hdv.
        (* first the flag of the closure (heap unchanged), then the write through the decorator *)
        pose proof (inv_reg_write _ _ _ _ _ _ _ _ true (hp h (r_cur r)) HI Er Es) as H1.
        rewrite upd_hp_same, Hp in H1.
        assert (Ed' : nth_error ds di = Some d) by exact Ed.
        destruct (add_filter inc c (sd_val sd)) as [fs'|] eqn:Ea; cbn [fst heap regs decs fattr disps].
        -- pose proof (inv_dec_write _ _ _ _ _ _ _ _ fs' H1 Ed' Esd) as H2. cbn [s_regs s_decs s_attr] in H2. rewrite <- Hdr in H2. exact H2.
        -- pose proof (inv_dec_write _ _ _ _ _ _ _ _ (hp h (d_fs d)) H1 Ed' Esd) as H2.
           cbn [s_regs s_decs s_attr] in H2. rewrite upd_hp_same, Hdv in H2. rewrite <- Hdr in H2. exact H2.
      * rewrite (nth_error_none_len _ (s_regs ss) _ Hlr Er). exact HI.
    + rewrite (nth_error_none_len _ (s_decs ss) _ Hld Ed). exact HI.
  - (* ODecApply *)
    destruct (nth_error ds di) as [d|] eqn:Ed.
    + destruct (nth_error_some_len _ (s_decs ss) _ _ Hld Ed) as (sd & Esd). rewrite Esd.
      destruct (Hdec di d sd Ed Esd) as (Hdr & Hdn & Hdv & Hdp & Hdb). rewrite <- Hdr, <- Hdn.
      destruct (nth_error rs (d_reg d)) as [r|] eqn:Er.
      * destruct (nth_error_some_len _ (s_regs ss) _ _ Hlr Er) as (s & Es). rewrite Es.
        destruct (Hreg _ r s Er Es) as (Hu & Hp & Hpx & Hb). rewrite <- Hu.
        destruct (r_used r && nonfilterable (d_name d)); [exact HI|].
        destruct (register_on dp (r_disp r) f (d_name d)) as [out ds']. cbn [fst heap regs decs fattr disps].
        exact (inv_dec_apply _ _ _ _ _ _ _ (h_id f) HI Ed).
      * rewrite (nth_error_none_len _ (s_regs ss) _ Hlr Er). exact HI.
    + rewrite (nth_error_none_len _ (s_decs ss) _ Hld Ed). exact HI.
  - (* ODirect *)
    destruct (register_on dp di f n) as [out ds']. exact HI.
  - (* OUnregister *)
    destruct (nth_error dp di); exact HI.
  - (* OUnregisterAll *)
    destruct (nth_error dp di); exact HI.
Qed.

(* ---------- the initial state ---------- *)
Lemma init_regs_nth closures : forall s i r,
  nth_error (map (fun '(i, d) => {| r_disp := d; r_used := false; r_cur := i; r_proxy := i |})
                 (combine (seq s (length closures)) closures)) i = Some r ->
  r_cur r = s + i /\ r_proxy r = s + i /\ r_used r = false /\ i < length closures.
Proof.
  induction closures as [|c cl IH]; intros s i r H; cbn in H.
  - destruct i; discriminate.
  - destruct i as [|i]; cbn in H.
    + inversion H; subst r; cbn. repeat split; lia.
    + destruct (IH (S s) i r H) as (H1 & H2 & H3 & H4). cbn [length]. repeat split; auto; lia.
Qed.

Lemma hp_const {A} (l : list A) i : hp (map (fun _ => fs_empty) l) i = fs_empty.
Proof. unfold hp; revert i; induction l as [|a l IH]; intros [|i]; cbn; auto. Qed.

Lemma init_inv scopes closures : InvS (init scopes closures) (spec_init closures).
Proof.
  unfold InvS, init, spec_init. cbn [heap regs decs fattr disps].
  constructor; cbn [s_regs s_decs s_attr].
  - rewrite !map_length, combine_length, seq_length. lia.
  - reflexivity.
  - intros i r s Hr Hs. destruct (init_regs_nth _ _ _ _ Hr) as (H1 & H2 & H3 & H4).
    apply nth_error_In in Hs. apply in_map_iff in Hs. destruct Hs as (x & <- & _). cbn.
    rewrite hp_const, map_length. repeat split; auto; lia.
  - intros [|k] d s H; discriminate.
  - intros i j r r' Hi Hj E.
    destruct (init_regs_nth _ _ _ _ Hi) as (H1 & _). destruct (init_regs_nth _ _ _ _ Hj) as (H2 & _). lia.
  - intros [|i] j d d' H; discriminate.
  - intros i [|k] r d _ H; discriminate.
  - constructor.
Qed.

Lemma run_inv ops : forall st ss, InvS st ss -> InvS (fst (run_gen true st ops)) (fold_left spec_step ops ss).
Proof.
  induction ops as [|o ops IH]; intros st ss HI; [exact HI|].
  rewrite fst_run_cons. cbn [fold_left]. apply IH. apply (step_inv st ss o HI).
Qed.

(* C19_hook_gets_own_filter *)
Lemma hook_gets_own_filter scopes closures ops f :
  filter_of (fst (run scopes closures ops)) f = own_chain (spec_run closures ops) f.
Proof. apply inv_filter_of. apply run_inv. apply init_inv. Qed.

(* ====================================================================================== *)
(* complete decorator expressions (declarative reading of own_chain)                      *)
(* ====================================================================================== *)
Definition filter_ops (ri : nat) (cs : list (bool * fcall)) : list op := map (fun ic => OFilter ri (fst ic) (snd ic)) cs.
Definition dec_filter_ops (d : nat) (cs : list (bool * fcall)) : list op := map (fun ic => ODecFilter d (fst ic) (snd ic)) cs.
Definition chain_from (v : fset) (cs : list (bool * fcall)) : fset := fold_left (fun v '(i, c) => s_filter i c v) cs v.

Lemma chain_value_eq cs : chain_value cs = chain_from fs_empty cs.
Proof. reflexivity. Qed.

Lemma chain_from_app v cs1 cs2 : chain_from v (cs1 ++ cs2) = chain_from (chain_from v cs1) cs2.
Proof. unfold chain_from. apply fold_left_app. Qed.

Lemma spec_filter_chain cs : forall ss ri r,
  nth_error (s_regs ss) ri = Some r ->
  let ss' := fold_left spec_step (filter_ops ri cs) ss in
  s_decs ss' = s_decs ss /\ s_attr ss' = s_attr ss /\
  exists b, nth_error (s_regs ss') ri = Some {| s_used := b; s_pending := chain_from (s_pending r) cs |}
            /\ (cs = [] -> b = s_used r).
Proof.
  induction cs as [|[i c] cs IH]; intros ss ri r Hr; cbn.
  - repeat split; auto. exists (s_used r). destruct r; auto.
  - rewrite Hr.
    set (ss1 := {| s_regs := upd ri {| s_used := true; s_pending := s_filter i c (s_pending r) |} (s_regs ss);
                   s_decs := s_decs ss; s_attr := s_attr ss |}).
    assert (H1 : nth_error (s_regs ss1) ri = Some {| s_used := true; s_pending := s_filter i c (s_pending r) |})
      by (cbn; eapply nth_error_upd_same; exact Hr).
    destruct (IH ss1 ri _ H1) as (Hd & Ha & b & Hb & _). cbn in Hd, Ha, Hb.
    repeat split; auto. exists b. split; [exact Hb | discriminate].
Qed.

Lemma spec_dec_filter_chain cs : forall ss d sd r,
  nth_error (s_decs ss) d = Some sd -> nth_error (s_regs ss) (sd_reg sd) = Some r ->
  let ss' := fold_left spec_step (dec_filter_ops d cs) ss in
  s_attr ss' = s_attr ss /\
  (exists r', nth_error (s_regs ss') (sd_reg sd) = Some r') /\
  nth_error (s_decs ss') d = Some {| sd_reg := sd_reg sd; sd_name := sd_name sd; sd_val := chain_from (sd_val sd) cs |}.
Proof.
  induction cs as [|[i c] cs IH]; intros ss d sd r Hd Hr; cbn.
  - repeat split; eauto. destruct sd; exact Hd.
  - rewrite Hd, Hr.
    set (sd1 := {| sd_reg := sd_reg sd; sd_name := sd_name sd; sd_val := s_filter i c (sd_val sd) |}).
    set (ss1 := {| s_regs := upd (sd_reg sd) {| s_used := true; s_pending := s_pending r |} (s_regs ss);
                   s_decs := upd d sd1 (s_decs ss); s_attr := s_attr ss |}).
    assert (H1 : nth_error (s_decs ss1) d = Some sd1) by (cbn; eapply nth_error_upd_same; exact Hd).
    assert (H2 : nth_error (s_regs ss1) (sd_reg sd1) = Some {| s_used := true; s_pending := s_pending r |})
      by (cbn; eapply nth_error_upd_same; exact Hr).
    destruct (IH ss1 d sd1 _ H1 H2) as (Ha & Hr' & Hd'). cbn in Ha, Hr', Hd'.
    repeat split; auto.
Qed.

Lemma own_chain_head_val ss f v : own_chain {| s_regs := s_regs ss; s_decs := s_decs ss; s_attr := (f, OwnVal v) :: s_attr ss |} f = Some v.
Proof. unfold own_chain; cbn. rewrite N.eqb_refl. reflexivity. Qed.

(* function form:  register.apply_to(..).skip_for(..)...(function)  on a closure with nothing pending *)
Lemma function_form_expression scopes closures pre ri cs f :
  closure_clean (spec_run closures pre) ri = true ->
  (cs = [] \/ nonfilterable (h_name f) = false) ->
  filter_of (fst (run scopes closures (pre ++ filter_ops ri cs ++ [ORegFn ri f]))) (h_id f) = Some (chain_value cs).
Proof.
  intros Hclean Hnf. rewrite hook_gets_own_filter. unfold spec_run.
  rewrite !fold_left_app. fold (spec_run closures pre). cbn [fold_left].
  unfold closure_clean in Hclean. destruct (nth_error (s_regs (spec_run closures pre)) ri) as [r|] eqn:Er; [|discriminate].
  apply andb_true_iff in Hclean. destruct Hclean as [Hu He]. apply negb_true_iff in Hu.
  assert (Hp : s_pending r = fs_empty).
  { unfold fs_is_empty in He. destruct r as [u [i e]]; cbn in *. destruct i, e; try discriminate; reflexivity. }
  destruct (spec_filter_chain cs _ ri r Er) as (Hd & Ha & b & Hb & Hbe).
  cbn [spec_step]. rewrite Hb. cbn [s_used s_pending].
  assert (Hacc : b && nonfilterable (h_name f) = false).
  { destruct Hnf as [-> | ->]; [rewrite (Hbe eq_refl), Hu; reflexivity | apply andb_false_r]. }
  rewrite Hacc. unfold own_chain; cbn [s_attr slookup]. rewrite N.eqb_refl, Hp. reflexivity.
Qed.

(* named form:  register.apply_to(..)(name).skip_for(..)(function) *)
Lemma named_form_expression scopes closures pre ri cs1 n cs2 f :
  closure_clean (spec_run closures pre) ri = true ->
  nonfilterable n = false ->
  let d := length (s_decs (spec_run closures pre)) in
  filter_of (fst (run scopes closures
      (pre ++ filter_ops ri cs1 ++ [ORegName ri n] ++ dec_filter_ops d cs2 ++ [ODecApply d f]))) (h_id f)
  = Some (chain_value (cs1 ++ cs2)).
Proof.
  intros Hclean Hnf d. rewrite hook_gets_own_filter. unfold spec_run.
  rewrite !fold_left_app. fold (spec_run closures pre). cbn [fold_left].
  unfold closure_clean in Hclean. destruct (nth_error (s_regs (spec_run closures pre)) ri) as [r|] eqn:Er; [|discriminate].
  apply andb_true_iff in Hclean. destruct Hclean as [Hu He].
  assert (Hp : s_pending r = fs_empty).
  { unfold fs_is_empty in He. destruct r as [u [i e]]; cbn in *. destruct i, e; try discriminate; reflexivity. }
  destruct (spec_filter_chain cs1 _ ri r Er) as (Hd & Ha & b & Hb & _).
  set (ss1 := fold_left spec_step (filter_ops ri cs1) (spec_run closures pre)) in *.
  cbn [spec_step]. rewrite Hb. cbn [s_used s_pending]. rewrite Hnf, andb_false_r.
  set (sd := {| sd_reg := ri; sd_name := n; sd_val := chain_from (s_pending r) cs1 |}).
  set (ss2 := {| s_regs := upd ri {| s_used := false; s_pending := fs_empty |} (s_regs ss1);
                 s_decs := s_decs ss1 ++ [sd]; s_attr := s_attr ss1 |}).
  assert (Hd2 : nth_error (s_decs ss2) d = Some sd).
  { cbn. rewrite Hd. subst d. rewrite nth_error_app2, Nat.sub_diag by lia. reflexivity. }
  assert (Hr2 : nth_error (s_regs ss2) (sd_reg sd) = Some {| s_used := false; s_pending := fs_empty |}).
  { cbn. eapply nth_error_upd_same; exact Hb. }
  destruct (spec_dec_filter_chain cs2 ss2 d sd _ Hd2 Hr2) as (Ha3 & (r3 & Hr3) & Hd3).
  set (ss3 := fold_left spec_step (dec_filter_ops d cs2) ss2) in *.
  rewrite Hd3. cbn [sd_reg sd_name sd] in *. rewrite Hr3, Hnf, andb_false_r.
  unfold own_chain; cbn [s_attr s_decs slookup]. rewrite N.eqb_refl, Hd3. cbn [sd_val].
  subst sd. cbn [sd_val]. rewrite Hp. change (chain_value (cs1 ++ cs2)) with (chain_from fs_empty (cs1 ++ cs2)).
  rewrite chain_from_app. reflexivity.
Qed.

(* an accepted registration leaves its closure clean *)
Lemma clean_after_function_form closures pre ri cs f :
  closure_clean (spec_run closures pre) ri = true ->
  (cs = [] \/ nonfilterable (h_name f) = false) ->
  closure_clean (spec_run closures (pre ++ filter_ops ri cs ++ [ORegFn ri f])) ri = true.
Proof.
  intros Hclean Hnf. unfold spec_run.
  rewrite !fold_left_app. fold (spec_run closures pre). cbn [fold_left].
  unfold closure_clean in Hclean. destruct (nth_error (s_regs (spec_run closures pre)) ri) as [r|] eqn:Er; [|discriminate].
  apply andb_true_iff in Hclean. destruct Hclean as [Hu He]. apply negb_true_iff in Hu.
  destruct (spec_filter_chain cs _ ri r Er) as (Hd & Ha & b & Hb & Hbe).
  cbn [spec_step]. rewrite Hb. cbn [s_used s_pending].
  assert (Hacc : b && nonfilterable (h_name f) = false).
  { destruct Hnf as [-> | ->]; [rewrite (Hbe eq_refl), Hu; reflexivity | apply andb_false_r]. }
  rewrite Hacc. unfold closure_clean; cbn [s_regs]. rewrite (nth_error_upd_same _ _ _ _ Hb). reflexivity.
Qed.

Lemma clean_initially closures ri : ri < length closures -> closure_clean (spec_run closures []) ri = true.
Proof.
  intros H. unfold closure_clean, spec_run, spec_init; cbn.
  destruct (nth_error (map (fun _ : nat => {| s_used := false; s_pending := fs_empty |}) closures) ri) eqn:E.
  - apply nth_error_In in E. apply in_map_iff in E. destruct E as (x & <- & _). reflexivity.
  - apply nth_error_None in E. rewrite map_length in E. lia.
Qed.

(* ====================================================================================== *)
(* Part B: skipping, dispatch, scope order, unregistration                                *)
(* ====================================================================================== *)
Lemma should_skip_own scopes closures ops f o :
  should_skip (fst (run scopes closures ops)) f (Some o) = false <->
  match own_chain (spec_run closures ops) f with Some fs => fset_match fs o = true | None => True end.
Proof.
  unfold should_skip. rewrite hook_gets_own_filter.
  destruct (own_chain (spec_run closures ops) f) as [fs|]; [|tauto].
  apply negb_false_iff.
Qed.

(* C19_unfiltered_applies_everywhere: empty own chain (or no filter_set attribute at all) never skips *)
Lemma unfiltered_applies_everywhere scopes closures ops f ctx :
  own_chain (spec_run closures ops) f = Some fs_empty \/ own_chain (spec_run closures ops) f = None ->
  should_skip (fst (run scopes closures ops)) f ctx = false.
Proof.
  intros H. unfold should_skip. rewrite hook_gets_own_filter.
  destruct H as [-> | ->]; [|reflexivity]. destruct ctx; reflexivity.
Qed.

(* ... and without an operation in the context nothing is skipped *)
Lemma no_operation_never_skips st f : should_skip st f None = false.
Proof. unfold should_skip. destruct (filter_of st f); reflexivity. Qed.

Lemma in_kinds k : In k kinds.
Proof. destruct k; cbn; auto. Qed.

Lemma in_apply_to_container st di c ctx k f :
  In (k, f) (apply_to_container st di c ctx) <->
  In f (all_by_name st di (NGen k c)) /\ should_skip st f ctx = false.
Proof.
  unfold apply_to_container, fired. rewrite in_flat_map. split.
  - intros (k' & _ & H). apply in_map_iff in H. destruct H as (g & E & Hg). inversion E; subst k' g.
    apply filter_In in Hg. destruct Hg as [Hin Hs]. apply negb_true_iff in Hs. auto.
  - intros [Hin Hs]. exists k. split; [apply in_kinds|]. apply in_map_iff. exists f. split; [reflexivity|].
    apply filter_In. split; [exact Hin | rewrite Hs; reflexivity].
Qed.

Definition in_scope (g s : nat) (t : option nat) (di : nat) : Prop := di = g \/ di = s \/ t = Some di.

(* apply_to_all_dispatchers: a hook transforms the strategy iff it is registered under that name on one of the
   dispatchers in scope and is not skipped *)
Lemma in_apply_to_all st g s t c ctx k f :
  In (k, f) (apply_to_all st g s t c ctx) <->
  exists di, in_scope g s t di /\ In f (all_by_name st di (NGen k c)) /\ should_skip st f ctx = false.
Proof.
  unfold apply_to_all, in_scope. rewrite !in_app_iff, !in_apply_to_container. split.
  - intros [H|[H|H]].
    + exists g. tauto.
    + exists s. tauto.
    + destruct t as [ti|]; [|destruct H]. apply in_apply_to_container in H. exists ti. tauto.
  - intros (di & [-> | [-> | ->]] & H); [tauto|tauto|]. right; right. apply in_apply_to_container. exact H.
Qed.

(* C19_all_scopes_applied *)
Lemma all_scopes_applied scopes closures ops g s t c o k f :
  let st := fst (run scopes closures ops) in
  In (k, f) (apply_to_all st g s t c (Some o)) <->
  exists di, in_scope g s t di /\ In f (all_by_name st di (NGen k c)) /\
             match own_chain (spec_run closures ops) f with Some fs => fset_match fs o = true | None => True end.
Proof.
  intros st. rewrite in_apply_to_all. subst st.
  split; intros (di & H1 & H2 & H3); exists di; (split; [exact H1|split; [exact H2|]]).
  - apply (proj1 (should_skip_own scopes closures ops f o)); exact H3.
  - apply (proj2 (should_skip_own scopes closures ops f o)); exact H3.
Qed.

(* the order: all hooks of the global dispatcher, then the schema's, then the test's *)
Lemma scope_order st g s ti c ctx :
  apply_to_all st g s (Some ti) c ctx
  = apply_to_container st g c ctx ++ apply_to_container st s c ctx ++ apply_to_container st ti c ctx.
Proof. reflexivity. Qed.

(* the case level goes through the same filter check as the parameter containers *)
Lemma case_hooks_eq st g s t o : as_strategy_case_hooks st g s t o = apply_to_all st g s t TCase (Some o).
Proof. reflexivity. Qed.

Lemma case_hooks_respect_filters scopes closures ops g s t o k f :
  let st := fst (run scopes closures ops) in
  In (k, f) (as_strategy_case_hooks st g s t o) <->
  exists di, in_scope g s t di /\ In f (all_by_name st di (NGen k TCase)) /\
             match own_chain (spec_run closures ops) f with Some fs => fset_match fs o = true | None => True end.
Proof. intros st. subst st. rewrite case_hooks_eq. apply all_scopes_applied. Qed.

(* data generation applies exactly the hooks whose own filters select the operation, for all six targets *)
Lemma generation_hooks_full scopes closures ops g s t c o k f :
  let st := fst (run scopes closures ops) in
  In (k, f) (generation_hooks st g s t c o) <->
  exists di, in_scope g s t di /\ In f (all_by_name st di (NGen k c)) /\
             match own_chain (spec_run closures ops) f with Some fs => fset_match fs o = true | None => True end.
Proof.
  intros st. unfold generation_hooks. destruct c; cbn [is_case_target]; apply all_scopes_applied.
Qed.

(* dispatch *)
Lemma in_dispatch st di n ctx f :
  In f (dispatch st di n ctx) <-> In f (all_by_name st di n) /\ should_skip st f ctx = false.
Proof.
  unfold dispatch, fired. rewrite filter_In. split; intros [H1 H2]; split; auto.
  - apply negb_true_iff; exact H2.
  - rewrite H2; reflexivity.
Qed.

(* ---------- unregistration ---------- *)
Lemma hooks_get_unregister f n l :
  hooks_get n (map (fun '(m, hs) => (m, filter (fun g => negb (N.eqb g f)) hs)) l)
  = filter (fun g => negb (N.eqb g f)) (hooks_get n l).
Proof.
  induction l as [|[m hs] l IH]; cbn; [reflexivity|]. destruct (hname_eqb n m); [reflexivity | exact IH].
Qed.

(* C19_unregister_exact *)
Lemma unregister_exact fixed st di f st' :
  step_gen fixed st (OUnregister di f) = (st', Done) ->
  (forall n, all_by_name st' di n = filter (fun g => negb (N.eqb g f)) (all_by_name st di n)) /\
  (forall dj n, dj <> di -> all_by_name st' dj n = all_by_name st dj n) /\
  (forall g, filter_of st' g = filter_of st g) /\
  regs st' = regs st /\ decs st' = decs st.
Proof.
  cbn [step_gen]. destruct (nth_error (disps st) di) as [d|] eqn:Ed; [|discriminate].
  intros H; inversion H; subst st'; clear H. unfold all_by_name, filter_of; cbn [disps heap fattr regs decs].
  repeat split; auto.
  - intros n. rewrite (nth_error_upd_same _ _ _ _ Ed), Ed. cbn. apply hooks_get_unregister.
  - intros dj n Hne. rewrite nth_error_upd_other by congruence. reflexivity.
Qed.

Lemma unregister_all_exact fixed st di st' :
  step_gen fixed st (OUnregisterAll di) = (st', Done) ->
  (forall n, all_by_name st' di n = []) /\
  (forall dj n, dj <> di -> all_by_name st' dj n = all_by_name st dj n) /\
  (forall g, filter_of st' g = filter_of st g).
Proof.
  cbn [step_gen]. destruct (nth_error (disps st) di) as [d|] eqn:Ed; [|discriminate].
  intros H; inversion H; subst st'; clear H. unfold all_by_name, filter_of; cbn [disps heap fattr].
  repeat split; auto.
  - intros n. rewrite (nth_error_upd_same _ _ _ _ Ed). reflexivity.
  - intros dj n Hne. rewrite nth_error_upd_other by congruence. reflexivity.
Qed.

(* an unregistered hook is never applied again on that dispatcher; every other hook is applied as before *)
Lemma unregistered_not_applied fixed st di f st' c ctx k :
  step_gen fixed st (OUnregister di f) = (st', Done) ->
  ~ In (k, f) (apply_to_container st' di c ctx) /\
  (forall g, g <> f -> (In (k, g) (apply_to_container st' di c ctx) <-> In (k, g) (apply_to_container st di c ctx))).
Proof.
  intros H. destruct (unregister_exact _ _ _ _ _ H) as (H1 & _ & H3 & _).
  assert (Hs : forall g, should_skip st' g ctx = should_skip st g ctx) by (intros g; unfold should_skip; rewrite H3; reflexivity).
  split.
  - rewrite in_apply_to_container, H1, filter_In, N.eqb_refl. cbn. intros [[_ ?] _]; discriminate.
  - intros g Hg. rewrite !in_apply_to_container, H1, filter_In, Hs.
    assert (negb (N.eqb g f) = true) by (apply negb_true_iff, N.eqb_neq; exact Hg). tauto.
Qed.

(* ====================================================================================== *)
(* Part C: auth providers                                                                 *)
(* ====================================================================================== *)
Lemma hp_app_default sets w : hp (sets ++ [fs_empty]) w = hp sets w.
Proof.
  unfold hp. destruct (Nat.lt_ge_cases w (length sets)) as [H|H].
  - apply app_nth1; exact H.
  - rewrite app_nth2 by exact H. rewrite (nth_overflow sets) by exact H.
    destruct (w - length sets) as [|[|m]]; reflexivity.
Qed.

Lemma auth_sets_from ops : forall st,
  length (a_sets st) = length (a_wrappers st) ->
  no_bad_index (snd (arun_from st ops)) = true ->
  forall w, hp (a_sets (fst (arun_from st ops))) w = chain_from (hp (a_sets st) w) (calls_on w ops).
Proof.
  induction ops as [|o ops IH]; intros st Hlen Hok w; [reflexivity|].
  cbn [arun_from] in *. destruct (astep st o) as [st1 out] eqn:E1.
  destruct (arun_from st1 ops) as [st2 outs] eqn:E2. cbn [fst snd] in *.
  cbn [no_bad_index forallb] in Hok. apply andb_true_iff in Hok. destruct Hok as [Hout Hok].
  assert (IH' : length (a_sets st1) = length (a_wrappers st1) ->
                hp (a_sets st2) w = chain_from (hp (a_sets st1) w) (calls_on w ops)).
  { intros HL. specialize (IH st1 HL). rewrite E2 in IH. cbn [fst snd] in IH. apply IH. exact Hok. }
  destruct o as [s|cls|s cls|w' inc c|w' arg|s]; cbn [astep] in E1; unfold a_new_wrapper in E1; cbn [calls_on].
  - destruct (nth_error (a_storages st) s); inversion E1; subst st1 out; [|discriminate].
    rewrite IH'; cbn [a_sets a_wrappers]; [rewrite hp_app_default; reflexivity | rewrite !app_length; cbn; lia].
  - inversion E1; subst st1 out.
    rewrite IH'; cbn [a_sets a_wrappers]; [rewrite hp_app_default; reflexivity | rewrite !app_length; cbn; lia].
  - destruct (nth_error (a_storages st) s); inversion E1; subst st1 out; [|discriminate].
    rewrite IH'; cbn [a_sets a_wrappers]; [rewrite hp_app_default; reflexivity | rewrite !app_length; cbn; lia].
  - destruct (nth_error (a_wrappers st) w') as [k|] eqn:Ew; [|inversion E1; subst out; discriminate].
    assert (Hb : w' < length (a_sets st)) by (rewrite Hlen; exact (nth_error_lt _ _ _ Ew)).
    destruct (add_filter inc c (hp (a_sets st) w')) as [fs'|] eqn:Ea; inversion E1; subst st1 out.
    + rewrite IH'; cbn [a_sets a_wrappers]; [|rewrite length_upd; exact Hlen].
      destruct (Nat.eqb_spec w w') as [->|Hne].
      * rewrite hp_upd_same by exact Hb. cbn [chain_from fold_left]. unfold s_filter at 2. rewrite Ea. reflexivity.
      * rewrite hp_upd_other by congruence. reflexivity.
    + rewrite IH' by exact Hlen.
      destruct (Nat.eqb_spec w w') as [->|Hne]; [|reflexivity].
      cbn [chain_from fold_left]. unfold s_filter at 2. rewrite Ea. reflexivity.
  - destruct (nth_error (a_wrappers st) w') as [[s|cls|s]|] eqn:Ew.
    + destruct (nth_error (a_storages st) s); inversion E1; subst st1 out; [|discriminate]. apply IH'. exact Hlen.
    + destruct (lookup arg (a_marks st)); inversion E1; subst st1 out; apply IH'; exact Hlen.
    + inversion E1; subst st1 out. apply IH'. exact Hlen.
    + inversion E1; subst out; discriminate.
  - destruct (nth_error (a_storages st) s); inversion E1; subst st1 out; [|discriminate]. apply IH'. exact Hlen.
Qed.

(* the filter set of every wrapper (hence of the provider it registers) is exactly its own chain *)
Lemma auth_provider_own_filter n ops w :
  no_bad_index (snd (arun n ops)) = true ->
  hp (a_sets (fst (arun n ops))) w = chain_value (calls_on w ops).
Proof.
  intros H. unfold arun in *. rewrite (auth_sets_from ops (ainit n) eq_refl H w).
  unfold ainit, hp; cbn. destruct w; reflexivity.
Qed.

Lemma find_ext' {A} (p q : A -> bool) l : (forall x, p x = q x) -> find p l = find q l.
Proof. intros H; induction l as [|a l IH]; cbn; [reflexivity|]. rewrite H, IH; reflexivity. Qed.

(* which provider authenticates: the first one in the storage whose own chain selects the operation *)
Lemma auth_first_matching n ops ps o :
  no_bad_index (snd (arun n ops)) = true -> ps <> [] ->
  storage_set (a_sets (fst (arun n ops))) ps o =
  match find (fun p => match p with
                       | PPlain _ => true
                       | PSelective _ w => fset_match (chain_value (calls_on w ops)) o
                       end) ps with
  | Some p => AuthBy (provider_cls p)
  | None => AuthNone
  end.
Proof.
  intros H Hne. unfold storage_set. destruct ps as [|p ps]; [congruence|].
  erewrite find_ext'; [reflexivity|].
  intros [c|c w]; cbn; [reflexivity|]. rewrite (auth_provider_own_filter n ops w H). reflexivity.
Qed.

(* ====================================================================================== *)
(* Part D: witnesses and non-vacuity                                                      *)
(* ====================================================================================== *)
Definition sGET : str := [71; 69; 84]%N.
Definition sPOST : str := [80; 79; 83; 84]%N.
Definition sUSERS : str := [47; 117; 115; 101; 114; 115]%N.      (* /users *)

Definition call_method (m : str) : fcall :=
  {| c_func := None;
     c_crit := [(ALabel, None, None); (AMethod, Some (EOne m), None); (APath, None, None); (ATag, None, None); (AOpId, None, None)] |}.
Definition call_path (p : str) : fcall :=
  {| c_func := None;
     c_crit := [(ALabel, None, None); (AMethod, None, None); (APath, Some (EOne p), None); (ATag, None, None); (AOpId, None, None)] |}.

Definition op_get : oper := {| o_idx := 0; o_label := []; o_method := [103; 101; 116]%N; o_path := sUSERS; o_tags := None; o_opid := None |}.
Definition op_post : oper := {| o_idx := 1; o_label := []; o_method := [112; 111; 115; 116]%N; o_path := sUSERS; o_tags := None; o_opid := None |}.

Definition f_map_body : hookfn := {| h_id := 0; h_name := NGen KMap TBody; h_arity := 2 |}.
Definition f_filter_query : hookfn := {| h_id := 2; h_name := NGen KFilter TQuery; h_arity := 2 |}.
Definition f_flatmap_headers : hookfn := {| h_id := 3; h_name := NGen KFlatmap THeaders; h_arity := 2 |}.
Definition f_map_case : hookfn := {| h_id := 6; h_name := NGen KMap TCase; h_arity := 2 |}.
Definition f_bpp : hookfn := {| h_id := 8; h_name := NBeforeProcessPath; h_arity := 3 |}.
Definition f_map_query : hookfn := {| h_id := 21; h_name := NGen KMap TQuery; h_arity := 2 |}.

Definition fs_get : fset := {| incl := [[MVal AMethod (EOne sGET)]]; excl := [] |}.
Definition fs_users : fset := {| incl := [[MVal APath (EOne sUSERS)]]; excl := [] |}.

(* [apply_to A; register h1; apply_to B; register h2] *)
Definition hist_two : list op :=
  [OFilter 0 true (call_method sGET); ORegFn 0 f_map_body; OFilter 0 true (call_path sUSERS); ORegFn 0 f_filter_query].

(* before the fix h2 carried A and lost B *)
Lemma prefix_behaviour_refuted :
  filter_of (fst (run_prefix [Schema] [0] hist_two)) (h_id f_filter_query) = Some fs_get /\
  own_chain (spec_run [0] hist_two) (h_id f_filter_query) = Some fs_users /\
  filter_of (fst (run_prefix [Schema] [0] hist_two)) (h_id f_filter_query)
    <> own_chain (spec_run [0] hist_two) (h_id f_filter_query).
Proof. repeat split; try (vm_compute; reflexivity). vm_compute. discriminate. Qed.

(* the same history on the code as it is: both hooks registered, each with its own filters (non-vacuity) *)
Example hist_two_now :
  snd (run [Schema] [0] hist_two) = [Done; Done; Done; Done] /\
  filter_of (fst (run [Schema] [0] hist_two)) (h_id f_map_body) = Some fs_get /\
  filter_of (fst (run [Schema] [0] hist_two)) (h_id f_filter_query) = Some fs_users /\
  dispatch (fst (run [Schema] [0] hist_two)) 0 (NGen KFilter TQuery) (Some op_post) = [2%N] /\
  dispatch (fst (run [Schema] [0] hist_two)) 0 (NGen KMap TBody) (Some op_post) = [].
Proof. vm_compute. repeat split; reflexivity. Qed.

(* before the fix the named form dropped the filters chained on the decorator *)
Lemma prefix_named_form_refuted :
  let ops := [ORegName 0 (NGen KMap TBody); ODecFilter 0 true (call_method sGET); ODecApply 0 f_map_body] in
  filter_of (fst (run_prefix [Schema] [0] ops)) 0%N = Some fs_empty /\
  filter_of (fst (run [Schema] [0] ops)) 0%N = Some fs_get.
Proof. vm_compute. split; reflexivity. Qed.

(* F2 (fixed by 4324b099): before, case-level hooks were applied whatever their filters said *)
Lemma case_hooks_prefix_behaviour_refuted :
  let ops := [OFilter 0 true (call_method sGET); ORegFn 0 f_map_case] in
  own_chain (spec_run [0; 1] ops) 6%N = Some fs_get /\ fset_match fs_get op_post = false /\
  In (KMap, 6%N) (generation_hooks_prefix (fst (run [Global; Schema] [0; 1] ops)) 0 1 None TCase op_post).
Proof. vm_compute. repeat split; auto. Qed.

(* the same history on the code as it is: the GET-only case hook is applied for GET and not for POST *)
Example case_hooks_now :
  let st := fst (run [Global; Schema] [0; 1] [OFilter 0 true (call_method sGET); ORegFn 0 f_map_case]) in
  generation_hooks st 0 1 None TCase op_post = [] /\ generation_hooks st 0 1 None TCase op_get = [(KMap, 6%N)].
Proof. vm_compute. split; reflexivity. Qed.

(* F3: an unfiltered registration right after a decorator expression with filters is refused *)
Lemma unfiltered_accepted_refuted :
  let pre := [ORegName 0 (NGen KMap TBody); ODecFilter 0 true (call_method sGET)] in
  snd (run [Schema] [0] (pre ++ [ODecApply 0 f_map_body; ORegFn 0 f_bpp])) = [Done; Done; Done; RejectedFilter].
Proof. vm_compute. reflexivity. Qed.

(* F4: a registration refused for its filters leaves them to the next function registered on the closure *)
Lemma unfiltered_applies_everywhere_refuted :
  let pre := [OFilter 0 true (call_method sGET)] in
  snd (run [Schema] [0] (pre ++ [ORegFn 0 f_bpp; ORegFn 0 f_map_query])) = [Done; RejectedFilter; Done] /\
  filter_of (fst (run [Schema] [0] (pre ++ [ORegFn 0 f_bpp; ORegFn 0 f_map_query]))) (h_id f_map_query) = Some fs_get /\
  should_skip (fst (run [Schema] [0] (pre ++ [ORegFn 0 f_bpp; ORegFn 0 f_map_query]))) (h_id f_map_query) (Some op_post) = true.
Proof. vm_compute. repeat split; reflexivity. Qed.

(* F5: registering the same function object again replaces the filters of its first registration *)
Lemma registration_keeps_filter_refuted :
  let ops := [OFilter 0 true (call_method sGET); ORegFn 0 f_flatmap_headers; ORegFn 1 f_flatmap_headers] in
  fset_match (chain_value [(true, call_method sGET)]) op_post = false /\
  In (KFlatmap, 3%N) (apply_to_container (fst (run [Global; Schema] [0; 1] ops)) 0 THeaders (Some op_post)).
Proof. vm_compute. split; auto. Qed.

(* non-vacuity of the expression theorems and of the region predicate *)
Example named_form_example :
  filter_of (fst (run [Global; Schema] [0; 1]
     (hist_two ++ filter_ops 0 [(true, call_method sGET)] ++ [ORegName 0 (NGen KMap TQuery)]
      ++ dec_filter_ops 0 [(false, call_path sUSERS)] ++ [ODecApply 0 f_map_query]))) 21%N
  = Some {| incl := [[MVal AMethod (EOne sGET)]]; excl := [[MVal APath (EOne sUSERS)]] |}
  /\ closure_clean (spec_run [0; 1] hist_two) 0 = true.
Proof. vm_compute. split; reflexivity. Qed.

(* auth: two providers on one storage, each with its own chain; the first matching one authenticates *)
Definition auth_hist : list aop :=
  [ARegister 1; AFilter 0 true (call_method sGET); ACall 0 7%N;
   AFromRequests 1 8%N; AFilter 1 true (call_method sPOST);
   ARegister 1; ACall 2 9%N].

Example auth_example :
  no_bad_index (snd (arun 2 auth_hist)) = true /\
  nth 1 (a_storages (fst (arun 2 auth_hist))) [] = [PSelective 7 0; PSelective 8 1; PPlain 9] /\
  set_on_case (fst (arun 2 auth_hist)) None 1 op_get = AuthBy 7 /\
  set_on_case (fst (arun 2 auth_hist)) None 1 op_post = AuthBy 8.
Proof. vm_compute. repeat split; reflexivity. Qed.

Example unregister_example :
  let st := fst (run [Schema] [0] hist_two) in
  let st' := fst (step st (OUnregister 0 0%N)) in
  snd (step st (OUnregister 0 0%N)) = Done /\
  all_by_name st' 0 (NGen KMap TBody) = [] /\ all_by_name st' 0 (NGen KFilter TQuery) = [2%N].
Proof. vm_compute. repeat split; reflexivity. Qed.

Lemma unfiltered_accepted_refuted_last :
  last (snd (run [Schema] [0] ([ORegName 0 (NGen KMap TBody); ODecFilter 0 true (call_method sGET)]
                               ++ [ODecApply 0 f_map_body; ORegFn 0 f_bpp]))) Done = RejectedFilter.
Proof. vm_compute. reflexivity. Qed.

(* ====================================================================================== *)
(* Part E: generation interleaved with registration                                       *)
(* ====================================================================================== *)
Lemma fst_run_app fixed ops1 : forall st ops2,
  fst (run_gen fixed st (ops1 ++ ops2)) = fst (run_gen fixed (fst (run_gen fixed st ops1)) ops2).
Proof.
  induction ops1 as [|o ops1 IH]; intros st ops2; [reflexivity|].
  rewrite <- app_comm_cons, !fst_run_cons. apply IH.
Qed.

Lemma gen_trace_app g s t pre : forall st rest,
  gen_trace st g s t (pre ++ rest)
  = gen_trace st g s t pre ++ gen_trace (fst (run_gen true st (ops_of pre))) g s t rest.
Proof.
  induction pre as [|[o|o] pre IH]; intros st rest; cbn [app gen_trace ops_of].
  - reflexivity.
  - rewrite fst_run_cons. apply IH.
  - rewrite IH. reflexivity.
Qed.

Lemma gen_trace_length g s t evs : forall st, length (gen_trace st g s t evs) = count_generates evs.
Proof. induction evs as [|[o|o] evs IH]; intros st; cbn; auto. Qed.

(* C19_generation_uses_current_registrations: what a generation applies is a function of the registration
   operations before it; the generations before it (how many, for which operations) do not matter *)
Lemma generation_uses_current_registrations st g s t pre o post :
  nth (count_generates pre) (gen_trace st g s t (pre ++ EGenerate o :: post)) []
  = map (fun c => generation_hooks (fst (run_gen true st (ops_of pre))) g s t c o) all_targets.
Proof.
  rewrite gen_trace_app, app_nth2; rewrite gen_trace_length; [|lia].
  rewrite Nat.sub_diag. reflexivity.
Qed.

(* spelled out from the initial state: a hook is applied by a generation iff it is registered NOW under that name
   on a dispatcher in scope and the filters of its own registration expression select the operation *)
Lemma generation_now scopes closures g s t pre o post c k f :
  In c all_targets ->
  (exists l, nth_error (nth (count_generates pre)
                            (gen_trace (init scopes closures) g s t (pre ++ EGenerate o :: post)) []) 
                       (match c with TPath => 0 | TQuery => 1 | THeaders => 2 | TCookies => 3 | TBody => 4 | TCase => 5 end) = Some l
             /\ (In (k, f) l <->
                 exists di, in_scope g s t di /\ In f (all_by_name (fst (run scopes closures (ops_of pre))) di (NGen k c)) /\
                            match own_chain (spec_run closures (ops_of pre)) f with Some fs => fset_match fs o = true | None => True end)).
Proof.
  intros _. rewrite generation_uses_current_registrations.
  exists (generation_hooks (fst (run scopes closures (ops_of pre))) g s t c o). split.
  - destruct c; reflexivity.
  - apply generation_hooks_full.
Qed.

Example gen_trace_example :
  gen_trace (init [Global; Schema] [0; 1]) 0 1 None
    [EGenerate op_get; EOp (OFilter 0 true (call_method sGET)); EOp (ORegFn 0 f_map_query);
     EGenerate op_get; EGenerate op_post; EOp (OUnregister 0 21%N); EGenerate op_get]
  = [[[]; []; []; []; []; []]; [[]; [(KMap, 21%N)]; []; []; []; []]; [[]; []; []; []; []; []]; [[]; []; []; []; []; []]].
Proof. vm_compute. reflexivity. Qed.

(* ====================================================================================== *)
(* Part F: the ledger - every REGISTRATION applies where its own chain says               *)
(* ====================================================================================== *)
(* ---------- boolean equalities reflect equality ---------- *)
Lemma attr_eqb_eq a b : attr_eqb a b = true -> a = b.
Proof. destruct a, b; cbn; intros H; try discriminate; reflexivity. Qed.

Lemma strs_eqb_eq a : forall b, strs_eqb a b = true -> a = b.
Proof.
  induction a as [|x a IH]; intros [|y b] H; cbn in H; try discriminate; [reflexivity|].
  apply andb_true_iff in H. destruct H as [H1 H2]. apply str_eqb_spec in H1. rewrite H1, (IH b H2). reflexivity.
Qed.

Lemma strs_eqb_refl a : strs_eqb a a = true.
Proof. induction a as [|x a IH]; cbn; [reflexivity|]. rewrite str_eqb_refl, IH. reflexivity. Qed.

Lemma expected_eqb_eq a b : expected_eqb a b = true -> a = b.
Proof.
  destruct a as [x|x], b as [y|y]; cbn; intros H; try discriminate.
  - apply str_eqb_spec in H. congruence.
  - apply strs_eqb_eq in H. congruence.
Qed.

Lemma matcher_beq_eq a b : matcher_beq a b = true -> a = b.
Proof.
  destruct a as [a e|[i t]], b as [a' e'|[i' t']]; cbn; intros H; try discriminate.
  - apply andb_true_iff in H. destruct H as [H1 H2]. rewrite (attr_eqb_eq _ _ H1), (expected_eqb_eq _ _ H2). reflexivity.
  - unfold opaque_beq in H. cbn in H. apply andb_true_iff in H. destruct H as [H1 H2].
    apply N.eqb_eq in H1. apply str_eqb_spec in H2. congruence.
Qed.

Lemma matcher_beq_refl a : matcher_beq a a = true.
Proof.
  destruct a as [a e|[i t]]; cbn.
  - assert (attr_eqb a a = true) as -> by (destruct a; reflexivity).
    destruct e; cbn; [apply str_eqb_refl | apply strs_eqb_refl].
  - unfold opaque_beq; cbn. rewrite N.eqb_refl, str_eqb_refl. reflexivity.
Qed.

Lemma list_beq_eq {A} (eq : A -> A -> bool) : (forall x y, eq x y = true -> x = y) ->
  forall a b, list_beq eq a b = true -> a = b.
Proof.
  intros Heq. induction a as [|x a IH]; intros [|y b] H; cbn in H; try discriminate; [reflexivity|].
  apply andb_true_iff in H. destruct H as [H1 H2]. rewrite (Heq _ _ H1), (IH b H2). reflexivity.
Qed.

Lemma list_beq_refl {A} (eq : A -> A -> bool) : (forall x, eq x x = true) -> forall a, list_beq eq a a = true.
Proof. intros H. induction a as [|x a IH]; cbn; [reflexivity|]. rewrite H, IH. reflexivity. Qed.

Lemma fset_beq_eq a b : fset_beq a b = true -> a = b.
Proof.
  unfold fset_beq. intros H. apply andb_true_iff in H. destruct H as [H1 H2].
  assert (Hf : forall x y, flt_beq x y = true -> x = y) by (apply list_beq_eq; exact matcher_beq_eq).
  apply (list_beq_eq _ Hf) in H1. apply (list_beq_eq _ Hf) in H2.
  destruct a, b; cbn in *; congruence.
Qed.

Lemma fset_beq_refl a : fset_beq a a = true.
Proof.
  unfold fset_beq.
  assert (Hf : forall x, flt_beq x x = true) by (apply list_beq_refl; exact matcher_beq_refl).
  rewrite !(list_beq_refl _ Hf). reflexivity.
Qed.

Lemma hname_eqb_eq a b : hname_eqb a b = true <-> a = b.
Proof.
  split.
  - destruct a as [k t| | | | | | | |x], b as [k' t'| | | | | | | |y]; cbn; intros H; try discriminate; try reflexivity.
    + apply andb_true_iff in H. destruct H as [H1 H2].
      destruct k, k'; try discriminate; destruct t, t'; try discriminate; reflexivity.
    + apply N.eqb_eq in H. congruence.
  - intros <-. destruct a as [k t| | | | | | | |x]; cbn; try reflexivity.
    + destruct k, t; reflexivity.
    + apply N.eqb_refl.
Qed.

Lemma hname_eqb_sym a b : hname_eqb a b = hname_eqb b a.
Proof.
  destruct (hname_eqb a b) eqn:E1, (hname_eqb b a) eqn:E2; try reflexivity.
  - apply hname_eqb_eq in E1. subst b. rewrite (proj2 (hname_eqb_eq a a) eq_refl) in E2. discriminate.
  - apply hname_eqb_eq in E2. subst b. rewrite (proj2 (hname_eqb_eq a a) eq_refl) in E1. discriminate.
Qed.

(* ---------- _hooks as a function of the dispatcher list ---------- *)
Definition hooks_of (ds : list dispatcher) (di : nat) (n : hname) : list N :=
  match nth_error ds di with None => [] | Some d => hooks_get n (dp_hooks d) end.

Lemma all_by_name_hooks_of st di n : all_by_name st di n = hooks_of (disps st) di n.
Proof. reflexivity. Qed.

Lemma hooks_get_append q n f l :
  hooks_get q (hooks_append n f l) = if hname_eqb q n then hooks_get q l ++ [f] else hooks_get q l.
Proof.
  induction l as [|[m hs] l IH]; cbn [hooks_append hooks_get].
  - destruct (hname_eqb q n); reflexivity.
  - destruct (hname_eqb n m) eqn:Enm; cbn [hooks_get].
    + apply hname_eqb_eq in Enm. subst m. destruct (hname_eqb q n); reflexivity.
    + destruct (hname_eqb q m) eqn:Eqm; [|exact IH].
      apply hname_eqb_eq in Eqm. subst m. rewrite hname_eqb_sym, Enm. reflexivity.
Qed.

Lemma map_upd_same {A B} (g : A -> B) i x x' l :
  nth_error l i = Some x -> g x' = g x -> map g (upd i x' l) = map g l.
Proof.
  revert i; induction l as [|a l IH]; intros [|i] H E; cbn in *; try discriminate.
  - inversion H; subst a. rewrite E. reflexivity.
  - rewrite (IH i H E). reflexivity.
Qed.

Lemma nth_error_scopes ds di : nth_error (map dp_scope ds) di = option_map dp_scope (nth_error ds di).
Proof. apply nth_error_map. Qed.

Lemma register_on_scopes ds di f n : map dp_scope (snd (register_on ds di f n)) = map dp_scope ds.
Proof.
  unfold register_on. destruct (nth_error ds di) as [d|] eqn:Ed; [|reflexivity].
  unfold register_with_name. destruct (validate_hook (dp_scope d) n f); cbn [snd];
    apply (map_upd_same dp_scope _ d); auto; destruct d; reflexivity.
Qed.

Lemma upd_same_id {A} i (x : A) l : nth_error l i = Some x -> upd i x l = l.
Proof. revert i; induction l as [|a l IH]; intros [|i] H; cbn in *; try discriminate; [congruence|]. rewrite (IH i H); reflexivity. Qed.

(* register_hook_with_name on dispatcher di: appended under that name iff _validate_hook accepts *)
Lemma register_on_hooks ds di f n dj m :
  hooks_of (snd (register_on ds di f n)) dj m
  = if accepted (map dp_scope ds) di n f && (Nat.eqb dj di && hname_eqb m n)
    then hooks_of ds dj m ++ [h_id f] else hooks_of ds dj m.
Proof.
  unfold register_on, accepted. rewrite nth_error_scopes.
  destruct (nth_error ds di) as [d|] eqn:Ed; cbn [option_map]; [|reflexivity].
  unfold register_with_name.
  destruct (validate_hook (dp_scope d) n f) eqn:Ev; cbn [snd andb];
    try (rewrite (upd_same_id _ _ _ Ed); reflexivity).
  unfold hooks_of. destruct (Nat.eqb_spec dj di) as [->|Hne]; cbn [andb].
  - rewrite (nth_error_upd_same _ _ _ _ Ed), Ed. cbn [dp_hooks]. apply hooks_get_append.
  - rewrite nth_error_upd_other by congruence. reflexivity.
Qed.

(* ---------- the ledger side of the same operations ---------- *)
Lemma ledger_filter_app p (lg : list entry) e :
  map e_fn (filter p (lg ++ [e])) = map e_fn (filter p lg) ++ (if p e then [e_fn e] else []).
Proof. rewrite filter_app, map_app. cbn [filter]. destruct (p e); reflexivity. Qed.

Lemma ledger_add_hooks scopes ds lg di n f w :
  map dp_scope ds = scopes ->
  (forall dj m, hooks_of ds dj m = map e_fn (filter (entry_on dj m) lg)) ->
  forall dj m, hooks_of (snd (register_on ds di f n)) dj m
               = map e_fn (filter (entry_on dj m) (ledger_add scopes lg di n f w)).
Proof.
  intros Hs H dj m. rewrite register_on_hooks, Hs. unfold ledger_add.
  destruct (accepted scopes di n f); cbn [andb]; [|apply H].
  rewrite ledger_filter_app. unfold entry_on at 2. cbn [e_disp e_name e_fn].
  destruct (Nat.eqb dj di && hname_eqb m n); [rewrite H; reflexivity | rewrite app_nil_r; apply H].
Qed.

Lemma filter_twice {A} (p q : A -> bool) l : filter p (filter q l) = filter (fun x => q x && p x) l.
Proof.
  induction l as [|x l IH]; [reflexivity|]. cbn [filter]. destruct (q x); cbn [andb filter]; [|exact IH].
  destruct (p x); rewrite IH; reflexivity.
Qed.

Lemma filter_map_comm {A B} (g : B -> bool) (h : A -> B) l : filter g (map h l) = map h (filter (fun x => g (h x)) l).
Proof. induction l as [|x l IH]; [reflexivity|]. cbn [map filter]. destruct (g (h x)); cbn [map]; rewrite IH; reflexivity. Qed.

Lemma ledger_unregister_hooks di f dj m (lg : list entry) :
  map e_fn (filter (entry_on dj m) (filter (fun e => negb (Nat.eqb di (e_disp e) && N.eqb (e_fn e) f)) lg))
  = if Nat.eqb dj di then filter (fun g => negb (N.eqb g f)) (map e_fn (filter (entry_on dj m) lg))
    else map e_fn (filter (entry_on dj m) lg).
Proof.
  rewrite filter_twice. destruct (Nat.eqb_spec dj di) as [->|Hne].
  - rewrite filter_map_comm, filter_twice. f_equal. apply filter_ext. intros e. unfold entry_on.
    destruct (Nat.eqb di (e_disp e)), (N.eqb (e_fn e) f), (hname_eqb m (e_name e)); reflexivity.
  - f_equal. apply filter_ext. intros e. unfold entry_on.
    destruct (Nat.eqb_spec dj (e_disp e)) as [He|He]; cbn [andb].
    + destruct (Nat.eqb_spec di (e_disp e)) as [He'|_]; [congruence|]. reflexivity.
    + apply andb_false_r.
Qed.

Lemma ledger_unregister_all_hooks di dj m (lg : list entry) :
  map e_fn (filter (entry_on dj m) (filter (fun e => negb (Nat.eqb di (e_disp e))) lg))
  = if Nat.eqb dj di then [] else map e_fn (filter (entry_on dj m) lg).
Proof.
  rewrite filter_twice. destruct (Nat.eqb_spec dj di) as [->|Hne].
  - replace (filter (fun x => negb (Nat.eqb di (e_disp x)) && entry_on di m x) lg) with (@nil entry); [reflexivity|].
    symmetry. induction lg as [|e lg IH]; [reflexivity|]. cbn [filter]. unfold entry_on at 1.
    destruct (Nat.eqb di (e_disp e)); cbn [negb andb]; exact IH.
  - f_equal. apply filter_ext. intros e. unfold entry_on.
    destruct (Nat.eqb_spec dj (e_disp e)) as [He|He]; cbn [andb].
    + destruct (Nat.eqb_spec di (e_disp e)) as [He'|_]; [congruence|]. reflexivity.
    + apply andb_false_r.
Qed.

(* ---------- what one step of the code does to the dispatchers and to the closures' dispatcher ---------- *)
Definition disps_after (st : state) (o : op) : list dispatcher :=
  match o with
  | ORegFn ri f =>
      match nth_error (regs st) ri with
      | Some r => if r_used r && nonfilterable (h_name f) then disps st
                  else snd (register_on (disps st) (r_disp r) f (h_name f))
      | None => disps st
      end
  | ODecApply di f =>
      match nth_error (decs st) di with
      | Some d => match nth_error (regs st) (d_reg d) with
                  | Some r => if r_used r && nonfilterable (d_name d) then disps st
                              else snd (register_on (disps st) (r_disp r) f (d_name d))
                  | None => disps st
                  end
      | None => disps st
      end
  | ODirect di f n => snd (register_on (disps st) di f n)
  | OUnregister di f =>
      match nth_error (disps st) di with Some d => upd di (unregister_in f d) (disps st) | None => disps st end
  | OUnregisterAll di =>
      match nth_error (disps st) di with Some d => upd di (unregister_all_in d) (disps st) | None => disps st end
  | OFilter _ _ _ | ORegName _ _ | ODecFilter _ _ _ => disps st
  end.

Lemma do_filter_disps st ri r t inc c : disps (fst (do_filter st ri r t inc c)) = disps st.
Proof. unfold do_filter, set_reg. destruct (add_filter inc c (hp (heap st) t)); reflexivity. Qed.

Lemma do_filter_regs st ri r t inc c :
  regs (fst (do_filter st ri r t inc c))
  = upd ri {| r_disp := r_disp r; r_used := true; r_cur := r_cur r; r_proxy := r_proxy r |} (regs st).
Proof. unfold do_filter, set_reg. destruct (add_filter inc c (hp (heap st) t)); reflexivity. Qed.

Lemma step_disps st o : disps (fst (step st o)) = disps_after st o.
Proof.
  unfold step. destruct o as [ri inc c|ri f|ri n|di inc c|di f|di f n|di f|di]; cbn [step_gen disps_after].
  - destruct (nth_error (regs st) ri) as [r|]; [apply do_filter_disps | reflexivity].
  - destruct (nth_error (regs st) ri) as [r|]; [|reflexivity].
    destruct (r_used r && nonfilterable (h_name f)); [reflexivity|].
    destruct (register_on (disps st) (r_disp r) f (h_name f)) as [out ds']. reflexivity.
  - destruct (nth_error (regs st) ri) as [r|]; [|reflexivity].
    destruct (r_used r && nonfilterable n); reflexivity.
  - destruct (nth_error (decs st) di) as [d|]; [|reflexivity].
    destruct (nth_error (regs st) (d_reg d)) as [r|]; [apply do_filter_disps | reflexivity].
  - destruct (nth_error (decs st) di) as [d|]; [|reflexivity].
    destruct (nth_error (regs st) (d_reg d)) as [r|]; [|reflexivity].
    destruct (r_used r && nonfilterable (d_name d)); [reflexivity|].
    destruct (register_on (disps st) (r_disp r) f (d_name d)) as [out ds']. reflexivity.
  - destruct (register_on (disps st) di f n) as [out ds']. reflexivity.
  - destruct (nth_error (disps st) di); reflexivity.
  - destruct (nth_error (disps st) di); reflexivity.
Qed.

Lemma upd_disp_kept ri (r r' : registrar) rs j x :
  nth_error rs ri = Some r -> r_disp r' = r_disp r -> nth_error (upd ri r' rs) j = Some x ->
  exists y, nth_error rs j = Some y /\ r_disp y = r_disp x.
Proof.
  intros Hr Hd Hj. destruct (upd_cases _ _ _ _ _ _ Hr Hj) as [[-> ->]|[_ Hj']]; eauto.
Qed.

(* no step changes the dispatcher a closure registers on *)
Lemma step_regs_disp st o j x :
  nth_error (regs (fst (step st o))) j = Some x -> exists y, nth_error (regs st) j = Some y /\ r_disp y = r_disp x.
Proof.
  unfold step. destruct o as [ri inc c|ri f|ri n|di inc c|di f|di f n|di f|di]; cbn [step_gen].
  - destruct (nth_error (regs st) ri) as [r|] eqn:Er; [|eauto].
    rewrite do_filter_regs. intros H. eapply upd_disp_kept; [exact Er | | exact H]. reflexivity.
  - destruct (nth_error (regs st) ri) as [r|] eqn:Er; [|eauto].
    destruct (r_used r && nonfilterable (h_name f)); [eauto|].
    destruct (register_on (disps st) (r_disp r) f (h_name f)) as [out ds']. cbn [fst regs].
    intros H. eapply upd_disp_kept; [exact Er | | exact H]. reflexivity.
  - destruct (nth_error (regs st) ri) as [r|] eqn:Er; [|eauto].
    destruct (r_used r && nonfilterable n); [eauto|]. cbn [fst regs].
    intros H. eapply upd_disp_kept; [exact Er | | exact H]. reflexivity.
  - destruct (nth_error (decs st) di) as [d|]; [|eauto].
    destruct (nth_error (regs st) (d_reg d)) as [r|] eqn:Er; [|eauto].
    rewrite do_filter_regs. intros H. eapply upd_disp_kept; [exact Er | | exact H]. reflexivity.
  - destruct (nth_error (decs st) di) as [d|]; [|eauto].
    destruct (nth_error (regs st) (d_reg d)) as [r|]; [|eauto].
    destruct (r_used r && nonfilterable (d_name d)); [eauto|].
    destruct (register_on (disps st) (r_disp r) f (d_name d)) as [out ds']. cbn [fst regs]. eauto.
  - destruct (register_on (disps st) di f n) as [out ds']. cbn [fst regs]. eauto.
  - destruct (nth_error (disps st) di); cbn [fst regs]; eauto.
  - destruct (nth_error (disps st) di); cbn [fst regs]; eauto.
Qed.

(* ---------- lock-step invariant: code state, specification state, ledger ---------- *)
Record LInv (scopes : list scope) (closures : list nat) (st : state) (ss : sstate) (lg : list entry) : Prop := {
  L_inv : InvS st ss;
  L_scopes : map dp_scope (disps st) = scopes;
  L_clos : forall ri r, nth_error (regs st) ri = Some r -> nth_error closures ri = Some (r_disp r);
  L_hooks : forall di n, hooks_of (disps st) di n = map e_fn (filter (entry_on di n) lg)
}.

Lemma hooks_of_unregister ds di d f dj m :
  nth_error ds di = Some d ->
  hooks_of (upd di (unregister_in f d) ds) dj m
  = if Nat.eqb dj di then filter (fun g => negb (N.eqb g f)) (hooks_of ds dj m) else hooks_of ds dj m.
Proof.
  intros Ed. unfold hooks_of. destruct (Nat.eqb_spec dj di) as [->|Hne].
  - rewrite (nth_error_upd_same _ _ _ _ Ed), Ed. cbn [unregister_in dp_hooks]. apply hooks_get_unregister.
  - rewrite nth_error_upd_other by congruence. reflexivity.
Qed.

Lemma hooks_of_unregister_all ds di d dj m :
  nth_error ds di = Some d ->
  hooks_of (upd di (unregister_all_in d) ds) dj m = if Nat.eqb dj di then [] else hooks_of ds dj m.
Proof.
  intros Ed. unfold hooks_of. destruct (Nat.eqb_spec dj di) as [->|Hne].
  - rewrite (nth_error_upd_same _ _ _ _ Ed). reflexivity.
  - rewrite nth_error_upd_other by congruence. reflexivity.
Qed.

Lemma step_linv scopes closures st ss lg o :
  LInv scopes closures st ss lg ->
  LInv scopes closures (fst (step st o)) (spec_step ss o) (ledger_step scopes closures ss lg o).
Proof.
  intros [HI Hsc Hcl Hh]. pose proof HI as [Hlr Hld Hreg Hdec _ _ _ _].
  constructor.
  - apply step_inv; exact HI.
  - rewrite step_disps. destruct o as [ri inc c|ri f|ri n|di inc c|di f|di f n|di f|di]; cbn [disps_after]; try exact Hsc.
    + destruct (nth_error (regs st) ri) as [r|]; [|exact Hsc].
      destruct (r_used r && nonfilterable (h_name f)); [exact Hsc|]. rewrite register_on_scopes; exact Hsc.
    + destruct (nth_error (decs st) di) as [d|]; [|exact Hsc].
      destruct (nth_error (regs st) (d_reg d)) as [r|]; [|exact Hsc].
      destruct (r_used r && nonfilterable (d_name d)); [exact Hsc|]. rewrite register_on_scopes; exact Hsc.
    + rewrite register_on_scopes; exact Hsc.
    + destruct (nth_error (disps st) di) as [d|] eqn:Ed; [|exact Hsc].
      rewrite (map_upd_same dp_scope _ d); auto.
    + destruct (nth_error (disps st) di) as [d|] eqn:Ed; [|exact Hsc].
      rewrite (map_upd_same dp_scope _ d); auto.
  - intros ri r Hr. destruct (step_regs_disp _ _ _ _ Hr) as (y & Hy & <-). exact (Hcl ri y Hy).
  - intros dj m. rewrite step_disps.
    destruct o as [ri inc c|ri f|ri n|di inc c|di f|di f n|di f|di]; cbn [disps_after ledger_step]; try apply Hh.
    + (* ORegFn *)
      destruct (nth_error (regs st) ri) as [r|] eqn:Er.
      * destruct (nth_error_some_len _ (s_regs ss) _ _ Hlr Er) as (s & Es). rewrite Es, (Hcl ri r Er).
        destruct (Hreg ri r s Er Es) as (Hu & _). rewrite <- Hu.
        destruct (r_used r && nonfilterable (h_name f)); [apply Hh|].
        apply ledger_add_hooks; assumption.
      * rewrite (nth_error_none_len _ (s_regs ss) _ Hlr Er). apply Hh.
    + (* ODecApply *)
      destruct (nth_error (decs st) di) as [d|] eqn:Ed.
      * destruct (nth_error_some_len _ (s_decs ss) _ _ Hld Ed) as (sd & Esd). rewrite Esd.
        destruct (Hdec di d sd Ed Esd) as (Hdr & Hdn & _). rewrite <- Hdr, <- Hdn.
        destruct (nth_error (regs st) (d_reg d)) as [r|] eqn:Er.
        -- destruct (nth_error_some_len _ (s_regs ss) _ _ Hlr Er) as (s & Es). rewrite Es, (Hcl _ r Er).
           destruct (Hreg _ r s Er Es) as (Hu & _). rewrite <- Hu.
           destruct (r_used r && nonfilterable (d_name d)); [apply Hh|].
           apply ledger_add_hooks; assumption.
        -- rewrite (nth_error_none_len _ (s_regs ss) _ Hlr Er). apply Hh.
      * rewrite (nth_error_none_len _ (s_decs ss) _ Hld Ed). apply Hh.
    + (* ODirect *) apply ledger_add_hooks; assumption.
    + (* OUnregister *)
      rewrite ledger_unregister_hooks, <- Hh.
      destruct (nth_error (disps st) di) as [d|] eqn:Ed; [apply hooks_of_unregister; exact Ed|].
      destruct (Nat.eqb_spec dj di) as [->|_]; [|reflexivity]. unfold hooks_of. rewrite Ed. reflexivity.
    + (* OUnregisterAll *)
      rewrite ledger_unregister_all_hooks, <- Hh.
      destruct (nth_error (disps st) di) as [d|] eqn:Ed; [apply hooks_of_unregister_all; exact Ed|].
      destruct (Nat.eqb_spec dj di) as [->|_]; [|reflexivity]. unfold hooks_of. rewrite Ed. reflexivity.
Qed.

Lemma init_regs_disp closures : forall s i r,
  nth_error (map (fun '(i, d) => {| r_disp := d; r_used := false; r_cur := i; r_proxy := i |})
                 (combine (seq s (length closures)) closures)) i = Some r ->
  nth_error closures i = Some (r_disp r).
Proof.
  induction closures as [|c cl IH]; intros s i r H; cbn in H.
  - destruct i; discriminate.
  - destruct i as [|i]; cbn in H.
    + inversion H; subst r; reflexivity.
    + exact (IH (S s) i r H).
Qed.

Lemma init_linv scopes closures : LInv scopes closures (init scopes closures) (spec_init closures) [].
Proof.
  constructor.
  - apply init_inv.
  - unfold init; cbn [disps]. rewrite map_map. cbn [dp_scope]. apply map_id.
  - unfold init; cbn [regs]. intros ri r H. exact (init_regs_disp _ _ _ _ H).
  - intros di n. unfold init, hooks_of; cbn [disps filter map].
    destruct (nth_error (map (fun s => {| dp_scope := s; dp_hooks := [] |}) scopes) di) as [d|] eqn:E; [|reflexivity].
    apply nth_error_In in E. apply in_map_iff in E. destruct E as (x & <- & _). reflexivity.
Qed.

Lemma ledger_from_fst scopes closures ops : forall ss lg,
  fst (ledger_from scopes closures ss lg ops) = fold_left spec_step ops ss.
Proof. induction ops as [|o ops IH]; intros ss lg; [reflexivity|]. cbn [ledger_from fold_left]. apply IH. Qed.

Lemma run_linv scopes closures ops : forall st ss lg,
  LInv scopes closures st ss lg ->
  LInv scopes closures (fst (run_gen true st ops)) (fold_left spec_step ops ss) (snd (ledger_from scopes closures ss lg ops)).
Proof.
  induction ops as [|o ops IH]; intros st ss lg H; [exact H|].
  rewrite fst_run_cons. cbn [fold_left ledger_from]. apply IH. apply step_linv. exact H.
Qed.

Lemma ledger_linv scopes closures ops :
  LInv scopes closures (fst (run scopes closures ops)) (spec_run closures ops) (ledger scopes closures ops).
Proof. unfold run, spec_run, ledger. apply run_linv. apply init_linv. Qed.

(* C19_ledger_is_hooks: the ledger (specification-side bookkeeping) lists exactly what _hooks holds, in order *)
Lemma ledger_is_hooks scopes closures ops di n :
  all_by_name (fst (run scopes closures ops)) di n = map e_fn (filter (entry_on di n) (ledger scopes closures ops)).
Proof. rewrite all_by_name_hooks_of. apply (L_hooks _ _ _ _ _ (ledger_linv scopes closures ops)). Qed.

Lemma fset_match_empty o : fset_match fs_empty o = true.
Proof. reflexivity. Qed.

Lemma should_skip_opt st f ctx :
  should_skip st f ctx = match ctx with Some o => negb (fset_match (opt_fs (filter_of st f)) o) | None => false end.
Proof. unfold should_skip. destruct (filter_of st f), ctx; reflexivity. Qed.

(* a registration whose chain is the chain its function carries now is skipped exactly where its own chain says *)
Lemma current_entry_own_chain scopes closures ops e ctx :
  entry_current (spec_run closures ops) e = true ->
  should_skip (fst (run scopes closures ops)) (e_fn e) ctx = negb (entry_selects (spec_run closures ops) e ctx).
Proof.
  unfold entry_current. intros H. apply fset_beq_eq in H.
  rewrite should_skip_opt, hook_gets_own_filter, <- H. destruct ctx; reflexivity.
Qed.

Lemma fired_current st ss ctx di n (lg : list entry) :
  (forall e, entry_current ss e = true -> should_skip st (e_fn e) ctx = negb (entry_selects ss e ctx)) ->
  forallb (entry_current ss) (filter (entry_on di n) lg) = true ->
  fired st ctx (map e_fn (filter (entry_on di n) lg))
  = map e_fn (filter (fun e => entry_on di n e && entry_selects ss e ctx) lg).
Proof.
  intros Hs. unfold fired. induction lg as [|e lg IH]; [reflexivity|]. cbn [filter].
  destruct (entry_on di n e); cbn [andb]; [|exact IH].
  cbn [forallb map filter]. intros H. apply andb_true_iff in H. destruct H as [Hc Hr].
  rewrite (Hs e Hc), negb_involutive. destruct (entry_selects ss e ctx); cbn [map]; rewrite (IH Hr); reflexivity.
Qed.

(* C19_each_registration_own_chain_partial *)
Lemma each_registration_own_chain scopes closures ops di n ctx :
  forallb (entry_current (spec_run closures ops)) (filter (entry_on di n) (ledger scopes closures ops)) = true ->
  dispatch (fst (run scopes closures ops)) di n ctx
  = spec_dispatch (spec_run closures ops) (ledger scopes closures ops) di n ctx.
Proof.
  intros H. unfold dispatch, spec_dispatch. rewrite ledger_is_hooks.
  apply fired_current; [|exact H]. intros e He. apply current_entry_own_chain. exact He.
Qed.

Lemma each_registration_own_chain_container scopes closures ops di t ctx :
  (forall k, forallb (entry_current (spec_run closures ops))
                     (filter (entry_on di (NGen k t)) (ledger scopes closures ops)) = true) ->
  apply_to_container (fst (run scopes closures ops)) di t ctx
  = spec_apply_to_container (spec_run closures ops) (ledger scopes closures ops) di t ctx.
Proof.
  intros H. unfold apply_to_container, spec_apply_to_container.
  apply flat_map_ext. intros k. f_equal. apply (each_registration_own_chain scopes closures ops di (NGen k t) ctx (H k)).
Qed.

(* the seed scenario as a theorem: after ANY history - the function registered before with filters, on any closure, in any
   form, unregistered or not - an unfiltered registration on a closure with nothing pending applies everywhere *)
Lemma unfiltered_reregistration_function_form scopes closures pre ri f ctx :
  closure_clean (spec_run closures pre) ri = true ->
  should_skip (fst (run scopes closures (pre ++ [ORegFn ri f]))) (h_id f) ctx = false.
Proof.
  intros H. pose proof (function_form_expression scopes closures pre ri [] f H (or_introl eq_refl)) as E.
  cbn [filter_ops map app] in E. unfold should_skip. rewrite E. destruct ctx; reflexivity.
Qed.

Lemma unfiltered_reregistration_named_form scopes closures pre ri n f ctx :
  closure_clean (spec_run closures pre) ri = true ->
  let d := length (s_decs (spec_run closures pre)) in
  should_skip (fst (run scopes closures (pre ++ [ORegName ri n; ODecApply d f]))) (h_id f) ctx = false.
Proof.
  intros Hclean d. unfold should_skip. rewrite hook_gets_own_filter. unfold spec_run.
  rewrite fold_left_app. fold (spec_run closures pre). cbn [fold_left].
  unfold closure_clean in Hclean. destruct (nth_error (s_regs (spec_run closures pre)) ri) as [r|] eqn:Er; [|discriminate].
  apply andb_true_iff in Hclean. destruct Hclean as [Hu He]. apply negb_true_iff in Hu.
  assert (Hp : s_pending r = fs_empty).
  { unfold fs_is_empty in He. destruct r as [u [i e]]; cbn in *. destruct i, e; try discriminate; reflexivity. }
  cbn [spec_step]. rewrite Er, Hu. cbn [andb s_decs s_regs].
  fold d. rewrite nth_error_app2, Nat.sub_diag by (subst d; lia). cbn [nth_error sd_reg sd_name].
  rewrite (nth_error_upd_same _ _ _ _ Er). cbn [s_used andb].
  unfold own_chain; cbn [s_attr s_decs slookup]. rewrite N.eqb_refl.
  rewrite nth_error_app2, Nat.sub_diag by (subst d; lia). cbn [nth_error sd_val]. rewrite Hp.
  destruct ctx; reflexivity.
Qed.

(* the entry a function-form registration appends is current right after it (the region is reached by every registration) *)
Example reregistration_example :
  let ops := [OFilter 0 true (call_method sGET); ORegFn 0 f_map_query; OUnregister 0 21%N; ORegFn 0 f_map_query;
              ORegFn 1 f_map_query; ORegName 1 (NGen KMap THeaders); ODecApply 0 f_map_query] in
  let ss := spec_run [0; 1] ops in
  let lg := ledger [Global; Schema] [0; 1] ops in
  map (fun e => (e_disp e, e_fn e, entry_current ss e)) lg = [(0, 21%N, true); (1, 21%N, true); (1, 21%N, true)] /\
  dispatch (fst (run [Global; Schema] [0; 1] ops)) 0 (NGen KMap TQuery) (Some op_post) = [21%N] /\
  spec_dispatch ss lg 0 (NGen KMap TQuery) (Some op_post) = [21%N] /\
  spec_dispatch ss lg 1 (NGen KMap THeaders) (Some op_post) = [21%N].
Proof. vm_compute. repeat split; reflexivity. Qed.

(* F5 in terms of registrations: [apply_to GET; g.register f; s.register f] - the first registration is not current
   any more (its function was registered again without filters) and fires for POST although its own chain says GET only *)
Lemma each_registration_own_chain_refuted :
  let ops := [OFilter 0 true (call_method sGET); ORegFn 0 f_flatmap_headers; ORegFn 1 f_flatmap_headers] in
  let ss := spec_run [0; 1] ops in
  let lg := ledger [Global; Schema] [0; 1] ops in
  map (entry_current ss) lg = [false; true] /\
  dispatch (fst (run [Global; Schema] [0; 1] ops)) 0 (NGen KFlatmap THeaders) (Some op_post) = [3%N] /\
  spec_dispatch ss lg 0 (NGen KFlatmap THeaders) (Some op_post) = [].
Proof. vm_compute. repeat split; reflexivity. Qed.

(* ... and the other direction: a registration without any filter expression (HookDispatcher.apply) of a function that
   carries the filters of an earlier registration is skipped where that stale chain says *)
Lemma direct_registration_inherits_refuted :
  let ops := [OFilter 0 true (call_method sGET); ORegFn 0 f_flatmap_headers; OUnregister 0 3%N;
              ODirect 1 f_flatmap_headers (NGen KFlatmap THeaders)] in
  let ss := spec_run [0; 1] ops in
  let lg := ledger [Global; Schema] [0; 1] ops in
  map (entry_current ss) lg = [false] /\
  dispatch (fst (run [Global; Schema] [0; 1] ops)) 1 (NGen KFlatmap THeaders) (Some op_post) = [] /\
  spec_dispatch ss lg 1 (NGen KFlatmap THeaders) (Some op_post) = [3%N].
Proof. vm_compute. repeat split; reflexivity. Qed.

Lemma each_registration_own_chain_refuted_neq :
  dispatch (fst (run [Global; Schema] [0; 1] [OFilter 0 true (call_method sGET); ORegFn 0 f_flatmap_headers; ORegFn 1 f_flatmap_headers]))
           0 (NGen KFlatmap THeaders) (Some op_post)
  <> spec_dispatch (spec_run [0; 1] [OFilter 0 true (call_method sGET); ORegFn 0 f_flatmap_headers; ORegFn 1 f_flatmap_headers])
                   (ledger [Global; Schema] [0; 1] [OFilter 0 true (call_method sGET); ORegFn 0 f_flatmap_headers; ORegFn 1 f_flatmap_headers])
                   0 (NGen KFlatmap THeaders) (Some op_post).
Proof. destruct each_registration_own_chain_refuted as (_ & H1 & H2). rewrite H1, H2. discriminate. Qed.

Definition hist_direct : list op :=
  [OFilter 0 true (call_method sGET); ORegFn 0 f_flatmap_headers; OUnregister 0 3%N; ODirect 1 f_flatmap_headers (NGen KFlatmap THeaders)].

Lemma direct_registration_inherits_refuted_neq :
  dispatch (fst (run [Global; Schema] [0; 1] hist_direct)) 1 (NGen KFlatmap THeaders) (Some op_post) = [] /\
  spec_dispatch (spec_run [0; 1] hist_direct) (ledger [Global; Schema] [0; 1] hist_direct) 1 (NGen KFlatmap THeaders) (Some op_post) <> [].
Proof. destruct direct_registration_inherits_refuted as (_ & H1 & H2). split; [exact H1 | unfold hist_direct; rewrite H2; discriminate]. Qed.

(* ====================================================================================== *)
(* Part G: evaluation sequences over the operations of several schemas                    *)
(* ====================================================================================== *)
(* ---------- the code as it is never looks at the memory ---------- *)
Lemma should_skip_plain st m f ctx : should_skip_m match_plain st m f ctx = (should_skip st f ctx, m).
Proof.
  unfold should_skip_m, should_skip, filter_of, match_plain.
  destruct (lookup f (fattr st)) as [c|]; cbn [option_map]; [|reflexivity].
  destruct ctx as [o|]; reflexivity.
Qed.

Lemma fired_plain st ctx fs : forall m, fired_m match_plain st m ctx fs = (fired st ctx fs, m).
Proof.
  induction fs as [|f fs IH]; intros m; cbn [fired_m]; [reflexivity|].
  rewrite should_skip_plain, IH. unfold fired. cbn [filter].
  destruct (should_skip st f ctx); cbn [negb]; reflexivity.
Qed.

Lemma container_plain st di t ctx ks : forall m,
  container_m match_plain st m di t ctx ks
  = (flat_map (fun k => map (fun f => (k, f)) (fired st ctx (all_by_name st di (NGen k t)))) ks, m).
Proof.
  induction ks as [|k ks IH]; intros m; cbn [container_m flat_map]; [reflexivity|].
  rewrite fired_plain, IH. reflexivity.
Qed.

Lemma apply_to_all_plain st m g s t c ctx :
  apply_to_all_m match_plain st m g s t c ctx = (apply_to_all st g s t c ctx, m).
Proof.
  unfold apply_to_all_m, apply_to_all, apply_to_container.
  rewrite container_plain. cbv beta iota. rewrite container_plain. cbv beta iota.
  destruct t as [ti|]; [rewrite container_plain|]; reflexivity.
Qed.

Lemma generation_hooks_all st g s t c o : generation_hooks st g s t c o = apply_to_all st g s t c (Some o).
Proof. unfold generation_hooks. destruct c; reflexivity. Qed.

Lemma generation_plain st g s t o cs : forall m,
  generation_m match_plain st m g s t o cs = (map (fun c => generation_hooks st g s t c o) cs, m).
Proof.
  induction cs as [|c cs IH]; intros m; cbn [generation_m map]; [reflexivity|].
  rewrite apply_to_all_plain. cbv beta iota. rewrite IH, generation_hooks_all. reflexivity.
Qed.

(* what the n-th evaluation applies, written without any memory *)
Fixpoint eval_pure (st : state) (evs : list qevent) : list (list (list (hk * N))) :=
  match evs with
  | [] => []
  | QOp o :: evs' => eval_pure (fst (step st o)) evs'
  | QEval s t o :: evs' => map (fun c => generation_hooks st 0 s t c o) all_targets :: eval_pure st evs'
  end.

Lemma eval_trace_plain evs : forall st m, eval_trace match_plain st m evs = eval_pure st evs.
Proof.
  induction evs as [|[o|s t o] evs IH]; intros st m; cbn [eval_trace eval_pure]; [reflexivity| |].
  - destruct (step st o) as [st' out]. cbn [fst]. apply IH.
  - rewrite generation_plain. cbv beta iota. rewrite IH. reflexivity.
Qed.

Lemma eval_pure_app pre : forall st rest,
  eval_pure st (pre ++ rest) = eval_pure st pre ++ eval_pure (fst (run_gen true st (qops_of pre))) rest.
Proof.
  induction pre as [|[o|s t o] pre IH]; intros st rest; cbn [app eval_pure qops_of].
  - reflexivity.
  - rewrite fst_run_cons. apply IH.
  - rewrite IH. reflexivity.
Qed.

Lemma eval_pure_length evs : forall st, length (eval_pure st evs) = count_evals evs.
Proof. induction evs as [|[o|s t o] evs IH]; intros st; cbn; auto. Qed.

(* C19_filter_evaluation_pure: whatever was evaluated before (operations of any schema, any number of times), whatever is
   in the memory and whatever comes after - the k-th evaluation applies what the registrations in force say for THAT
   operation *)
Lemma filter_evaluation_pure st m pre s t o post :
  nth (count_evals pre) (eval_trace match_plain st m (pre ++ QEval s t o :: post)) []
  = map (fun c => generation_hooks (fst (run_gen true st (qops_of pre))) 0 s t c o) all_targets.
Proof.
  rewrite eval_trace_plain, eval_pure_app, app_nth2; rewrite eval_pure_length; [|lia].
  rewrite Nat.sub_diag. reflexivity.
Qed.

(* two sequences with the same registrations before the evaluation give it the same result *)
Lemma filter_evaluation_order_independent st m1 m2 pre1 pre2 s t o post1 post2 :
  qops_of pre1 = qops_of pre2 ->
  nth (count_evals pre1) (eval_trace match_plain st m1 (pre1 ++ QEval s t o :: post1)) []
  = nth (count_evals pre2) (eval_trace match_plain st m2 (pre2 ++ QEval s t o :: post2)) [].
Proof. intros H. rewrite !filter_evaluation_pure, H. reflexivity. Qed.

Lemma evaluation_sequence_own_chain scopes closures m pre s t o post c k f :
  exists l, nth_error (nth (count_evals pre)
                           (eval_trace match_plain (init scopes closures) m (pre ++ QEval s t o :: post)) [])
                      (match c with TPath => 0 | TQuery => 1 | THeaders => 2 | TCookies => 3 | TBody => 4 | TCase => 5 end) = Some l
            /\ (In (k, f) l <->
                exists di, in_scope 0 s t di /\ In f (all_by_name (fst (run scopes closures (qops_of pre))) di (NGen k c)) /\
                           match own_chain (spec_run closures (qops_of pre)) f with Some fs => fset_match fs o = true | None => True end).
Proof.
  rewrite filter_evaluation_pure.
  exists (generation_hooks (fst (run scopes closures (qops_of pre))) 0 s t c o). split.
  - destruct c; reflexivity.
  - apply generation_hooks_full.
Qed.

(* ---------- auth ---------- *)
Lemma find_supplier_plain sets ps o : forall m,
  find_supplier_m match_plain sets m ps o = (find (fun p => provider_supplies sets p o) ps, m).
Proof.
  induction ps as [|p ps IH]; intros m; cbn [find_supplier_m find]; [reflexivity|].
  destruct p as [c|c w]; cbn [provider_supplies_m provider_supplies match_plain]; [reflexivity|].
  destruct (fset_match (hp sets w) o); [reflexivity | apply IH].
Qed.

Lemma storage_set_plain sets m ps o : storage_set_m match_plain sets m ps o = (storage_set sets ps o, m).
Proof.
  unfold storage_set_m, storage_set. destruct ps as [|p ps]; [reflexivity|].
  rewrite find_supplier_plain. destruct (find _ (p :: ps)); reflexivity.
Qed.

Lemma set_on_case_plain st m t s o : set_on_case_m match_plain st m t s o = (set_on_case st t s o, m).
Proof.
  unfold set_on_case_m, set_on_case.
  destruct (match t with Some t0 => lookup t0 (a_marks st) | None => None end); [apply storage_set_plain|].
  destruct (nth s (a_storages st) []); [|apply storage_set_plain].
  destruct (nth 0 (a_storages st) []); [reflexivity | apply storage_set_plain].
Qed.

Fixpoint auth_pure (st : astate) (evs : list aqevent) : list auth_result :=
  match evs with
  | [] => []
  | AQOp o :: evs' => auth_pure (fst (astep st o)) evs'
  | AQEval t s o :: evs' => set_on_case st t s o :: auth_pure st evs'
  end.

Lemma auth_trace_plain evs : forall st m, auth_trace match_plain st m evs = auth_pure st evs.
Proof.
  induction evs as [|[o|t s o] evs IH]; intros st m; cbn [auth_trace auth_pure]; [reflexivity| |].
  - destruct (astep st o) as [st' out]. cbn [fst]. apply IH.
  - rewrite set_on_case_plain. rewrite IH. reflexivity.
Qed.

Lemma fst_arun_cons st o ops : fst (arun_from st (o :: ops)) = fst (arun_from (fst (astep st o)) ops).
Proof.
  cbn [arun_from]. destruct (astep st o) as [st' out]. cbn [fst].
  destruct (arun_from st' ops) as [st'' outs]. reflexivity.
Qed.

Lemma auth_pure_app pre : forall st rest,
  auth_pure st (pre ++ rest) = auth_pure st pre ++ auth_pure (fst (arun_from st (aqops_of pre))) rest.
Proof.
  induction pre as [|[o|t s o] pre IH]; intros st rest; cbn [app auth_pure aqops_of].
  - reflexivity.
  - rewrite fst_arun_cons. apply IH.
  - rewrite IH. reflexivity.
Qed.

Lemma auth_pure_length evs : forall st, length (auth_pure st evs) = count_aevals evs.
Proof. induction evs as [|[o|t s o] evs IH]; intros st; cbn; auto. Qed.

Lemma auth_evaluation_pure st m pre t s o post :
  nth (count_aevals pre) (auth_trace match_plain st m (pre ++ AQEval t s o :: post)) AuthNone
  = set_on_case (fst (arun_from st (aqops_of pre))) t s o.
Proof.
  rewrite auth_trace_plain, auth_pure_app, app_nth2; rewrite auth_pure_length; [|lia].
  rewrite Nat.sub_diag. reflexivity.
Qed.

(* with C19_auth_first_matching: the provider that authenticates the k-th case is the first one of the storage in charge
   whose OWN chain selects that operation *)
Lemma auth_evaluation_first_matching n m pre o post ps :
  no_bad_index (snd (arun n (aqops_of pre))) = true -> ps <> [] ->
  forall t s, set_on_case (fst (arun n (aqops_of pre))) t s o = storage_set (a_sets (fst (arun n (aqops_of pre)))) ps o ->
  nth (count_aevals pre) (auth_trace match_plain (ainit n) m (pre ++ AQEval t s o :: post)) AuthNone
  = match find (fun p => match p with
                         | PPlain _ => true
                         | PSelective _ w => fset_match (chain_value (calls_on w (aqops_of pre))) o
                         end) ps with
    | Some p => AuthBy (provider_cls p)
    | None => AuthNone
    end.
Proof.
  intros Hok Hne t s Hin. rewrite auth_evaluation_pure. fold (arun n (aqops_of pre)). rewrite Hin.
  apply auth_first_matching; assumption.
Qed.

(* ---------- the sentinel: verdicts remembered per (filter set object, label) ---------- *)
Definition sADMIN : str := [97; 100; 109; 105; 110]%N.                  (* admin *)
Definition sPUBLIC : str := [112; 117; 98; 108; 105; 99]%N.             (* public *)
Definition sGET_USERS : str := [71; 69; 84; 32; 47; 117; 115; 101; 114; 115]%N.   (* GET /users *)
Definition sADMINLIST : str := [97; 100; 109; 105; 110; 76; 105; 115; 116]%N.     (* adminList *)
Definition sLIST : str := [108; 105; 115; 116]%N.                       (* list *)

Definition call_tag (v : str) : fcall :=
  {| c_func := None;
     c_crit := [(ALabel, None, None); (AMethod, None, None); (APath, None, None); (ATag, Some (EOne v), None); (AOpId, None, None)] |}.
Definition call_opid (v : str) : fcall :=
  {| c_func := None;
     c_crit := [(ALabel, None, None); (AMethod, None, None); (APath, None, None); (ATag, None, None); (AOpId, Some (EOne v), None)] |}.

(* GET /users of two schemas: the same label, other tags and operationId *)
Definition op_users_admin : oper :=
  {| o_idx := 0; o_label := sGET_USERS; o_method := [103; 101; 116]%N; o_path := sUSERS; o_tags := Some [sADMIN]; o_opid := Some sADMINLIST |}.
Definition op_users_public : oper :=
  {| o_idx := 1; o_label := sGET_USERS; o_method := [103; 101; 116]%N; o_path := sUSERS; o_tags := Some [sPUBLIC]; o_opid := Some sLIST |}.

(* a global hook for the operations tagged admin; dispatchers: global, schema A, schema B *)
Definition hist_admin_hook : list op := [OFilter 0 true (call_tag sADMIN); ORegFn 0 f_map_query].
Definition st_admin_hook : state := fst (run [Global; Schema; Schema] [0; 1; 2] hist_admin_hook).

Definition query_row (r : list (list (hk * N))) : list (hk * N) := nth 1 r [].

Lemma label_cache_witness :
  o_label op_users_admin = o_label op_users_public /\ o_tags op_users_admin <> o_tags op_users_public /\
  (* the code as it is: tagged operation only, in both orders *)
  map query_row (eval_trace match_plain st_admin_hook [] [QEval 1 None op_users_admin; QEval 2 None op_users_public])
    = [[(KMap, 21%N)]; []] /\
  map query_row (eval_trace match_plain st_admin_hook [] [QEval 2 None op_users_public; QEval 1 None op_users_admin])
    = [[]; [(KMap, 21%N)]] /\
  (* the sentinel: applied to the untagged one after the tagged one, skipped for the tagged one after the untagged one *)
  map query_row (eval_trace match_cached st_admin_hook [] [QEval 1 None op_users_admin; QEval 2 None op_users_public])
    = [[(KMap, 21%N)]; [(KMap, 21%N)]] /\
  map query_row (eval_trace match_cached st_admin_hook [] [QEval 2 None op_users_public; QEval 1 None op_users_admin])
    = [[]; []].
Proof. repeat split; try (vm_compute; reflexivity). vm_compute. discriminate. Qed.

Lemma label_cache_refuted_neq :
  nth 1 (eval_trace match_cached st_admin_hook [] [QEval 1 None op_users_admin; QEval 2 None op_users_public]) []
  <> nth 0 (eval_trace match_cached st_admin_hook [] [QEval 2 None op_users_public]) [].
Proof. vm_compute. discriminate. Qed.

(* auth: a global provider for operationId adminList; storages: global, schema A, schema B *)
Definition auth_admin_hist : list aop := [ARegister 0; AFilter 0 true (call_opid sADMINLIST); ACall 0 7%N].
Definition ast_admin : astate := fst (arun 3 auth_admin_hist).

Lemma auth_label_cache_witness :
  auth_trace match_plain ast_admin [] [AQEval None 1 op_users_admin; AQEval None 2 op_users_public] = [AuthBy 7; AuthNone] /\
  auth_trace match_plain ast_admin [] [AQEval None 2 op_users_public; AQEval None 1 op_users_admin] = [AuthNone; AuthBy 7] /\
  auth_trace match_cached ast_admin [] [AQEval None 1 op_users_admin; AQEval None 2 op_users_public] = [AuthBy 7; AuthBy 7] /\
  auth_trace match_cached ast_admin [] [AQEval None 2 op_users_public; AQEval None 1 op_users_admin] = [AuthNone; AuthNone].
Proof. vm_compute. repeat split; reflexivity. Qed.

Lemma auth_label_cache_refuted_neq :
  nth 1 (auth_trace match_cached ast_admin [] [AQEval None 1 op_users_admin; AQEval None 2 op_users_public]) AuthNone
  <> nth 0 (auth_trace match_cached ast_admin [] [AQEval None 2 op_users_public]) AuthNone.
Proof. vm_compute. discriminate. Qed.

(* non-vacuity of the evaluation theorems: registrations between the evaluations, a filter added later *)
Example eval_trace_example :
  map query_row (eval_trace match_plain (init [Global; Schema; Schema] [0; 1; 2]) []
    [QEval 1 None op_users_admin; QOp (OFilter 0 true (call_tag sADMIN)); QOp (ORegFn 0 f_map_query);
     QEval 2 None op_users_public; QEval 1 None op_users_admin; QEval 2 None op_users_public;
     QOp (OUnregister 0 21%N); QEval 1 None op_users_admin])
  = [[]; []; [(KMap, 21%N)]; []; []].
Proof. vm_compute. reflexivity. Qed.

(* ---------- the region of the sentinel: the label determines the operation among those evaluated ---------- *)
Lemma opt_strs_eqb_eq a b : opt_strs_eqb a b = true -> a = b.
Proof. destruct a, b; cbn; intros H; try discriminate; [f_equal; apply strs_eqb_eq; exact H | reflexivity]. Qed.

Lemma opt_str_eqb_eq a b : opt_str_eqb a b = true -> a = b.
Proof. destruct a, b; cbn; intros H; try discriminate; [f_equal; apply str_eqb_spec; exact H | reflexivity]. Qed.

Lemma oper_eqb_eq a b : oper_eqb a b = true -> a = b.
Proof.
  destruct a as [i1 l1 m1 p1 t1 d1], b as [i2 l2 m2 p2 t2 d2]. unfold oper_eqb. cbn [o_idx o_label o_method o_path o_tags o_opid].
  rewrite !andb_true_iff. intros [[[[[H1 H2] H3] H4] H5] H6].
  apply N.eqb_eq in H1. apply str_eqb_spec in H2. apply str_eqb_spec in H3. apply str_eqb_spec in H4.
  apply opt_strs_eqb_eq in H5. apply opt_str_eqb_eq in H6. subst. reflexivity.
Qed.

Lemma labels_determine_eq all a b :
  labels_determine all = true -> In a all -> In b all -> o_label a = o_label b -> a = b.
Proof.
  unfold labels_determine. intros H Ha Hb Hl.
  rewrite forallb_forall in H. specialize (H a Ha). rewrite forallb_forall in H. specialize (H b Hb).
  rewrite Hl, str_eqb_refl in H. cbn [implb] in H. apply oper_eqb_eq. exact H.
Qed.

(* every remembered verdict is the verdict of the only operation with that label *)
Definition Good (st : state) (all : list oper) (m : memo) : Prop :=
  forall c l v, memo_get c l m = Some v -> forall o, In o all -> o_label o = l -> v = fset_match (hp (heap st) c) o.

Lemma good_nil st all : Good st all [].
Proof. intros c l v H. discriminate. Qed.

Lemma cached_step st all m c o :
  labels_determine all = true -> Good st all m -> In o all ->
  exists m', match_cached m c (hp (heap st) c) o = (fset_match (hp (heap st) c) o, m') /\ Good st all m'.
Proof.
  intros Hall HG Ho. unfold match_cached. destruct (memo_get c (o_label o) m) as [v|] eqn:E.
  - exists m. split; [|exact HG]. rewrite (HG c (o_label o) v E o Ho eq_refl). reflexivity.
  - eexists. split; [reflexivity|].
    intros c' l v. cbn [memo_get]. destruct (Nat.eqb c' c && str_eqb l (o_label o)) eqn:Ek.
    + apply andb_true_iff in Ek. destruct Ek as [Ec El]. apply Nat.eqb_eq in Ec. apply str_eqb_spec in El. subst c' l.
      intros Hv o' Ho' Hl. inversion Hv; subst v.
      rewrite (labels_determine_eq all o' o Hall Ho' Ho Hl). reflexivity.
    + apply HG.
Qed.

Lemma should_skip_cached st all m f ctx :
  labels_determine all = true -> Good st all m -> (forall o, ctx = Some o -> In o all) ->
  exists m', should_skip_m match_cached st m f ctx = (should_skip st f ctx, m') /\ Good st all m'.
Proof.
  intros Hall HG Hc. unfold should_skip_m, should_skip, filter_of.
  destruct (lookup f (fattr st)) as [c|]; cbn [option_map]; [|exists m; split; [reflexivity | exact HG]].
  destruct ctx as [o|]; [|exists m; split; [reflexivity | exact HG]].
  destruct (cached_step st all m c o Hall HG (Hc o eq_refl)) as (m' & E & HG').
  exists m'. rewrite E. split; [reflexivity | exact HG'].
Qed.

Lemma fired_cached st all ctx fs :
  labels_determine all = true -> (forall o, ctx = Some o -> In o all) ->
  forall m, Good st all m -> exists m', fired_m match_cached st m ctx fs = (fired st ctx fs, m') /\ Good st all m'.
Proof.
  intros Hall Hc. induction fs as [|f fs IH]; intros m HG; cbn [fired_m].
  - exists m. split; [reflexivity | exact HG].
  - destruct (should_skip_cached st all m f ctx Hall HG Hc) as (m1 & E1 & HG1). rewrite E1.
    destruct (IH m1 HG1) as (m2 & E2 & HG2). rewrite E2. exists m2. split; [|exact HG2].
    unfold fired. cbn [filter]. destruct (should_skip st f ctx); cbn [negb]; reflexivity.
Qed.

Lemma container_cached st all di t ctx ks :
  labels_determine all = true -> (forall o, ctx = Some o -> In o all) ->
  forall m, Good st all m ->
  exists m', container_m match_cached st m di t ctx ks
             = (flat_map (fun k => map (fun f => (k, f)) (fired st ctx (all_by_name st di (NGen k t)))) ks, m') /\ Good st all m'.
Proof.
  intros Hall Hc. induction ks as [|k ks IH]; intros m HG; cbn [container_m flat_map].
  - exists m. split; [reflexivity | exact HG].
  - destruct (fired_cached st all ctx (all_by_name st di (NGen k t)) Hall Hc m HG) as (m1 & E1 & HG1). rewrite E1.
    destruct (IH m1 HG1) as (m2 & E2 & HG2). rewrite E2. exists m2. split; [reflexivity | exact HG2].
Qed.

Lemma apply_to_all_cached st all g s t c ctx :
  labels_determine all = true -> (forall o, ctx = Some o -> In o all) ->
  forall m, Good st all m ->
  exists m', apply_to_all_m match_cached st m g s t c ctx = (apply_to_all st g s t c ctx, m') /\ Good st all m'.
Proof.
  intros Hall Hc m HG. unfold apply_to_all_m, apply_to_all, apply_to_container.
  destruct (container_cached st all g c ctx kinds Hall Hc m HG) as (m1 & E1 & HG1). rewrite E1.
  destruct (container_cached st all s c ctx kinds Hall Hc m1 HG1) as (m2 & E2 & HG2). rewrite E2.
  destruct t as [ti|].
  - destruct (container_cached st all ti c ctx kinds Hall Hc m2 HG2) as (m3 & E3 & HG3). rewrite E3.
    exists m3. split; [reflexivity | exact HG3].
  - exists m2. split; [reflexivity | exact HG2].
Qed.

Lemma generation_cached st all g s t o cs :
  labels_determine all = true -> In o all ->
  forall m, Good st all m ->
  exists m', generation_m match_cached st m g s t o cs = (map (fun c => generation_hooks st g s t c o) cs, m') /\ Good st all m'.
Proof.
  intros Hall Ho. induction cs as [|c cs IH]; intros m HG; cbn [generation_m map].
  - exists m. split; [reflexivity | exact HG].
  - assert (Hc : forall o', Some o = Some o' -> In o' all) by (intros o' H; inversion H; subst; exact Ho).
    destruct (apply_to_all_cached st all g s t c (Some o) Hall Hc m HG) as (m1 & E1 & HG1). rewrite E1.
    destruct (IH m1 HG1) as (m2 & E2 & HG2). rewrite E2. exists m2. split; [|exact HG2].
    rewrite generation_hooks_all. reflexivity.
Qed.

Definition qevals (qs : list (nat * option nat * oper)) : list qevent := map (fun '(s, t, o) => QEval s t o) qs.

Lemma eval_cached_in_region st all qs :
  labels_determine all = true -> (forall q, In q qs -> In (snd q) all) ->
  forall m, Good st all m -> eval_trace match_cached st m (qevals qs) = eval_pure st (qevals qs).
Proof.
  intros Hall. induction qs as [|[[s t] o] qs IH]; intros Hin m HG; cbn [qevals map eval_trace eval_pure]; [reflexivity|].
  destruct (generation_cached st all 0 s t o all_targets Hall (Hin (s, t, o) (or_introl eq_refl)) m HG) as (m1 & E1 & HG1).
  rewrite E1. f_equal. apply IH; [|exact HG1]. intros q Hq. apply Hin. right. exact Hq.
Qed.

(* C19_label_cache_single_schema_partial: as long as no two DIFFERENT operations with one label are evaluated (every run
   over a single schema), the sentinel and the code cannot be told apart - for every state and every evaluation sequence *)
Lemma label_cache_single_schema st qs :
  labels_determine (map snd qs) = true ->
  eval_trace match_cached st [] (qevals qs) = eval_trace match_plain st [] (qevals qs).
Proof.
  intros Hall. rewrite eval_trace_plain.
  apply (eval_cached_in_region st (map snd qs) qs Hall); [|apply good_nil].
  intros q Hq. apply in_map. exact Hq.
Qed.

Example label_cache_region_example :
  labels_determine [op_users_admin; op_get; op_users_admin] = true /\ labels_determine [op_users_admin; op_users_public] = false.
Proof. vm_compute. split; reflexivity. Qed.
(* ====================================================================================== *)
(* Part G: several hooks under one name (seed C19_g)                                      *)
(* ====================================================================================== *)
Lemma of_kind_app k l1 l2 : of_kind k (l1 ++ l2) = of_kind k l1 ++ of_kind k l2.
Proof. unfold of_kind. rewrite filter_app, map_app. reflexivity. Qed.

Lemma of_kind_tagged k k' (l : list N) :
  of_kind k (map (fun f => (k', f)) l) = if hk_eqb k' k then l else [].
Proof.
  unfold of_kind. induction l as [|a l IH]; cbn [map filter fst].
  - destruct (hk_eqb k' k); reflexivity.
  - destruct (hk_eqb k' k) eqn:E; cbn [map snd]; rewrite IH; reflexivity.
Qed.

Lemma count_n_filter (p : N -> bool) f l :
  count_n f (filter p l) = if p f then count_n f l else 0.
Proof.
  unfold count_n. induction l as [|a l IH]; cbn [filter].
  - destruct (p f); reflexivity.
  - destruct (p a) eqn:Pa; cbn [filter]; destruct (N.eqb f a) eqn:E; cbn [length].
    + apply N.eqb_eq in E; subst a. rewrite Pa in *. rewrite IH. reflexivity.
    + exact IH.
    + apply N.eqb_eq in E; subst a. rewrite Pa in *. exact IH.
    + exact IH.
Qed.

(* the hooks of ONE name on one dispatcher: the case runs exactly the selected ones, in registration order *)
Lemma same_name_in_order st di k o :
  of_kind k (apply_case_hooks st di o)
  = filter (fun f => negb (should_skip st f (Some o))) (all_by_name st di (NGen k TCase)).
Proof.
  unfold apply_case_hooks, kinds, fired. cbn [flat_map].
  rewrite !of_kind_app, !of_kind_tagged. cbn [of_kind map filter].
  destruct k; cbn [hk_eqb]; rewrite ?app_nil_r; reflexivity.
Qed.

(* ... each selected one as often as it is registered under that name (once per registration), a filtered-out one never *)
Lemma same_name_each_once st di k o f :
  count_n f (of_kind k (apply_case_hooks st di o))
  = if should_skip st f (Some o) then 0 else count_n f (all_by_name st di (NGen k TCase)).
Proof.
  rewrite same_name_in_order, count_n_filter. destruct (should_skip st f (Some o)); reflexivity.
Qed.

(* over the three scopes: global, schema, test - nothing of one name is lost or repeated *)
Lemma same_name_all_scopes st g s t k o :
  of_kind k (as_strategy_case_hooks st g s t o)
  = fired st (Some o) (all_by_name st g (NGen k TCase)) ++ fired st (Some o) (all_by_name st s (NGen k TCase))
    ++ match t with Some ti => fired st (Some o) (all_by_name st ti (NGen k TCase)) | None => [] end.
Proof.
  unfold as_strategy_case_hooks. rewrite !of_kind_app, !same_name_in_order.
  destruct t; [rewrite same_name_in_order|]; reflexivity.
Qed.

(* the sentinel inside its region: with at most one hook per name there is no later hook to be confused with *)
Lemma late_one_hook st ctx k fs : length fs <= 1 -> callbacks_late st ctx k fs = bound_callbacks st ctx fs.
Proof.
  intros H. destruct k; [reflexivity| | |]; unfold callbacks_late, bound_callbacks_late, bound_callbacks, fired;
  (destruct fs as [|a [|b fs]]; [reflexivity | cbn [filter last]; destruct (negb (should_skip st a ctx)); reflexivity | cbn in H; lia]).
Qed.

Lemma late_binding_single_hook st di o :
  one_per_case_name st di = true -> apply_case_hooks_late st di o = apply_case_hooks st di o.
Proof.
  unfold one_per_case_name, kinds. cbn [forallb]. rewrite !andb_true_iff, !Nat.leb_le.
  intros (H1 & H2 & H3 & H4 & _).
  unfold apply_case_hooks_late, apply_case_hooks, kinds. cbn [flat_map].
  rewrite !late_one_hook by assumption. reflexivity.
Qed.

(* witness: two map_case hooks on the schema dispatcher, the first for GET, the second for POST *)
Definition f_map_case2 : hookfn := {| h_id := 7; h_name := NGen KMap TCase; h_arity := 2 |}.
Definition hist_same_name : list op :=
  [OFilter 1 true (call_method sGET); ORegFn 1 f_map_case; OFilter 1 true (call_method sPOST); ORegFn 1 f_map_case2].

Lemma late_binding_witness :
  let st := fst (run [Global; Schema] [0; 1] hist_same_name) in
  all_by_name st 1 (NGen KMap TCase) = [6%N; 7%N] /\
  should_skip st 6%N (Some op_get) = false /\ should_skip st 7%N (Some op_get) = true /\
  generation_hooks st 0 1 None TCase op_get = [(KMap, 6%N)] /\
  generation_hooks st 0 1 None TCase op_post = [(KMap, 7%N)] /\
  generation_hooks_late st 0 1 None TCase op_get = [(KMap, 7%N)] /\
  generation_hooks_late st 0 1 None TCase op_post = [(KMap, 7%N)].
Proof. vm_compute. repeat split; reflexivity. Qed.

Lemma late_binding_refuted :
  let st := fst (run [Global; Schema] [0; 1] hist_same_name) in
  should_skip st 7%N (Some op_get) = true /\
  count_n 7%N (of_kind KMap (apply_case_hooks_late st 1 op_get)) = 1 /\
  should_skip st 6%N (Some op_get) = false /\
  count_n 6%N (all_by_name st 1 (NGen KMap TCase)) = 1 /\
  count_n 6%N (of_kind KMap (apply_case_hooks_late st 1 op_get)) = 0.
Proof. vm_compute. repeat split; reflexivity. Qed.

(* three hooks of one name, all selected: the code runs each once, the sentinel runs the last one three times *)
Example same_name_three :
  let ops := [ORegFn 1 f_map_case; OFilter 1 true (call_method sGET); ORegFn 1 f_map_case2;
              ORegName 1 (NGen KMap TCase); ODecApply 0 f_map_query] in
  let st := fst (run [Global; Schema] [0; 1] ops) in
  of_kind KMap (apply_case_hooks st 1 op_get) = [6%N; 7%N; 21%N] /\
  of_kind KMap (apply_case_hooks_late st 1 op_get) = [21%N; 21%N; 21%N] /\
  of_kind KMap (apply_case_hooks st 1 op_post) = [6%N; 21%N] /\
  one_per_case_name st 1 = false /\ one_per_case_name st 0 = true.
Proof. vm_compute. repeat split; reflexivity. Qed.
