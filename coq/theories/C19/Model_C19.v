(* C19 model: hook and auth-provider registration with apply_to / skip_for filters.

   Follows, function by function,
     src/schemathesis/filters.py   Matcher, by_value, by_value_list, Filter.match, FilterSet.match,
                                   FilterSet._add_filter, attach_filter_chain
     src/schemathesis/hooks.py     to_filterable_hook (register / decorator / init_filter_set),
                                   validate_filterable_hook, HookDispatcher.register_hook_with_name,
                                   _validate_hook, get_all_by_name, apply_to_container, dispatch,
                                   unregister, unregister_all, _should_skip_hook, apply_to_all_dispatchers
     src/schemathesis/schemas.py   APIOperation.as_strategy._apply_hooks, BaseSchema.dispatch_hook
     src/schemathesis/auths.py     AuthStorage.register / apply / set_from_requests / _set_provider /
                                   unregister / set, SelectiveAuthProvider.get, set_on_case

   FilterSet objects are mutable and shared by reference in Python: they live in a heap (a list
   indexed by allocation number), closures and function attributes hold indices.
   Executable definitions only. *)
From Coq Require Import List NArith Bool Arith.
From Verif Require Import Common.Str.
Import ListNotations.

(* ====================================================================================== *)
(* filters.py                                                                             *)
(* ====================================================================================== *)
Inductive attr := ALabel | AMethod | APath | ATag | AOpId.

Definition attr_eqb (a b : attr) : bool :=
  match a, b with
  | ALabel, ALabel | AMethod, AMethod | APath, APath | ATag, ATag | AOpId, AOpId => true
  | _, _ => false
  end.

Fixpoint strs_eqb (a b : list str) : bool :=
  match a, b with
  | [], [] => true
  | x :: a', y :: b' => str_eqb x y && strs_eqb a' b'
  | _, _ => false
  end.

(* the expected value of a criterion: a string or a list of strings *)
Inductive expected := EOne (v : str) | EMany (vs : list str).

Definition expected_eqb (a b : expected) : bool :=
  match a, b with
  | EOne x, EOne y => str_eqb x y
  | EMany x, EMany y => strs_eqb x y
  | _, _ => false
  end.

(* A matcher the model cannot look into (a user function, a compiled regex): identified by
   q_id (the identity the real Matcher hashes: hash(func) / hash(label)), its truth table
   over the operations of the universe is q_table (indices o_idx of the matching ones). *)
Record opaque := { q_id : N; q_table : list N }.

(* Matcher.for_value / Matcher.for_function / Matcher.for_regex.  Matchers compare by _hash
   only: hash(label) for value matchers, label = attribute=repr(expected). *)
Inductive matcher := MVal (a : attr) (e : expected) | MOpaque (q : opaque).

Definition matcher_eqb (m1 m2 : matcher) : bool :=
  match m1, m2 with
  | MVal a e, MVal a' e' => attr_eqb a a' && expected_eqb e e'
  | MOpaque q, MOpaque q' => N.eqb (q_id q) (q_id q')
  | _, _ => false
  end.

Definition flt := list matcher.           (* Filter.matchers, a tuple *)

Fixpoint filter_eqb (f g : flt) : bool :=
  match f, g with
  | [], [] => true
  | x :: f', y :: g' => matcher_eqb x y && filter_eqb f' g'
  | _, _ => false
  end.

(* FilterSet: two Python sets; kept in insertion order here, every observation of them is
   order independent (the harness sorts) *)
Record fset := { incl : list flt; excl : list flt }.
Definition fs_empty : fset := {| incl := []; excl := [] |}.
Definition fs_is_empty (fs : fset) : bool :=
  match incl fs, excl fs with [], [] => true | _, _ => false end.

(* what a filter looks at in an APIOperation *)
Record oper := {
  o_idx : N;                       (* position in the universe of operations (for opaque matchers) *)
  o_label : str;
  o_method : str;                  (* as stored, any case *)
  o_path : str;
  o_tags : option (list str);      (* definition.raw.get(tags) *)
  o_opid : option str              (* definition.raw.get(operationId) *)
}.

Inductive aval := VNone | VStr (s : str) | VList (l : list str).

(* get_operation_attribute *)
Definition get_attr (o : oper) (a : attr) : aval :=
  match a with
  | ATag => match o_tags o with None => VNone | Some l => VList l end
  | AOpId => match o_opid o with None => VNone | Some s => VStr s end
  | AMethod => VStr (upper_ascii (o_method o))
  | ALabel => VStr (o_label o)
  | APath => VStr (o_path o)
  end.

Definition str_in (s : str) (l : list str) : bool := existsb (str_eqb s) l.

(* Matcher.match = by_value / by_value_list / the opaque function *)
Definition matcher_match (m : matcher) (o : oper) : bool :=
  match m with
  | MOpaque q => mem (o_idx o) (q_table q)
  | MVal a (EOne v) =>
      match get_attr o a with
      | VNone => false
      | VList l => existsb (fun e => str_eqb e v) l
      | VStr s => str_eqb s v
      end
  | MVal a (EMany vs) =>
      match get_attr o a with
      | VNone => false
      | VList l => existsb (fun e => str_in e vs) l
      | VStr s => str_in s vs
      end
  end.

(* Filter.match: all matchers *)
Definition filter_match (f : flt) (o : oper) : bool := forallb (fun m => matcher_match m o) f.

(* FilterSet.match *)
Definition fset_match (fs : fset) (o : oper) : bool :=
  if existsb (fun f => filter_match f o) (excl fs) then false
  else match incl fs with
       | [] => true
       | _ => existsb (fun f => filter_match f o) (incl fs)
       end.

(* the keyword arguments of one apply_to(...) / skip_for(...) call: the positional function and
   the five (expected, regex) pairs in the fixed order label, method, path, tag, operation_id *)
Record fcall := {
  c_func : option opaque;
  c_crit : list (attr * option expected * option opaque)
}.

(* _normalize_method *)
Definition normalize (a : attr) (e : expected) : expected :=
  match a with
  | AMethod => match e with EOne v => EOne (upper_ascii v) | EMany vs => EMany (map upper_ascii vs) end
  | _ => e
  end.

Definition opt_list {A} (x : option A) : list A := match x with Some a => [a] | None => [] end.

(* the loop of _add_filter; None = IncorrectUsage(expected value and regex together) *)
Fixpoint crit_matchers (cs : list (attr * option expected * option opaque)) : option (list matcher) :=
  match cs with
  | [] => Some []
  | (a, e, r) :: cs' =>
      match e, r with
      | Some _, Some _ => None
      | _, _ =>
          match crit_matchers cs' with
          | None => None
          | Some ms =>
              Some (opt_list (option_map (fun x => MVal a (normalize a x)) e)
                    ++ opt_list (option_map MOpaque r) ++ ms)
          end
      end
  end.

Definition filter_in (f : flt) (l : list flt) : bool := existsb (filter_eqb f) l.

(* FilterSet._add_filter; None = IncorrectUsage (both given / empty filter / filter exists) *)
Definition add_filter (include : bool) (c : fcall) (fs : fset) : option fset :=
  match crit_matchers (c_crit c) with
  | None => None
  | Some ms =>
      let f := opt_list (option_map MOpaque (c_func c)) ++ ms in
      match f with
      | [] => None
      | _ =>
          if filter_in f (incl fs) || filter_in f (excl fs) then None
          else if include then Some {| incl := incl fs ++ [f]; excl := excl fs |}
          else Some {| incl := incl fs; excl := excl fs ++ [f] |}
      end
  end.

(* ====================================================================================== *)
(* hooks.py: names, specs                                                                 *)
(* ====================================================================================== *)
Inductive scope := Global | Schema | Test.
Definition scope_eqb (a b : scope) : bool :=
  match a, b with Global, Global | Schema, Schema | Test, Test => true | _, _ => false end.

Inductive hk := KBeforeGenerate | KFilter | KMap | KFlatmap.
Inductive target := TPath | TQuery | THeaders | TCookies | TBody | TCase.

(* hook names: the strings of HookDispatcher._specs, any other string is NUnknown k *)
Inductive hname :=
  | NGen (k : hk) (t : target)
  | NBeforeProcessPath | NBeforeLoadSchema | NAfterLoadSchema
  | NBeforeAddExamples | NBeforeInitOperation | NBeforeCall | NAfterCall
  | NUnknown (k : N).

Definition hk_eqb (a b : hk) : bool :=
  match a, b with
  | KBeforeGenerate, KBeforeGenerate | KFilter, KFilter | KMap, KMap | KFlatmap, KFlatmap => true
  | _, _ => false
  end.
Definition target_eqb (a b : target) : bool :=
  match a, b with
  | TPath, TPath | TQuery, TQuery | THeaders, THeaders | TCookies, TCookies | TBody, TBody | TCase, TCase => true
  | _, _ => false
  end.
Definition hname_eqb (a b : hname) : bool :=
  match a, b with
  | NGen k t, NGen k' t' => hk_eqb k k' && target_eqb t t'
  | NBeforeProcessPath, NBeforeProcessPath | NBeforeLoadSchema, NBeforeLoadSchema
  | NAfterLoadSchema, NAfterLoadSchema | NBeforeAddExamples, NBeforeAddExamples
  | NBeforeInitOperation, NBeforeInitOperation | NBeforeCall, NBeforeCall | NAfterCall, NAfterCall => true
  | NUnknown x, NUnknown y => N.eqb x y
  | _, _ => false
  end.

(* validate_filterable_hook: these names take no filters *)
Definition nonfilterable (n : hname) : bool :=
  match n with NBeforeProcessPath | NBeforeLoadSchema | NAfterLoadSchema => true | _ => false end.

Definition all_scopes : list scope := [Global; Schema; Test].

(* HookDispatcher._specs: scopes and number of parameters of the spec signature
   (compared with the real table on every run) *)
Definition spec_of (n : hname) : option (list scope * nat) :=
  match n with
  | NGen _ _ => Some (all_scopes, 2)
  | NBeforeProcessPath => Some (all_scopes, 3)
  | NBeforeLoadSchema => Some ([Global], 2)
  | NAfterLoadSchema => Some ([Global], 2)
  | NBeforeAddExamples => Some (all_scopes, 2)
  | NBeforeInitOperation => Some (all_scopes, 2)
  | NBeforeCall => Some ([Global], 3)
  | NAfterCall => Some ([Global], 3)
  | NUnknown _ => None
  end.

(* a Python function object: identity, __name__ (as a hook name), number of parameters *)
Record hookfn := { h_id : N; h_name : hname; h_arity : nat }.

(* ====================================================================================== *)
(* state                                                                                  *)
(* ====================================================================================== *)
(* one closure produced by to_filterable_hook(dispatcher) *)
Record registrar := {
  r_disp : nat;        (* the dispatcher it registers on *)
  r_used : bool;       (* nonlocal filter_used *)
  r_cur : nat;         (* nonlocal filter_set (heap index) *)
  r_proxy : nat        (* the filter set register.apply_to / register.skip_for write to *)
}.

(* one decorator returned by register(name) *)
Record decorator := {
  d_reg : nat;         (* the closure it belongs to *)
  d_name : hname;
  d_fs : nat;          (* hook_filter_set: what decorator(func) assigns to func.filter_set *)
  d_proxy : nat        (* the filter set decorator.apply_to / decorator.skip_for write to *)
}.

Record dispatcher := {
  dp_scope : scope;
  dp_hooks : list (hname * list N)       (* _hooks: insertion ordered dict name -> list of function ids *)
}.

Record state := {
  heap : list fset;
  regs : list registrar;
  decs : list decorator;
  fattr : list (N * nat);                (* function id -> heap index of its filter_set attribute (latest first) *)
  disps : list dispatcher
}.

Inductive outcome :=
  | Done
  | RejectedFilter      (* ValueError of validate_filterable_hook *)
  | ValueError          (* ValueError of _validate_hook (wrong scope) *)
  | TypeError           (* TypeError of _validate_hook (unknown name, arity) *)
  | IncorrectUsage      (* filters.py *)
  | BadIndex.           (* the operation names an object that does not exist: outside the modelled histories *)

Fixpoint upd {A} (n : nat) (x : A) (l : list A) : list A :=
  match l, n with
  | [], _ => []
  | _ :: t, O => x :: t
  | h :: t, S n' => h :: upd n' x t
  end.

Definition hp (h : list fset) (i : nat) : fset := nth i h fs_empty.

Fixpoint lookup (f : N) (l : list (N * nat)) : option nat :=
  match l with
  | [] => None
  | (g, i) :: l' => if N.eqb f g then Some i else lookup f l'
  end.

(* ---------- dispatcher ---------- *)
Fixpoint hooks_get (n : hname) (l : list (hname * list N)) : list N :=
  match l with
  | [] => []
  | (m, hs) :: l' => if hname_eqb n m then hs else hooks_get n l'
  end.

(* self._hooks[name].append(hook) on a defaultdict(list) *)
Fixpoint hooks_append (n : hname) (f : N) (l : list (hname * list N)) : list (hname * list N) :=
  match l with
  | [] => [(n, [f])]
  | (m, hs) :: l' => if hname_eqb n m then (m, hs ++ [f]) :: l' else (m, hs) :: hooks_append n f l'
  end.

(* _validate_hook *)
Definition validate_hook (sc : scope) (n : hname) (f : hookfn) : outcome :=
  match spec_of n with
  | None => TypeError
  | Some (scopes, arity) =>
      if negb (existsb (scope_eqb sc) scopes) then ValueError
      else if negb (Nat.eqb (h_arity f) arity) then TypeError
      else Done
  end.

(* register_hook_with_name *)
Definition register_with_name (d : dispatcher) (f : hookfn) (n : hname) : outcome * dispatcher :=
  match validate_hook (dp_scope d) n f with
  | Done => (Done, {| dp_scope := dp_scope d; dp_hooks := hooks_append n (h_id f) (dp_hooks d) |})
  | e => (e, d)
  end.

Definition register_on (ds : list dispatcher) (di : nat) (f : hookfn) (n : hname) : outcome * list dispatcher :=
  match nth_error ds di with
  | None => (BadIndex, ds)
  | Some d => let '(o, d') := register_with_name d f n in (o, upd di d' ds)
  end.

(* unregister: hooks[:] = [item for item in hooks if item is not hook], for every name *)
Definition unregister_in (f : N) (d : dispatcher) : dispatcher :=
  {| dp_scope := dp_scope d;
     dp_hooks := map (fun '(n, hs) => (n, filter (fun g => negb (N.eqb g f)) hs)) (dp_hooks d) |}.

Definition unregister_all_in (d : dispatcher) : dispatcher := {| dp_scope := dp_scope d; dp_hooks := [] |}.

(* ---------- operations of a registration history ---------- *)
Inductive op :=
  | OFilter (r : nat) (include : bool) (c : fcall)     (* register.apply_to(..) / register.skip_for(..) *)
  | ORegFn (r : nat) (f : hookfn)                      (* register(function) *)
  | ORegName (r : nat) (n : hname)                     (* register(name): makes decorator number (length decs) *)
  | ODecFilter (d : nat) (include : bool) (c : fcall)  (* decorator.apply_to(..) / decorator.skip_for(..) *)
  | ODecApply (d : nat) (f : hookfn)                   (* decorator(function) *)
  | ODirect (di : nat) (f : hookfn) (n : hname)        (* dispatcher.register_hook_with_name (HookDispatcher.apply) *)
  | OUnregister (di : nat) (f : N)
  | OUnregisterAll (di : nat).

Definition set_reg (st : state) (i : nat) (r : registrar) : state :=
  {| heap := heap st; regs := upd i r (regs st); decs := decs st; fattr := fattr st; disps := disps st |}.

(* the include / exclude closures of init_filter_set: filter_used = True, THEN the filter set call *)
Definition do_filter (st : state) (ri : nat) (r : registrar) (target : nat) (include : bool) (c : fcall)
  : state * outcome :=
  let r' := {| r_disp := r_disp r; r_used := true; r_cur := r_cur r; r_proxy := r_proxy r |} in
  match add_filter include c (hp (heap st) target) with
  | None => (set_reg st ri r', IncorrectUsage)
  | Some fs' =>
      ({| heap := upd target fs' (heap st); regs := upd ri r' (regs st); decs := decs st;
          fattr := fattr st; disps := disps st |}, Done)
  end.

(* `fixed = true`: the code as it is now.  `fixed = false`: the code before commit
   -fix: give every registered hook its own filter set- (init_filter_set made a new FilterSet in a
   local variable, the nonlocal filter_set of the closure was never rebound). *)
Definition step_gen (fixed : bool) (st : state) (o : op) : state * outcome :=
  match o with
  | OFilter ri include c =>
      match nth_error (regs st) ri with
      | None => (st, BadIndex)
      | Some r => do_filter st ri r (r_proxy r) include c
      end
  | ORegFn ri f =>
      match nth_error (regs st) ri with
      | None => (st, BadIndex)
      | Some r =>
          if r_used r && nonfilterable (h_name f) then (st, RejectedFilter)
          else
            (* hook.filter_set = filter_set ; [filter_set =] init_filter_set(register) ; register_hook_with_name *)
            let fresh := length (heap st) in
            let r' := {| r_disp := r_disp r; r_used := false;
                         r_cur := if fixed then fresh else r_cur r; r_proxy := fresh |} in
            let '(out, ds') := register_on (disps st) (r_disp r) f (h_name f) in
            ({| heap := heap st ++ [fs_empty]; regs := upd ri r' (regs st); decs := decs st;
                fattr := (h_id f, r_cur r) :: fattr st; disps := ds' |}, out)
      end
  | ORegName ri n =>
      match nth_error (regs st) ri with
      | None => (st, BadIndex)
      | Some r =>
          if r_used r && nonfilterable n then (st, RejectedFilter)
          else
            let fresh := length (heap st) in
            if fixed then
              (* hook_filter_set = filter_set ; filter_set = init_filter_set(register) ;
                 init_filter_set(decorator, hook_filter_set) *)
              let r' := {| r_disp := r_disp r; r_used := false; r_cur := fresh; r_proxy := fresh |} in
              ({| heap := heap st ++ [fs_empty]; regs := upd ri r' (regs st);
                  decs := decs st ++ [{| d_reg := ri; d_name := n; d_fs := r_cur r; d_proxy := r_cur r |}];
                  fattr := fattr st; disps := disps st |}, Done)
            else
              (* init_filter_set(decorator): a new local FilterSet only the decorator proxies write to;
                 the decorator will assign the closure variable filter_set, which never changes *)
              let r' := {| r_disp := r_disp r; r_used := false; r_cur := r_cur r; r_proxy := r_proxy r |} in
              ({| heap := heap st ++ [fs_empty]; regs := upd ri r' (regs st);
                  decs := decs st ++ [{| d_reg := ri; d_name := n; d_fs := r_cur r; d_proxy := fresh |}];
                  fattr := fattr st; disps := disps st |}, Done)
      end
  | ODecFilter di include c =>
      match nth_error (decs st) di with
      | None => (st, BadIndex)
      | Some d =>
          match nth_error (regs st) (d_reg d) with
          | None => (st, BadIndex)
          | Some r => do_filter st (d_reg d) r (d_proxy d) include c
          end
      end
  | ODecApply di f =>
      match nth_error (decs st) di with
      | None => (st, BadIndex)
      | Some d =>
          match nth_error (regs st) (d_reg d) with
          | None => (st, BadIndex)
          | Some r =>
              if r_used r && nonfilterable (d_name d) then (st, RejectedFilter)
              else
                (* func.filter_set = hook_filter_set ; register_hook_with_name.  filter_used is NOT reset *)
                let '(out, ds') := register_on (disps st) (r_disp r) f (d_name d) in
                ({| heap := heap st; regs := regs st; decs := decs st;
                    fattr := (h_id f, d_fs d) :: fattr st; disps := ds' |}, out)
          end
      end
  | ODirect di f n =>
      let '(out, ds') := register_on (disps st) di f n in
      ({| heap := heap st; regs := regs st; decs := decs st; fattr := fattr st; disps := ds' |}, out)
  | OUnregister di f =>
      match nth_error (disps st) di with
      | None => (st, BadIndex)
      | Some d =>
          ({| heap := heap st; regs := regs st; decs := decs st; fattr := fattr st;
              disps := upd di (unregister_in f d) (disps st) |}, Done)
      end
  | OUnregisterAll di =>
      match nth_error (disps st) di with
      | None => (st, BadIndex)
      | Some d =>
          ({| heap := heap st; regs := regs st; decs := decs st; fattr := fattr st;
              disps := upd di (unregister_all_in d) (disps st) |}, Done)
      end
  end.

Definition step := step_gen true.
Definition register_prefix := step_gen false.      (* the behaviour before the fix, kept to recognise its return *)

Fixpoint run_gen (fixed : bool) (st : state) (ops : list op) : state * list outcome :=
  match ops with
  | [] => (st, [])
  | o :: ops' =>
      let '(st', out) := step_gen fixed st o in
      let '(st'', outs) := run_gen fixed st' ops' in
      (st'', out :: outs)
  end.

(* configuration: the dispatchers (by scope) and, for each closure, the dispatcher it was made for.
   to_filterable_hook ends with filter_set = init_filter_set(register): closure i owns heap cell i *)
Definition init (scopes : list scope) (closures : list nat) : state :=
  {| heap := map (fun _ => fs_empty) closures;
     regs := map (fun '(i, d) => {| r_disp := d; r_used := false; r_cur := i; r_proxy := i |})
                 (combine (seq 0 (length closures)) closures);
     decs := [];
     fattr := [];
     disps := map (fun s => {| dp_scope := s; dp_hooks := [] |}) scopes |}.

Definition run (scopes : list scope) (closures : list nat) (ops : list op) : state * list outcome :=
  run_gen true (init scopes closures) ops.
Definition run_prefix (scopes : list scope) (closures : list nat) (ops : list op) : state * list outcome :=
  run_gen false (init scopes closures) ops.

(* ---------- observations ---------- *)
(* getattr(hook, filter_set, None) *)
Definition filter_of (st : state) (f : N) : option fset :=
  option_map (hp (heap st)) (lookup f (fattr st)).

(* _should_skip_hook; ctx.operation may be None *)
Definition should_skip (st : state) (f : N) (ctx : option oper) : bool :=
  match filter_of st f, ctx with
  | Some fs, Some o => negb (fset_match fs o)
  | _, _ => false
  end.

(* get_all_by_name *)
Definition all_by_name (st : state) (di : nat) (n : hname) : list N :=
  match nth_error (disps st) di with None => [] | Some d => hooks_get n (dp_hooks d) end.

Definition fired (st : state) (ctx : option oper) (fs : list N) : list N :=
  filter (fun f => negb (should_skip st f ctx)) fs.

(* HookDispatcher.dispatch: the hooks called, in order *)
Definition dispatch (st : state) (di : nat) (n : hname) (ctx : option oper) : list N :=
  fired st ctx (all_by_name st di n).

Definition kinds : list hk := [KBeforeGenerate; KFilter; KMap; KFlatmap].

(* HookDispatcher.apply_to_container: the strategy transformations applied, in order *)
Definition apply_to_container (st : state) (di : nat) (t : target) (ctx : option oper) : list (hk * N) :=
  flat_map (fun k => map (fun f => (k, f)) (fired st ctx (all_by_name st di (NGen k t)))) kinds.

(* apply_to_all_dispatchers: global, then the schema dispatcher, then the test dispatcher if given *)
Definition apply_to_all (st : state) (g s : nat) (t : option nat) (c : target) (ctx : option oper) : list (hk * N) :=
  apply_to_container st g c ctx ++ apply_to_container st s c ctx
  ++ match t with Some ti => apply_to_container st ti c ctx | None => [] end.

(* APIOperation.as_strategy._apply_hooks: the case-level hooks; context = HookContext(self), every hook goes
   through _should_skip_hook (since commit 4324b099) *)
Definition apply_case_hooks (st : state) (di : nat) (o : oper) : list (hk * N) :=
  flat_map (fun k => map (fun f => (k, f)) (fired st (Some o) (all_by_name st di (NGen k TCase)))) kinds.

Definition as_strategy_case_hooks (st : state) (g s : nat) (t : option nat) (o : oper) : list (hk * N) :=
  apply_case_hooks st g o ++ apply_case_hooks st s o
  ++ match t with Some ti => apply_case_hooks st ti o | None => [] end.

(* the behaviour BEFORE commit 4324b099 (finding C19-F2): case-level hooks applied without looking at
   their filters.  Kept to recognise its return. *)
Definition apply_case_hooks_prefix (st : state) (di : nat) : list (hk * N) :=
  flat_map (fun k => map (fun f => (k, f)) (all_by_name st di (NGen k TCase))) kinds.

Definition as_strategy_case_hooks_prefix (st : state) (g s : nat) (t : option nat) : list (hk * N) :=
  apply_case_hooks_prefix st g ++ apply_case_hooks_prefix st s
  ++ match t with Some ti => apply_case_hooks_prefix st ti | None => [] end.

(* BaseSchema.dispatch_hook / builder.add_examples: global, schema, local *)
Definition dispatch_all (st : state) (g s : nat) (t : option nat) (n : hname) (ctx : option oper) : list N :=
  dispatch st g n ctx ++ dispatch st s n ctx
  ++ match t with Some ti => dispatch st ti n ctx | None => [] end.

(* ====================================================================================== *)
(* specification of hook filters: value semantics, no sharing                             *)
(* ====================================================================================== *)
(* Each closure has the filters chained on it since it last accepted a registration, as a VALUE;
   each decorator has its own value; a function either got a value (function form) or is tied to
   the decorator that registered it (named form: filters chained on the decorator belong to it). *)
Inductive own := OwnVal (fs : fset) | OwnDec (d : nat).

Record sreg := { s_used : bool; s_pending : fset }.
Record sdec := { sd_reg : nat; sd_name : hname; sd_val : fset }.
Record sstate := { s_regs : list sreg; s_decs : list sdec; s_attr : list (N * own) }.

Definition s_filter (include : bool) (c : fcall) (v : fset) : fset :=
  match add_filter include c v with Some v' => v' | None => v end.

Definition spec_step (ss : sstate) (o : op) : sstate :=
  match o with
  | OFilter ri include c =>
      match nth_error (s_regs ss) ri with
      | None => ss
      | Some r =>
          {| s_regs := upd ri {| s_used := true; s_pending := s_filter include c (s_pending r) |} (s_regs ss);
             s_decs := s_decs ss; s_attr := s_attr ss |}
      end
  | ORegFn ri f =>
      match nth_error (s_regs ss) ri with
      | None => ss
      | Some r =>
          if s_used r && nonfilterable (h_name f) then ss
          else {| s_regs := upd ri {| s_used := false; s_pending := fs_empty |} (s_regs ss);
                  s_decs := s_decs ss;
                  s_attr := (h_id f, OwnVal (s_pending r)) :: s_attr ss |}
      end
  | ORegName ri n =>
      match nth_error (s_regs ss) ri with
      | None => ss
      | Some r =>
          if s_used r && nonfilterable n then ss
          else {| s_regs := upd ri {| s_used := false; s_pending := fs_empty |} (s_regs ss);
                  s_decs := s_decs ss ++ [{| sd_reg := ri; sd_name := n; sd_val := s_pending r |}];
                  s_attr := s_attr ss |}
      end
  | ODecFilter di include c =>
      match nth_error (s_decs ss) di with
      | None => ss
      | Some d =>
          match nth_error (s_regs ss) (sd_reg d) with
          | None => ss
          | Some r =>
              {| s_regs := upd (sd_reg d) {| s_used := true; s_pending := s_pending r |} (s_regs ss);
                 s_decs := upd di {| sd_reg := sd_reg d; sd_name := sd_name d;
                                     sd_val := s_filter include c (sd_val d) |} (s_decs ss);
                 s_attr := s_attr ss |}
          end
      end
  | ODecApply di f =>
      match nth_error (s_decs ss) di with
      | None => ss
      | Some d =>
          match nth_error (s_regs ss) (sd_reg d) with
          | None => ss
          | Some r =>
              if s_used r && nonfilterable (sd_name d) then ss
              else {| s_regs := s_regs ss; s_decs := s_decs ss; s_attr := (h_id f, OwnDec di) :: s_attr ss |}
          end
      end
  | ODirect _ _ _ | OUnregister _ _ | OUnregisterAll _ => ss
  end.

Definition spec_init (closures : list nat) : sstate :=
  {| s_regs := map (fun _ => {| s_used := false; s_pending := fs_empty |}) closures; s_decs := []; s_attr := [] |}.

Definition spec_run (closures : list nat) (ops : list op) : sstate := fold_left spec_step ops (spec_init closures).

Fixpoint slookup (f : N) (l : list (N * own)) : option own :=
  match l with
  | [] => None
  | (g, o) :: l' => if N.eqb f g then Some o else slookup f l'
  end.

(* the filters of the (last) registration expression of function f *)
Definition own_chain (ss : sstate) (f : N) : option fset :=
  match slookup f (s_attr ss) with
  | None => None
  | Some (OwnVal v) => Some v
  | Some (OwnDec d) => Some (match nth_error (s_decs ss) d with Some sd => sd_val sd | None => fs_empty end)
  end.

(* ---------- region predicates (executable) ---------- *)
(* F3/F4: no registration was refused by validate_filterable_hook *)
Definition no_rejection (outs : list outcome) : bool :=
  forallb (fun o => match o with RejectedFilter => false | _ => true end) outs.

Definition is_case_target (t : target) : bool := match t with TCase => true | _ => false end.

(* ====================================================================================== *)
(* auths.py                                                                               *)
(* ====================================================================================== *)
(* Every call of register() / apply(cls) / set_from_requests(auth) makes one FilterSet captured by
   the wrapper it returns: wrapper number w owns filter set number w. *)
Inductive wkind :=
  | WRegister (storage : nat)              (* AuthStorage.register() on that storage *)
  | WApply (cls : N)                       (* AuthStorage.apply(cls): decorates a test *)
  | WRequests (storage : nat).             (* set_from_requests: provider already appended *)

Inductive provider :=
  | PPlain (cls : N)                       (* caching wrapper around the instance: always supplies data *)
  | PSelective (cls : N) (w : nat).        (* SelectiveAuthProvider(provider, filter set of wrapper w) *)

Record astate := {
  a_sets : list fset;                      (* filter set of wrapper i *)
  a_wrappers : list wkind;
  a_storages : list (list provider);       (* AuthStorage.providers; test storages are appended *)
  a_marks : list (N * nat)                 (* AuthStorageMark: test id -> storage index *)
}.

Inductive aop :=
  | ARegister (s : nat)
  | AApply (cls : N)
  | AFromRequests (s : nat) (cls : N)
  | AFilter (w : nat) (include : bool) (c : fcall)     (* wrapper.apply_to / wrapper.skip_for *)
  | ACall (w : nat) (arg : N)                           (* wrapper(provider class) / wrapper(test) *)
  | AUnregister (s : nat).

Definition a_new_wrapper (st : astate) (k : wkind) (stor : list (list provider)) : astate :=
  {| a_sets := a_sets st ++ [fs_empty]; a_wrappers := a_wrappers st ++ [k]; a_storages := stor; a_marks := a_marks st |}.

(* _set_provider (provider class assumed valid) *)
Definition set_provider (sets : list fset) (w : nat) (cls : N) : provider :=
  if fs_is_empty (hp sets w) then PPlain cls else PSelective cls w.

Definition astep (st : astate) (o : aop) : astate * outcome :=
  match o with
  | ARegister s =>
      match nth_error (a_storages st) s with
      | None => (st, BadIndex)
      | Some _ => (a_new_wrapper st (WRegister s) (a_storages st), Done)
      end
  | AApply cls => (a_new_wrapper st (WApply cls) (a_storages st), Done)
  | AFromRequests s cls =>
      match nth_error (a_storages st) s with
      | None => (st, BadIndex)
      | Some ps =>
          let w := length (a_wrappers st) in
          (a_new_wrapper st (WRequests s) (upd s (ps ++ [PSelective cls w]) (a_storages st)), Done)
      end
  | AFilter w include c =>
      match nth_error (a_wrappers st) w with
      | None => (st, BadIndex)
      | Some _ =>
          match add_filter include c (hp (a_sets st) w) with
          | None => (st, IncorrectUsage)
          | Some fs' => ({| a_sets := upd w fs' (a_sets st); a_wrappers := a_wrappers st;
                            a_storages := a_storages st; a_marks := a_marks st |}, Done)
          end
      end
  | ACall w arg =>
      match nth_error (a_wrappers st) w with
      | None => (st, BadIndex)
      | Some (WRegister s) =>
          match nth_error (a_storages st) s with
          | None => (st, BadIndex)
          | Some ps =>
              ({| a_sets := a_sets st; a_wrappers := a_wrappers st;
                  a_storages := upd s (ps ++ [set_provider (a_sets st) w arg]) (a_storages st);
                  a_marks := a_marks st |}, Done)
          end
      | Some (WApply cls) =>
          match lookup arg (a_marks st) with
          | Some _ => (st, IncorrectUsage)            (* already decorated with apply *)
          | None =>
              ({| a_sets := a_sets st; a_wrappers := a_wrappers st;
                  a_storages := a_storages st ++ [[set_provider (a_sets st) w cls]];
                  a_marks := (arg, length (a_storages st)) :: a_marks st |}, Done)
          end
      | Some (WRequests _) => (st, TypeError)         (* the returned class takes no arguments *)
      end
  | AUnregister s =>
      match nth_error (a_storages st) s with
      | None => (st, BadIndex)
      | Some _ => ({| a_sets := a_sets st; a_wrappers := a_wrappers st;
                      a_storages := upd s [] (a_storages st); a_marks := a_marks st |}, Done)
      end
  end.

Fixpoint arun_from (st : astate) (ops : list aop) : astate * list outcome :=
  match ops with
  | [] => (st, [])
  | o :: ops' =>
      let '(st', out) := astep st o in
      let '(st'', outs) := arun_from st' ops' in
      (st'', out :: outs)
  end.

(* storage 0 = GLOBAL_AUTH_STORAGE, storage 1 = schema.auth *)
Definition ainit (n : nat) : astate :=
  {| a_sets := []; a_wrappers := []; a_storages := repeat [] n; a_marks := [] |}.
Definition arun (n : nat) (ops : list aop) : astate * list outcome := arun_from (ainit n) ops.

(* SelectiveAuthProvider.get / a plain provider: does it supply data for this operation *)
Definition provider_supplies (sets : list fset) (p : provider) (o : oper) : bool :=
  match p with
  | PPlain _ => true
  | PSelective _ w => fset_match (hp sets w) o
  end.
Definition provider_cls (p : provider) : N := match p with PPlain c | PSelective c _ => c end.

Inductive auth_result := AuthBy (cls : N) | AuthNone | AuthRaises.

(* AuthStorage.set: the first provider that supplies data *)
Definition storage_set (sets : list fset) (ps : list provider) (o : oper) : auth_result :=
  match ps with
  | [] => AuthRaises                                  (* IncorrectUsage: no auth provider is defined *)
  | _ => match find (fun p => provider_supplies sets p o) ps with
         | Some p => AuthBy (provider_cls p)
         | None => AuthNone
         end
  end.

(* set_on_case: the test storage if there is one, else schema.auth if defined, else the global one if defined *)
Definition set_on_case (st : astate) (test : option N) (schema_storage : nat) (o : oper) : auth_result :=
  let stor i := nth i (a_storages st) [] in
  match match test with Some t => lookup t (a_marks st) | None => None end with
  | Some ti => storage_set (a_sets st) (stor ti) o
  | None =>
      match stor schema_storage with
      | _ :: _ => storage_set (a_sets st) (stor schema_storage) o
      | [] => match stor 0%nat with
              | _ :: _ => storage_set (a_sets st) (stor 0%nat) o
              | [] => AuthNone
              end
      end
  end.

(* the filter calls written on wrapper w in a history, in order *)
Fixpoint calls_on (w : nat) (ops : list aop) : list (bool * fcall) :=
  match ops with
  | [] => []
  | AFilter w' i c :: ops' => if Nat.eqb w w' then (i, c) :: calls_on w ops' else calls_on w ops'
  | _ :: ops' => calls_on w ops'
  end.

(* adding them one by one to an empty filter set; a refused call (IncorrectUsage) adds nothing *)
Definition chain_value (cs : list (bool * fcall)) : fset :=
  fold_left (fun v '(i, c) => s_filter i c v) cs fs_empty.

(* ====================================================================================== *)
(* one observation of everything the correspondence compares (harness/props/c19.py)       *)
(* ====================================================================================== *)
Definition param_targets : list target := [TPath; TQuery; THeaders; TCookies; TBody].
Definition dispatch_names : list hname := [NBeforeAddExamples; NBeforeInitOperation; NBeforeProcessPath].

Definition observe (fixed : bool) (scopes : list scope) (closures : list nat) (ops : list op)
                   (fns : list N) (univ : list oper) (t : option nat) :=
  let '(st, outs) := run_gen fixed (init scopes closures) ops in
  let ctxs := None :: map Some univ in
  (outs,
   map dp_hooks (disps st),
   map (filter_of st) fns,
   map (fun ctx => map (fun di => map (fun tg => apply_to_container st di tg ctx) param_targets)
                       (seq 0 (length scopes))) ctxs,
   map (fun ctx => map (fun tg => apply_to_all st 0 1 t tg ctx) param_targets) ctxs,
   map (fun ctx => map (fun n => dispatch_all st 0 1 t n ctx) dispatch_names) ctxs,
   map (fun o => as_strategy_case_hooks st 0 1 t o) univ,
   map (own_chain (spec_run closures ops)) fns,
   as_strategy_case_hooks_prefix st 0 1 t).

Definition aobserve (n : nat) (ops : list aop) (univ : list oper) (tests : list (option N)) :=
  let '(st, outs) := arun n ops in
  (outs,
   map (map (fun p => match p with
                      | PPlain c => (c, None)
                      | PSelective c w => (c, Some (hp (a_sets st) w))
                      end)) (a_storages st),
   map (fun o => map (fun t => set_on_case st t 1 o) tests) univ).

(* the hooks data generation applies for one container of one operation: parameter containers go through
   apply_to_all_dispatchers, the case level through APIOperation.as_strategy._apply_hooks *)
Definition generation_hooks (st : state) (g s : nat) (t : option nat) (c : target) (o : oper) : list (hk * N) :=
  if is_case_target c then as_strategy_case_hooks st g s t o else apply_to_all st g s t c (Some o).

(* ... and before commit 4324b099 *)
Definition generation_hooks_prefix (st : state) (g s : nat) (t : option nat) (c : target) (o : oper) : list (hk * N) :=
  if is_case_target c then as_strategy_case_hooks_prefix st g s t else apply_to_all st g s t c (Some o).

(* region predicate: the closure has nothing pending (no filter chained, flag clear) *)
Definition closure_clean (ss : sstate) (ri : nat) : bool :=
  match nth_error (s_regs ss) ri with
  | Some r => negb (s_used r) && fs_is_empty (s_pending r)
  | None => false
  end.

(* typing condition of a history: every operation names objects that exist *)
Definition no_bad_index (outs : list outcome) : bool :=
  forallb (fun o => match o with BadIndex => false | _ => true end) outs.

(* ====================================================================================== *)
(* histories in which data generation is interleaved with (un)registration                *)
(* ====================================================================================== *)
(* EGenerate o = operation.as_strategy(hooks = test dispatcher) is built and drawn from.  In the code nothing
   about hooks is remembered between two generations: apply_hooks / apply_to_all_dispatchers / _apply_hooks read
   the dispatchers anew on every draw.  So a generation leaves the state alone and sees the state of that moment. *)
Inductive event := EOp (o : op) | EGenerate (o : oper).

Definition all_targets : list target := [TPath; TQuery; THeaders; TCookies; TBody; TCase].

(* for every EGenerate of the history, in order: the hooks applied, per target *)
Fixpoint gen_trace (st : state) (g s : nat) (t : option nat) (evs : list event) : list (list (list (hk * N))) :=
  match evs with
  | [] => []
  | EOp o :: evs' => gen_trace (fst (step st o)) g s t evs'
  | EGenerate o :: evs' => map (fun c => generation_hooks st g s t c o) all_targets :: gen_trace st g s t evs'
  end.

(* the registration operations of a history, generations erased *)
Fixpoint ops_of (evs : list event) : list op :=
  match evs with
  | [] => []
  | EOp o :: evs' => o :: ops_of evs'
  | EGenerate _ :: evs' => ops_of evs'
  end.

Fixpoint count_generates (evs : list event) : nat :=
  match evs with
  | [] => 0
  | EOp _ :: evs' => count_generates evs'
  | EGenerate _ :: evs' => S (count_generates evs')
  end.

(* ====================================================================================== *)
(* per-REGISTRATION specification: the ledger                                             *)
(* ====================================================================================== *)
(* own_chain speaks of a FUNCTION (the filters of its last registration expression).  The property speaks of
   REGISTRATIONS: one function object may be registered several times (other dispatcher, other name, again after
   an unregistration), each time with the filters written in THAT expression, or with none.  The ledger is the
   specification-side bookkeeping: one entry per accepted registration, in registration order, carrying the chain
   of its own expression as a value (function form), the decorator it came through (named form) or nothing
   (HookDispatcher.apply / register_hook_with_name: no filter expression at all); unregister(f) on a dispatcher
   removes the entries of f on that dispatcher, unregister_all all entries of that dispatcher.
   It is computed from the specification state only (value semantics, no heap, no function attributes). *)
Record entry := { e_disp : nat; e_name : hname; e_fn : N; e_own : option own }.

(* _validate_hook accepts (scopes = the scope of every dispatcher) *)
Definition accepted (scopes : list scope) (di : nat) (n : hname) (f : hookfn) : bool :=
  match nth_error scopes di with
  | Some sc => match validate_hook sc n f with Done => true | _ => false end
  | None => false
  end.

Definition entry_on (di : nat) (n : hname) (e : entry) : bool := Nat.eqb di (e_disp e) && hname_eqb n (e_name e).

Definition ledger_add (scopes : list scope) (lg : list entry) (di : nat) (n : hname) (f : hookfn) (w : option own) : list entry :=
  if accepted scopes di n f then lg ++ [{| e_disp := di; e_name := n; e_fn := h_id f; e_own := w |}] else lg.

(* ss = the specification state BEFORE the operation; closures = the dispatcher each closure registers on *)
Definition ledger_step (scopes : list scope) (closures : list nat) (ss : sstate) (lg : list entry) (o : op) : list entry :=
  match o with
  | ORegFn ri f =>
      match nth_error (s_regs ss) ri, nth_error closures ri with
      | Some r, Some di =>
          if s_used r && nonfilterable (h_name f) then lg
          else ledger_add scopes lg di (h_name f) f (Some (OwnVal (s_pending r)))
      | _, _ => lg
      end
  | ODecApply d f =>
      match nth_error (s_decs ss) d with
      | None => lg
      | Some sd =>
          match nth_error (s_regs ss) (sd_reg sd), nth_error closures (sd_reg sd) with
          | Some r, Some di =>
              if s_used r && nonfilterable (sd_name sd) then lg
              else ledger_add scopes lg di (sd_name sd) f (Some (OwnDec d))
          | _, _ => lg
          end
      end
  | ODirect di f n => ledger_add scopes lg di n f None
  | OUnregister di f => filter (fun e => negb (Nat.eqb di (e_disp e) && N.eqb (e_fn e) f)) lg
  | OUnregisterAll di => filter (fun e => negb (Nat.eqb di (e_disp e))) lg
  | OFilter _ _ _ | ORegName _ _ | ODecFilter _ _ _ => lg
  end.

Fixpoint ledger_from (scopes : list scope) (closures : list nat) (ss : sstate) (lg : list entry) (ops : list op)
  : sstate * list entry :=
  match ops with
  | [] => (ss, lg)
  | o :: ops' => ledger_from scopes closures (spec_step ss o) (ledger_step scopes closures ss lg o) ops'
  end.

Definition ledger (scopes : list scope) (closures : list nat) (ops : list op) : list entry :=
  snd (ledger_from scopes closures (spec_init closures) [] ops).

Definition opt_fs (x : option fset) : fset := match x with Some v => v | None => fs_empty end.

(* the chain written in the registration expression of this entry *)
Definition entry_chain (ss : sstate) (e : entry) : option fset :=
  match e_own e with
  | None => None
  | Some (OwnVal v) => Some v
  | Some (OwnDec d) => Some (match nth_error (s_decs ss) d with Some sd => sd_val sd | None => fs_empty end)
  end.

(* THE PROPERTY, per registration: it applies to exactly the operations its own chain selects; no chain or an
   empty chain = everywhere; a context without operation is never filtered *)
Definition entry_selects (ss : sstate) (e : entry) (ctx : option oper) : bool :=
  match ctx with Some o => fset_match (opt_fs (entry_chain ss e)) o | None => true end.

Definition spec_dispatch (ss : sstate) (lg : list entry) (di : nat) (n : hname) (ctx : option oper) : list N :=
  map e_fn (filter (fun e => entry_on di n e && entry_selects ss e ctx) lg).

Definition spec_apply_to_container (ss : sstate) (lg : list entry) (di : nat) (t : target) (ctx : option oper) : list (hk * N) :=
  flat_map (fun k => map (fun f => (k, f)) (spec_dispatch ss lg di (NGen k t) ctx)) kinds.

(* ---------- region predicate of finding F5 ---------- *)
(* strict (Leibniz-reflecting) equality of filter sets: opaque matchers by identity AND table *)
Definition opaque_beq (p q : opaque) : bool := N.eqb (q_id p) (q_id q) && str_eqb (q_table p) (q_table q).
Definition matcher_beq (m1 m2 : matcher) : bool :=
  match m1, m2 with
  | MVal a e, MVal a' e' => attr_eqb a a' && expected_eqb e e'
  | MOpaque q, MOpaque q' => opaque_beq q q'
  | _, _ => false
  end.
Fixpoint list_beq {A} (eq : A -> A -> bool) (a b : list A) : bool :=
  match a, b with
  | [], [] => true
  | x :: a', y :: b' => eq x y && list_beq eq a' b'
  | _, _ => false
  end.
Definition flt_beq : flt -> flt -> bool := list_beq matcher_beq.
Definition fset_beq (a b : fset) : bool := list_beq flt_beq (incl a) (incl b) && list_beq flt_beq (excl a) (excl b).

(* the filter_set attribute lives on the function object: a registration behaves as its own chain says as long as
   the chain of the LAST filter-carrying registration expression of its function is the same chain (it is that
   expression, or the function was registered again with identical filters, or - for an entry without expression -
   the function never went through a filterable form or did so with no filters) *)
Definition entry_current (ss : sstate) (e : entry) : bool :=
  fset_beq (opt_fs (entry_chain ss e)) (opt_fs (own_chain ss (e_fn e))).

(* what the correspondence stage reuse_histories compares: per operation, dispatcher and target the transformations the
   code applies (model of the code) and the ones the per-registration specification demands; the ledger with the region flag *)
Definition ledger_observe (scopes : list scope) (closures : list nat) (ops : list op) (univ : list oper) :=
  let st := fst (run scopes closures ops) in
  let ss := spec_run closures ops in
  let lg := ledger scopes closures ops in
  (map (fun o => map (fun di => map (fun tg => (apply_to_container st di tg (Some o),
                                                 spec_apply_to_container ss lg di tg (Some o))) all_targets)
                     (seq 0 (length scopes))) univ,
   map (fun e => (e_disp e, e_name e, e_fn e, entry_current ss e)) lg).

(* ====================================================================================== *)
(* evaluation sequences: one filter set object asked about the operations of SEVERAL schemas *)
(* ====================================================================================== *)
(* A label (METHOD path) identifies an operation inside ONE schema only.  The filter set of a global hook or of a
   global auth provider is asked about the operations of every loaded schema, in whatever order the tests run, again
   and again.  FilterSet.match (filters.py:157) reads the operation it is given and nothing else: it keeps no state
   between two calls.  To be able to SAY that, evaluation is written as a state machine over an explicit memory
   (memo: filter set object, label -> verdict) and a matcher implementation that may read and write it:
     match_plain    the code as it is: computes from the operation, never touches the memory
     match_cached   regression sentinel (seed C19_d): the verdict is remembered per (filter set object, operation label) *)
Definition memo := list (nat * str * bool).
Definition matchfn := memo -> nat -> fset -> oper -> bool * memo.

Definition match_plain : matchfn := fun m _ fs o => (fset_match fs o, m).

Fixpoint memo_get (c : nat) (l : str) (m : memo) : option bool :=
  match m with
  | [] => None
  | (c', l', v) :: m' => if Nat.eqb c c' && str_eqb l l' then Some v else memo_get c l m'
  end.

Definition match_cached : matchfn := fun m c fs o =>
  match memo_get c (o_label o) m with
  | Some v => (v, m)
  | None => let v := fset_match fs o in (v, (c, o_label o, v) :: m)
  end.

(* the sentinel clears the memory of a filter set at the end of _add_filter *)
Definition memo_drop (c : nat) (m : memo) : memo := filter (fun e => negb (Nat.eqb c (fst (fst e)))) m.

(* _should_skip_hook through a matcher implementation; the key of the memory is the heap cell of the filter set *)
Definition should_skip_m (mm : matchfn) (st : state) (m : memo) (f : N) (ctx : option oper) : bool * memo :=
  match lookup f (fattr st), ctx with
  | Some c, Some o => let '(v, m') := mm m c (hp (heap st) c) o in (negb v, m')
  | _, _ => (false, m)
  end.

(* one loop `for hook in get_all_by_name(..): if _should_skip_hook(..): continue`, hooks asked in order *)
Fixpoint fired_m (mm : matchfn) (st : state) (m : memo) (ctx : option oper) (fs : list N) : list N * memo :=
  match fs with
  | [] => ([], m)
  | f :: fs' =>
      let '(sk, m1) := should_skip_m mm st m f ctx in
      let '(r, m2) := fired_m mm st m1 ctx fs' in
      (if sk then r else f :: r, m2)
  end.

(* HookDispatcher.apply_to_container: the four loops *)
Fixpoint container_m (mm : matchfn) (st : state) (m : memo) (di : nat) (t : target) (ctx : option oper) (ks : list hk)
  : list (hk * N) * memo :=
  match ks with
  | [] => ([], m)
  | k :: ks' =>
      let '(r1, m1) := fired_m mm st m ctx (all_by_name st di (NGen k t)) in
      let '(r2, m2) := container_m mm st m1 di t ctx ks' in
      (map (fun f => (k, f)) r1 ++ r2, m2)
  end.

(* apply_to_all_dispatchers / as_strategy._apply_hooks: global, schema, test *)
Definition apply_to_all_m (mm : matchfn) (st : state) (m : memo) (g s : nat) (t : option nat) (c : target) (ctx : option oper)
  : list (hk * N) * memo :=
  let '(r1, m1) := container_m mm st m g c ctx kinds in
  let '(r2, m2) := container_m mm st m1 s c ctx kinds in
  match t with
  | Some ti => let '(r3, m3) := container_m mm st m2 ti c ctx kinds in (r1 ++ r2 ++ r3, m3)
  | None => (r1 ++ r2 ++ [], m2)
  end.

(* one generation for operation o: every target in turn *)
Fixpoint generation_m (mm : matchfn) (st : state) (m : memo) (g s : nat) (t : option nat) (o : oper) (cs : list target)
  : list (list (hk * N)) * memo :=
  match cs with
  | [] => ([], m)
  | c :: cs' =>
      let '(r, m1) := apply_to_all_m mm st m g s t c (Some o) in
      let '(rs, m2) := generation_m mm st m1 g s t o cs' in
      (r :: rs, m2)
  end.

(* QEval s t o: operation o, which belongs to the schema whose dispatcher is number s, is generated (test dispatcher t);
   the global dispatcher is number 0.  Operations of different schemas may carry the same label. *)
Inductive qevent := QOp (o : op) | QEval (s : nat) (t : option nat) (o : oper).

Definition memo_after_op (st : state) (o : op) (out : outcome) (m : memo) : memo :=
  match out, o with
  | Done, OFilter ri _ _ => match nth_error (regs st) ri with Some r => memo_drop (r_proxy r) m | None => m end
  | Done, ODecFilter di _ _ => match nth_error (decs st) di with Some d => memo_drop (d_proxy d) m | None => m end
  | _, _ => m
  end.

(* for every QEval of the sequence, in order: the hooks applied, per target *)
Fixpoint eval_trace (mm : matchfn) (st : state) (m : memo) (evs : list qevent) : list (list (list (hk * N))) :=
  match evs with
  | [] => []
  | QOp o :: evs' => let '(st', out) := step st o in eval_trace mm st' (memo_after_op st o out m) evs'
  | QEval s t o :: evs' =>
      let '(r, m') := generation_m mm st m 0 s t o all_targets in
      r :: eval_trace mm st m' evs'
  end.

Fixpoint qops_of (evs : list qevent) : list op :=
  match evs with
  | [] => []
  | QOp o :: evs' => o :: qops_of evs'
  | QEval _ _ _ :: evs' => qops_of evs'
  end.

Fixpoint count_evals (evs : list qevent) : nat :=
  match evs with
  | [] => 0
  | QOp _ :: evs' => count_evals evs'
  | QEval _ _ _ :: evs' => S (count_evals evs')
  end.

(* ---------- the same for auth providers (the key of the memory is the wrapper number) ---------- *)
(* SelectiveAuthProvider.get *)
Definition provider_supplies_m (mm : matchfn) (sets : list fset) (m : memo) (p : provider) (o : oper) : bool * memo :=
  match p with
  | PPlain _ => (true, m)
  | PSelective _ w => mm m w (hp sets w) o
  end.

(* AuthStorage.set: the providers are asked in order until one supplies data *)
Fixpoint find_supplier_m (mm : matchfn) (sets : list fset) (m : memo) (ps : list provider) (o : oper) : option provider * memo :=
  match ps with
  | [] => (None, m)
  | p :: ps' =>
      let '(v, m1) := provider_supplies_m mm sets m p o in
      if v then (Some p, m1) else find_supplier_m mm sets m1 ps' o
  end.

Definition storage_set_m (mm : matchfn) (sets : list fset) (m : memo) (ps : list provider) (o : oper) : auth_result * memo :=
  match ps with
  | [] => (AuthRaises, m)
  | _ => let '(r, m') := find_supplier_m mm sets m ps o in
         (match r with Some p => AuthBy (provider_cls p) | None => AuthNone end, m')
  end.

Definition set_on_case_m (mm : matchfn) (st : astate) (m : memo) (test : option N) (schema_storage : nat) (o : oper)
  : auth_result * memo :=
  let stor i := nth i (a_storages st) [] in
  match match test with Some t => lookup t (a_marks st) | None => None end with
  | Some ti => storage_set_m mm (a_sets st) m (stor ti) o
  | None =>
      match stor schema_storage with
      | _ :: _ => storage_set_m mm (a_sets st) m (stor schema_storage) o
      | [] => match stor 0%nat with
              | _ :: _ => storage_set_m mm (a_sets st) m (stor 0%nat) o
              | [] => (AuthNone, m)
              end
      end
  end.

(* AQEval test s o: auth is set on a case of operation o, which belongs to the schema whose storage is number s *)
Inductive aqevent := AQOp (o : aop) | AQEval (test : option N) (schema_storage : nat) (o : oper).

Definition amemo_after_op (o : aop) (out : outcome) (m : memo) : memo :=
  match out, o with
  | Done, AFilter w _ _ => memo_drop w m
  | _, _ => m
  end.

Fixpoint auth_trace (mm : matchfn) (st : astate) (m : memo) (evs : list aqevent) : list auth_result :=
  match evs with
  | [] => []
  | AQOp o :: evs' => let '(st', out) := astep st o in auth_trace mm st' (amemo_after_op o out m) evs'
  | AQEval t s o :: evs' => let '(r, m') := set_on_case_m mm st m t s o in r :: auth_trace mm st m' evs'
  end.

Fixpoint aqops_of (evs : list aqevent) : list aop :=
  match evs with
  | [] => []
  | AQOp o :: evs' => o :: aqops_of evs'
  | AQEval _ _ _ :: evs' => aqops_of evs'
  end.

Fixpoint count_aevals (evs : list aqevent) : nat :=
  match evs with
  | [] => 0
  | AQOp _ :: evs' => count_aevals evs'
  | AQEval _ _ _ :: evs' => S (count_aevals evs')
  end.

(* ---------- region of the sentinel: inside it the label-keyed memory cannot be told from the code ---------- *)
Definition opt_strs_eqb (a b : option (list str)) : bool :=
  match a, b with Some x, Some y => strs_eqb x y | None, None => true | _, _ => false end.
Definition opt_str_eqb (a b : option str) : bool :=
  match a, b with Some x, Some y => str_eqb x y | None, None => true | _, _ => false end.
Definition oper_eqb (a b : oper) : bool :=
  N.eqb (o_idx a) (o_idx b) && str_eqb (o_label a) (o_label b) && str_eqb (o_method a) (o_method b)
  && str_eqb (o_path a) (o_path b) && opt_strs_eqb (o_tags a) (o_tags b) && opt_str_eqb (o_opid a) (o_opid b).

(* the label determines the operation among those evaluated (what holds when every operation comes from one schema) *)
Definition labels_determine (os : list oper) : bool :=
  forallb (fun a => forallb (fun b => implb (str_eqb (o_label a) (o_label b)) (oper_eqb a b)) os) os.

Definition eval_opers (evs : list qevent) : list oper :=
  flat_map (fun e => match e with QEval _ _ o => [o] | QOp _ => [] end) evs.

(* what the stage multi_schema_evaluation compares: the code as it is and the sentinel *)
Definition eval_observe (scopes : list scope) (closures : list nat) (evs : list qevent) :=
  (eval_trace match_plain (init scopes closures) [] evs, eval_trace match_cached (init scopes closures) [] evs).

Definition auth_eval_observe (n : nat) (evs : list aqevent) :=
  (auth_trace match_plain (ainit n) [] evs, auth_trace match_cached (ainit n) [] evs).

(* ====================================================================================== *)
(* several hooks under ONE name on one dispatcher: callbacks are built in one loop and     *)
(* called later (Hypothesis calls .filter/.map/.flatmap callbacks at draw time)             *)
(* ====================================================================================== *)
(* One `for hook in get_all_by_name(name)` loop of _apply_hooks / apply_to_container builds one callback per hook that
   _should_skip_hook lets through.  A callback is written as the hook function it RUNS when it is called at draw time.
   The code binds the hook when the callback is built (functools.partial(hook, context)): callback i runs hook i. *)
Definition bound_callbacks (st : state) (ctx : option oper) (fs : list N) : list N := fired st ctx fs.

(* sentinel (seed C19_g): the callbacks are closures over the LOOP VARIABLE of a generator that is exhausted before the
   first draw: every callback built for this name runs the LAST hook of the list - filtered out or not *)
Definition bound_callbacks_late (st : state) (ctx : option oper) (fs : list N) : list N :=
  map (fun _ => last fs 0%N) (fired st ctx fs).

(* before_generate hooks are called while the strategy is built, the other three kinds at draw time *)
Definition callbacks_late (st : state) (ctx : option oper) (k : hk) (fs : list N) : list N :=
  match k with KBeforeGenerate => bound_callbacks st ctx fs | _ => bound_callbacks_late st ctx fs end.

Definition apply_case_hooks_late (st : state) (di : nat) (o : oper) : list (hk * N) :=
  flat_map (fun k => map (fun f => (k, f)) (callbacks_late st (Some o) k (all_by_name st di (NGen k TCase)))) kinds.

Definition as_strategy_case_hooks_late (st : state) (g s : nat) (t : option nat) (o : oper) : list (hk * N) :=
  apply_case_hooks_late st g o ++ apply_case_hooks_late st s o
  ++ match t with Some ti => apply_case_hooks_late st ti o | None => [] end.

Definition generation_hooks_late (st : state) (g s : nat) (t : option nat) (c : target) (o : oper) : list (hk * N) :=
  if is_case_target c then as_strategy_case_hooks_late st g s t o else apply_to_all st g s t c (Some o).

Fixpoint gen_trace_late (st : state) (g s : nat) (t : option nat) (evs : list event) : list (list (list (hk * N))) :=
  match evs with
  | [] => []
  | EOp o :: evs' => gen_trace_late (fst (step st o)) g s t evs'
  | EGenerate o :: evs' => map (fun c => generation_hooks_late st g s t c o) all_targets :: gen_trace_late st g s t evs'
  end.

(* the hook functions one generated case runs under kind k, in order / how often f is among them *)
Definition of_kind (k : hk) (l : list (hk * N)) : list N :=
  map snd (filter (fun p => hk_eqb (fst p) k) l).
Definition count_n (f : N) (l : list N) : nat := length (filter (N.eqb f) l).

(* region in which the sentinel cannot be told from the code: at most one hook per case-level name on the dispatcher *)
Definition one_per_case_name (st : state) (di : nat) : bool :=
  forallb (fun k => Nat.leb (length (all_by_name st di (NGen k TCase))) 1) kinds.

(* what the harness evaluates (stage same_name_case_hooks) *)
Definition same_name_observe (scopes : list scope) (closures : list nat) (t : option nat) (evs : list event) :=
  (gen_trace (init scopes closures) 0 1 t evs, gen_trace_late (init scopes closures) 0 1 t evs).
