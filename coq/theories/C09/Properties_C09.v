(* C09 property theorems only.  Each is closed by [exact] of a lemma of
   Proofs_C09 and followed by Print Assumptions. *)
From Coq Require Import List NArith Bool.
From Verif Require Import Common.Str C09.Model_C09 C09.Proofs_C09.
Import ListNotations.

(* shlex.quote followed by POSIX word splitting is the identity on every
   string without NUL: no splitting, no expansion, whatever the characters *)
Theorem C09_quote_roundtrip : forall s, no_nul s = true -> sh_words (quote s) = Some [s].
Proof. exact quote_roundtrip. Qed.
Print Assumptions C09_quote_roundtrip.

(* the whole command line produced by curl.generate splits into exactly the
   intended argument vector *)
Theorem C09_command_words : forall known r,
  safe_word (method r) = true -> req_no_nul known r = true ->
  sh_words (generate known r) = Some (argv_of known r).
Proof. exact command_words. Qed.
Print Assumptions C09_command_words.

(* the block printed in a failure report (four spaces in front of the first line only) still splits into exactly
   the intended argument vector, also for payloads with line breaks; indenting every line would not *)
Theorem C09_report_block_words : forall known r,
  safe_word (method r) = true -> req_no_nul known r = true ->
  sh_words (report_block known r) = Some (argv_of known r).
Proof. exact report_block_words. Qed.
Print Assumptions C09_report_block_words.

Theorem C09_report_block_indent_all_refuted : exists known r,
  sh_words (report_block_indent_all known r) <> Some (argv_of known r) /\
  sh_words (report_block known r) = Some (argv_of known r).
Proof. exists [], r_multiline. exact report_block_indent_all_refuted. Qed.
Print Assumptions C09_report_block_indent_all_refuted.

(* curl, given that argument vector, re-sends the visible part of the request *)
Theorem C09_reproduces_partial : forall known r,
  header_names_ok known r = true -> header_values_ok known r = true ->
  body_not_at r = true -> url_not_option r = true ->
  curl_sem (argv_of known r) = CurlSends (visible known r).
Proof. exact reproduces. Qed.
Print Assumptions C09_reproduces_partial.

(* regression sentinel: the rule before the repair (every header printed as Name: value) loses a header with
   an empty value, the present rule (Name;) re-sends it *)
Theorem C09_prefix_rule_refuted_empty_header : exists known r,
  curl_sem (argv_of_prefix known r) <> CurlSends (visible known r) /\
  curl_sem (argv_of known r) = CurlSends (visible known r).
Proof. exists [], r_empty_header. exact prefix_rule_refuted_empty_header. Qed.
Print Assumptions C09_prefix_rule_refuted_empty_header.

(* ... and the unrestricted statement is false of the code as it is *)
Theorem C09_reproduces_refuted_blank_header : exists known r,
  header_names_ok known r = true /\ body_not_at r = true /\ url_not_option r = true /\
  curl_sem (argv_of known r) <> CurlSends (visible known r).
Proof. exists [], r_blank_header. repeat split; try reflexivity. exact reproduces_refuted_blank_header. Qed.
Print Assumptions C09_reproduces_refuted_blank_header.

Theorem C09_reproduces_refuted_at_body : exists known r,
  header_names_ok known r = true /\ header_values_ok known r = true /\
  curl_sem (argv_of known r) <> CurlSends (visible known r).
Proof. exists [], r_at_body. repeat split; try reflexivity. exact reproduces_refuted_at_body. Qed.
Print Assumptions C09_reproduces_refuted_at_body.

Theorem C09_hypotheses_satisfiable : exists r,
  safe_word (method r) = true /\ req_no_nul [] r = true /\ header_names_ok [] r = true /\
  header_values_ok [] r = true /\ body_not_at r = true /\ url_not_option r = true /\
  length (argv_of [] r) = 11%nat.
Proof. exists r_ok. exact r_ok_hyps. Qed.
Print Assumptions C09_hypotheses_satisfiable.
