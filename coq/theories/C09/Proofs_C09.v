From Coq Require Import List NArith Bool Lia.
From Verif Require Import Common.Str C09.Model_C09.
Import ListNotations.
Open Scope N_scope.

Definition cur_or_nil (cur : option str) : str := match cur with Some w => w | None => [] end.

Lemma safe_char_props c : safe_char c = true ->
  N.eqb c 0 = false /\ N.eqb c SP = false /\ N.eqb c SQ = false /\ N.eqb c DQ = false.
Proof.
  unfold safe_char, is_alnum, is_upper, is_lower, is_digit, mem, SP, SQ, DQ; cbn [existsb].
  intros H. repeat split; apply N.eqb_neq; intros ->; vm_compute in H; discriminate.
Qed.

Lemma lex_safe w : forall rest cur acc, forallb safe_char w = true ->
  lex (w ++ rest) Bare cur acc = lex rest Bare
    (match w with [] => cur | _ => Some (rev w ++ cur_or_nil cur) end) acc.
Proof.
  induction w as [|c w IH]; intros rest cur acc H; [reflexivity|].
  cbn [forallb] in H; apply andb_true_iff in H; destruct H as [Hc Hw].
  destruct (safe_char_props c Hc) as (H0 & H1 & H2 & H3).
  cbn [app lex]. rewrite H0, H1, H2, H3, Hc. rewrite IH by exact Hw.
  destruct w as [|d w].
  - destruct cur; reflexivity.
  - f_equal. destruct cur as [u|]; cbn [add cur_or_nil rev]; rewrite <- ?app_assoc; reflexivity.
Qed.

Lemma lex_sq_body s : forall rest w acc, no_nul s = true ->
  lex (replace_char SQ [SQ; DQ; SQ; DQ; SQ] s ++ SQ :: rest) InSq (Some w) acc
  = lex rest Bare (Some (rev s ++ w)) acc.
Proof.
  induction s as [|c s IH]; intros rest w acc Hn.
  - cbn. reflexivity.
  - cbn [no_nul forallb] in Hn; apply andb_true_iff in Hn; destruct Hn as [Hc Hn].
    apply negb_true_iff in Hc.
    unfold replace_char in *. cbn [flat_map].
    destruct (N.eqb c SQ) eqn:E.
    + apply N.eqb_eq in E; subst c.
      cbn [app lex]. cbn. fold (flat_map (fun x : N => if N.eqb x SQ then [SQ; DQ; SQ; DQ; SQ] else [x]) s).
      rewrite IH by exact Hn. cbn [rev]. rewrite <- app_assoc. reflexivity.
    + cbn [app lex]. rewrite Hc, E. cbn [add]. rewrite IH by exact Hn.
      cbn [rev]. rewrite <- app_assoc. reflexivity.
Qed.

Lemma lex_quote s : forall rest cur acc, no_nul s = true ->
  lex (quote s ++ rest) Bare cur acc = lex rest Bare (Some (rev s ++ cur_or_nil cur)) acc.
Proof.
  intros rest cur acc Hn. unfold quote.
  destruct s as [|c s].
  - cbn. destruct cur; reflexivity.
  - destruct (forallb safe_char (c :: s)) eqn:E.
    + rewrite lex_safe by exact E. reflexivity.
    + cbn [app lex]. change (N.eqb SQ 0) with false. change (N.eqb SQ SP) with false.
      change (N.eqb SQ SQ) with true. cbv iota.
      rewrite <- app_assoc. cbn [app].
      replace (touch cur) with (Some (cur_or_nil cur)) by (destruct cur; reflexivity).
      apply lex_sq_body. exact Hn.
Qed.

(* every word prefixed by one space *)
Definition pre (ws : list str) : str := flat_map (fun w => SP :: quote w) ws.

Lemma pre_app a b : pre (a ++ b) = pre a ++ pre b.
Proof. unfold pre; apply flat_map_app. Qed.

Lemma lex_words ws : forall w acc, forallb no_nul (w :: ws) = true ->
  lex (quote w ++ pre ws) Bare None acc = Some (rev acc ++ w :: ws).
Proof.
  induction ws as [|w' ws IH]; intros w acc H.
  - cbn [pre flat_map]. cbn [forallb] in H. rewrite andb_true_r in H.
    rewrite lex_quote by exact H. cbn [lex cur_or_nil push]. rewrite app_nil_r, rev_involutive.
    cbn [rev]. reflexivity.
  - cbn [forallb] in H. apply andb_true_iff in H; destruct H as [Hw H].
    cbn [pre flat_map]. fold (pre ws). rewrite lex_quote by exact Hw.
    cbn [cur_or_nil]. rewrite app_nil_r. cbn [app lex].
    change (N.eqb SP 0) with false. change (N.eqb SP SP) with true. cbv iota.
    cbn [push]. rewrite rev_involutive. rewrite IH by exact H.
    cbn [rev]. rewrite <- app_assoc. reflexivity.
Qed.

Lemma quote_roundtrip s : no_nul s = true -> sh_words (quote s) = Some [s].
Proof.
  intros H. unfold sh_words. rewrite <- (app_nil_r (quote s)).
  change [] with (pre []) at 1. rewrite lex_words; [reflexivity|]. cbn; rewrite H; reflexivity.
Qed.

Lemma quote_safe w : safe_word w = true -> quote w = w.
Proof. unfold safe_word, quote. destruct w; [discriminate|]. intros ->. reflexivity. Qed.

Lemma safe_no_nul w : forallb safe_char w = true -> no_nul w = true.
Proof.
  unfold no_nul. intros H. apply forallb_forall. intros c Hc.
  rewrite forallb_forall in H. destruct (safe_char_props c (H c Hc)) as [H0 _]. rewrite H0; reflexivity.
Qed.

Definition W_curl : str := [99;117;114;108].
Definition W_X : str := [45;88].
Definition W_H : str := [45;72].
Definition W_d : str := [45;100].
Definition W_insecure : str := [45;45;105;110;115;101;99;117;114;101].

Lemma generate_as_words known r : safe_word (method r) = true ->
  generate known r = quote W_curl ++ pre (tl (argv_of known r)).
Proof.
  intros Hm. unfold generate, argv_of. cbn [tl app].
  change ([[45;88]; method r] ++ ?x) with (W_X :: method r :: x).
  cbn [app]. unfold pre at 1. cbn [flat_map]. fold (pre).
  rewrite (quote_safe (method r) Hm).
  change (quote W_curl) with W_curl. change (quote [45;88]) with W_X.
  unfold W_curl, W_X. cbn [app]. do 8 f_equal.
  f_equal. fold (pre (flat_map (fun kv => [[45; 72]; header_line kv]) (filter_headers known (headers r)) ++
     body_words (body r) ++ (if verify r then [] else [[45; 45; 105; 110; 115; 101; 99; 117; 114; 101]]) ++ [url r])).
  rewrite !pre_app. f_equal; [|f_equal; [|f_equal]].
  - induction (filter_headers known (headers r)) as [|kv l IH]; [reflexivity|].
    cbn [flat_map app]. rewrite IH. unfold pre. cbn [flat_map app].
    change (quote [45;72]) with [45;72]. cbn [app]. reflexivity.
  - unfold body_words. destruct (body r) as [[|c b]|]; try reflexivity.
    unfold pre. cbn [flat_map]. change (quote [45;100]) with [45;100]. cbn [app]. rewrite app_nil_r. reflexivity.
  - destruct (verify r); reflexivity.
  - unfold pre. cbn [flat_map]. rewrite app_nil_r. reflexivity.
Qed.

Lemma argv_no_nul known r : safe_word (method r) = true -> req_no_nul known r = true ->
  forallb no_nul (argv_of known r) = true.
Proof.
  intros Hm H. unfold req_no_nul in H. apply andb_true_iff in H; destruct H as [H Hb].
  apply andb_true_iff in H; destruct H as [Hu Hh].
  unfold argv_of. rewrite !forallb_app. cbn [forallb].
  assert (Hm' : no_nul (method r) = true).
  { unfold safe_word in Hm. destruct (method r); [discriminate|]. apply safe_no_nul; exact Hm. }
  rewrite Hm', Hu. change (no_nul [99;117;114;108]) with true. change (no_nul [45;88]) with true.
  cbn [andb]. rewrite !andb_true_r. repeat (apply andb_true_iff; split).
  - induction (filter_headers known (headers r)) as [|kv l IH]; [reflexivity|].
    cbn [forallb] in Hh. apply andb_true_iff in Hh; destruct Hh as [Hkv Hl].
    apply andb_true_iff in Hkv; destruct Hkv as [Hk Hv].
    cbn [flat_map app forallb]. rewrite IH by exact Hl. rewrite andb_true_r.
    change (no_nul [45;72]) with true. cbn [andb].
    unfold header_line, no_nul in *. destruct (snd kv) as [|c0 v0] eqn:Esnd.
    + rewrite forallb_app, Hk. reflexivity.
    + rewrite !forallb_app, Hk, Hv. reflexivity.
  - unfold body_words. destruct (body r) as [[|c b]|]; try reflexivity.
    cbn [forallb]. rewrite Hb. reflexivity.
  - destruct (verify r); reflexivity.
Qed.

Lemma command_words known r : safe_word (method r) = true -> req_no_nul known r = true ->
  sh_words (generate known r) = Some (argv_of known r).
Proof.
  intros Hm Hn. rewrite generate_as_words by exact Hm. unfold sh_words.
  pose proof (argv_no_nul known r Hm Hn) as H.
  unfold argv_of in *. cbn [app tl] in *.
  rewrite lex_words; [reflexivity|]. exact H.
Qed.

(* ---- curl semantics ---- *)
Lemma split_colon_app k : forall v acc, no_colon k = true ->
  split_colon (k ++ 58 :: v) acc = Some (rev acc ++ k, v).
Proof.
  induction k as [|c k IH]; intros v acc H.
  - cbn. rewrite app_nil_r. reflexivity.
  - cbn [no_colon forallb] in H. apply andb_true_iff in H; destruct H as [Hc Hk].
    apply negb_true_iff in Hc. cbn [app split_colon]. rewrite Hc.
    rewrite IH by exact Hk. cbn [rev]. rewrite <- app_assoc. reflexivity.
Qed.

Lemma split_colon_none k : forall acc, no_colon k = true -> split_colon (k ++ [59]) acc = None.
Proof.
  induction k as [|c k IH]; intros acc H.
  - reflexivity.
  - cbn [no_colon forallb] in H. apply andb_true_iff in H; destruct H as [Hc Hk].
    apply negb_true_iff in Hc. cbn [app split_colon]. rewrite Hc. apply IH. exact Hk.
Qed.

Lemma split_semicolon_app k : forall v acc, no_semicolon k = true ->
  split_semicolon (k ++ 59 :: v) acc = Some (rev acc ++ k, v).
Proof.
  induction k as [|c k IH]; intros v acc H.
  - cbn. rewrite app_nil_r. reflexivity.
  - cbn [no_semicolon forallb] in H. apply andb_true_iff in H; destruct H as [Hc Hk].
    apply negb_true_iff in Hc. cbn [app split_semicolon]. rewrite Hc.
    rewrite IH by exact Hk. cbn [rev]. rewrite <- app_assoc. reflexivity.
Qed.

Lemma curl_header_line kv : header_name_ok kv = true -> header_value_nonblank kv = true ->
  curl_header (header_line kv) = Some (fst kv, strip_left [32;9;10;11;12;13] (snd kv)).
Proof.
  unfold header_name_ok, header_value_nonblank, curl_header, header_line.
  destruct kv as [k v]; cbn [fst snd]. intros Hk Hv.
  destruct k as [|c k]; [discriminate|].
  apply andb_true_iff in Hk; destruct Hk as [Hk Hs].
  destruct v as [|c0 v0].
  - rewrite (split_colon_none (c :: k) []) by exact Hk.
    rewrite (split_semicolon_app (c :: k) [] []) by exact Hs. reflexivity.
  - change ((c :: k) ++ [58; SP] ++ c0 :: v0) with ((c :: k) ++ 58 :: SP :: c0 :: v0).
    rewrite (split_colon_app (c :: k) (SP :: c0 :: v0) []) by exact Hk.
    cbn [rev app].
    change (strip_left [32; 9; 10; 11; 12; 13] (SP :: c0 :: v0)) with (strip_left [32; 9; 10; 11; 12; 13] (c0 :: v0)).
    destruct (strip_left [32; 9; 10; 11; 12; 13] (c0 :: v0)); [discriminate|reflexivity].
Qed.

Lemma curl_opts_headers hs : forall rest m acc b u,
  forallb header_name_ok hs = true -> forallb header_value_nonblank hs = true ->
  curl_opts (flat_map (fun kv => [[45;72]; header_line kv]) hs ++ rest) m acc b u
  = curl_opts rest m
      (rev (map (fun kv => (fst kv, strip_left [32;9;10;11;12;13] (snd kv))) hs) ++ acc) b u.
Proof.
  induction hs as [|kv hs IH]; intros rest m acc b u Hn Hv; [reflexivity|].
  cbn [forallb] in Hn, Hv. apply andb_true_iff in Hn; destruct Hn as [Hn1 Hn].
  apply andb_true_iff in Hv; destruct Hv as [Hv1 Hv].
  cbn [flat_map app curl_opts]. change (str_eqb [45;72] [45;88]) with false.
  change (str_eqb [45;72] [45;72]) with true. cbv iota.
  rewrite curl_header_line by assumption. rewrite IH by assumption.
  cbn [map rev]. rewrite <- app_assoc. reflexivity.
Qed.

Lemma not_opt_word u : starts_with [45] u = false ->
  str_eqb u [45;88] = false /\ str_eqb u [45;72] = false /\ str_eqb u [45;100] = false /\
  str_eqb u [45;45;105;110;115;101;99;117;114;101] = false.
Proof.
  intros H. repeat split; apply not_true_is_false; intros E; apply str_eqb_spec in E; subst u;
    vm_compute in H; discriminate.
Qed.

Lemma reproduces known r :
  header_names_ok known r = true -> header_values_ok known r = true ->
  body_not_at r = true -> url_not_option r = true ->
  curl_sem (argv_of known r) = CurlSends (visible known r).
Proof.
  intros Hn Hv Hb Hu. unfold curl_sem, argv_of. cbn [app curl_opts].
  change (str_eqb [45;88] [45;88]) with true. cbv iota.
  rewrite curl_opts_headers by assumption. rewrite app_nil_r.
  unfold visible. unfold body_not_at in Hb. unfold url_not_option in Hu.
  apply negb_true_iff in Hu. destruct (not_opt_word _ Hu) as (U1 & U2 & U3 & U4).
  assert (Htail : forall hs b,
     curl_opts ((if verify r then [] else [[45;45;105;110;115;101;99;117;114;101]]) ++ [url r]) (Some (method r)) hs b None
     = CurlSends {| s_method := method r; s_url := url r; s_body := b; s_headers := rev hs |}).
  { intros hs b. destruct (verify r); cbn [app curl_opts].
    - rewrite U1, U2, U3, U4, Hu. reflexivity.
    - change (str_eqb [45;45;105;110;115;101;99;117;114;101] [45;88]) with false.
      change (str_eqb [45;45;105;110;115;101;99;117;114;101] [45;72]) with false.
      change (str_eqb [45;45;105;110;115;101;99;117;114;101] [45;100]) with false.
      change (str_eqb [45;45;105;110;115;101;99;117;114;101] [45;45;105;110;115;101;99;117;114;101]) with true.
      cbv iota. rewrite U1, U2, U3, U4, Hu. reflexivity. }
  unfold body_words. destruct (body r) as [[|c b]|].
  - cbn [app]. rewrite Htail, rev_involutive. reflexivity.
  - cbn [app curl_opts]. change (str_eqb [45;100] [45;88]) with false.
    change (str_eqb [45;100] [45;72]) with false. change (str_eqb [45;100] [45;100]) with true.
    cbv iota. apply negb_true_iff in Hb. rewrite Hb.
    rewrite Htail, rev_involutive; reflexivity.
  - cbn [app]. rewrite Htail, rev_involutive. reflexivity.
Qed.

(* ---- refutations of the unrestricted statement (witnesses) ---- *)
Definition W_url : str := [104;116;116;112;58;47;47;104;47].   (* http://h/ *)
Definition r_empty_header : req :=
  {| method := [71;69;84]; url := W_url; body := None; verify := true; headers := [([88;45;65], [])] |}.
Definition r_at_body : req :=
  {| method := [80;79;83;84]; url := W_url; body := Some [64;120]; verify := true; headers := [] |}.

(* printing every header as Name: value (the rule before the repair) loses a header with an empty value;
   the present rule prints Name; and keeps it *)
Lemma prefix_rule_refuted_empty_header :
  curl_sem (argv_of_prefix [] r_empty_header) <> CurlSends (visible [] r_empty_header) /\
  curl_sem (argv_of [] r_empty_header) = CurlSends (visible [] r_empty_header).
Proof. vm_compute. split; [discriminate | reflexivity]. Qed.

(* a non-empty value of blanks only is still dropped by curl (requests refuses to send such a value) *)
Definition r_blank_header : req :=
  {| method := [71;69;84]; url := W_url; body := None; verify := true; headers := [([88;45;65], [SP])] |}.
Lemma reproduces_refuted_blank_header :
  curl_sem (argv_of [] r_blank_header) <> CurlSends (visible [] r_blank_header).
Proof. vm_compute. discriminate. Qed.

Lemma reproduces_refuted_at_body :
  curl_sem (argv_of [] r_at_body) <> CurlSends (visible [] r_at_body).
Proof. vm_compute. discriminate. Qed.

(* non-vacuity: a non-trivial request satisfying every hypothesis *)
Definition r_ok : req :=
  {| method := [80;85;84]; url := [104;116;116;112;58;47;47;104;47;97;39;32;36;40;120;41];
     body := Some [123;34;97;34;58;32;34;39;36;96;92;10;34;125]; verify := false;
     headers := [([88;45;65], [39;34;32;36;72;79;77;69]); ([65;99;99;101;112;116], [42;47;42]); ([88;45;69], [])] |}.
Lemma r_ok_hyps :
  safe_word (method r_ok) = true /\ req_no_nul [] r_ok = true /\ header_names_ok [] r_ok = true /\
  header_values_ok [] r_ok = true /\ body_not_at r_ok = true /\ url_not_option r_ok = true /\
  length (argv_of [] r_ok) = 11%nat.
Proof. vm_compute. repeat split; reflexivity. Qed.

(* ---- the printed report block ---- *)
Lemma lex_leading_spaces s acc : lex (SP :: s) Bare None acc = lex s Bare None acc.
Proof. cbn [lex]. change (N.eqb SP 0) with false. change (N.eqb SP SP) with true. reflexivity. Qed.

Lemma report_block_words known r : safe_word (method r) = true -> req_no_nul known r = true ->
  sh_words (report_block known r) = Some (argv_of known r).
Proof.
  intros Hm Hn. unfold report_block, sh_words. cbn [app]. rewrite !lex_leading_spaces.
  exact (command_words known r Hm Hn).
Qed.

Definition r_multiline : req :=
  {| method := [80;85;84]; url := W_url; body := Some [97;10;98]; verify := true; headers := [] |}.
Lemma report_block_indent_all_refuted :
  sh_words (report_block_indent_all [] r_multiline) <> Some (argv_of [] r_multiline) /\
  sh_words (report_block [] r_multiline) = Some (argv_of [] r_multiline).
Proof. vm_compute. split; [discriminate | reflexivity]. Qed.
