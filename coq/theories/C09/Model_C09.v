(* C09 model: shlex.quote, schemathesis.core.curl.generate, POSIX sh word
   splitting for the fragment of command lines generate can produce, and the
   semantics of the curl options used.  Executable definitions only. *)
From Coq Require Import List NArith Bool.
From Verif Require Import Common.Str.
Import ListNotations.
Open Scope N_scope.

(* ---------- shlex.quote ---------- *)
Definition SQ : N := 39.   (* single quote *)
Definition DQ : N := 34.   (* double quote *)
Definition SP : N := 32.
Definition is_alnum (c : N) : bool := is_upper c || is_lower c || is_digit c.
(* [\w@%+=:,./-] with re.ASCII *)
Definition safe_char (c : N) : bool :=
  is_alnum c || N.eqb c 95 || mem c [64; 37; 43; 61; 58; 44; 46; 47; 45].

Definition quote (s : str) : str :=
  match s with
  | [] => [SQ; SQ]
  | _ => if forallb safe_char s then s
         else SQ :: replace_char SQ [SQ; DQ; SQ; DQ; SQ] s ++ [SQ]
  end.

(* ---------- POSIX shell word splitting (fragment) ----------
   None = the line leaves the modelled fragment (an unquoted character outside
   the safe set could be a metacharacter / trigger expansion; $ ` \ inside
   double quotes; NUL anywhere; unterminated quote). *)
Inductive lstate := Bare | InSq | InDq.

Definition push (cur : option str) (acc : list str) : list str :=
  match cur with Some w => rev w :: acc | None => acc end.
Definition add (c : N) (cur : option str) : option str :=
  match cur with Some w => Some (c :: w) | None => Some [c] end.
Definition touch (cur : option str) : option str :=
  match cur with Some w => Some w | None => Some [] end.

Fixpoint lex (s : str) (st : lstate) (cur : option str) (acc : list str) : option (list str) :=
  match s with
  | [] => match st with Bare => Some (rev (push cur acc)) | _ => None end
  | c :: s' =>
    if N.eqb c 0 then None else
    match st with
    | Bare =>
      if N.eqb c SP then lex s' Bare None (push cur acc)
      else if N.eqb c SQ then lex s' InSq (touch cur) acc
      else if N.eqb c DQ then lex s' InDq (touch cur) acc
      else if safe_char c then lex s' Bare (add c cur) acc
      else None
    | InSq =>
      if N.eqb c SQ then lex s' Bare cur acc else lex s' InSq (add c cur) acc
    | InDq =>
      if N.eqb c DQ then lex s' Bare cur acc
      else if mem c [36; 96; 92] then None
      else lex s' InDq (add c cur) acc
    end
  end.

Definition sh_words (s : str) : option (list str) := lex s Bare None [].

(* ---------- curl.generate ---------- *)
Record req := {
  method : str;
  url : str;
  body : option str;          (* after bytes.decode utf-8 replace *)
  verify : bool;
  headers : list (str * str)  (* insertion order of the dict *)
}.

(* lower-cased names of get_excluded_headers() *)
Definition s_ (l : list N) : str := l.
Definition excluded_lower : list str :=
  [ [99;111;110;116;101;110;116;45;108;101;110;103;116;104]              (* content-length *)
  ; [116;114;97;110;115;102;101;114;45;101;110;99;111;100;105;110;103]  (* transfer-encoding *)
  ; [120;45;115;99;104;101;109;97;116;104;101;115;105;115;45;116;101;115;116;99;97;115;101;105;100] (* x-schemathesis-testcaseid *)
  ; [117;115;101;114;45;97;103;101;110;116]                              (* user-agent *)
  ; [97;99;99;101;112;116;45;101;110;99;111;100;105;110;103]            (* accept-encoding *)
  ; [97;99;99;101;112;116]                                               (* accept *)
  ; [99;111;110;110;101;99;116;105;111;110] ].                           (* connection *)

Definition in_strs (k : str) (l : list str) : bool := existsb (str_eqb k) l.

Definition filter_headers (known : list str) (hs : list (str * str)) : list (str * str) :=
  filter (fun kv => in_strs (fst kv) known || negb (in_strs (lower_ascii (fst kv)) excluded_lower)) hs.

(* `Name: value`, or `Name;` for an empty value (curl's syntax for sending a header without a value) *)
Definition header_line (kv : str * str) : str :=
  match snd kv with
  | [] => fst kv ++ [59]
  | _ => fst kv ++ [58; SP] ++ snd kv
  end.
(* before the repair every header was printed as `Name: value` (regression sentinel) *)
Definition header_line_prefix (kv : str * str) : str := fst kv ++ [58; SP] ++ snd kv.

Definition body_words (b : option str) : list str :=
  match b with
  | Some (c :: b') => [[45;100]; c :: b']            (* -d *)
  | _ => []
  end.

(* the argument vector the command is meant to denote *)
Definition argv_of (known : list str) (r : req) : list str :=
  [[99;117;114;108]; [45;88]; method r]                                     (* curl -X M *)
  ++ flat_map (fun kv => [[45;72]; header_line kv]) (filter_headers known (headers r))
  ++ body_words (body r)
  ++ (if verify r then [] else [[45;45;105;110;115;101;99;117;114;101]])   (* --insecure *)
  ++ [url r].

(* the command string exactly as curl.generate concatenates it *)
Definition generate (known : list str) (r : req) : str :=
  [99;117;114;108;32;45;88;32] ++ method r
  ++ flat_map (fun kv => [SP;45;72;SP] ++ quote (header_line kv)) (filter_headers known (headers r))
  ++ match body r with
     | Some (c :: b') => [SP;45;100;SP] ++ quote (c :: b')
     | _ => []
     end
  ++ (if verify r then [] else [SP;45;45;105;110;115;101;99;117;114;101])
  ++ [SP] ++ quote (url r).

Definition argv_of_prefix (known : list str) (r : req) : list str :=
  [[99;117;114;108]; [45;88]; method r]
  ++ flat_map (fun kv => [[45;72]; header_line_prefix kv]) (filter_headers known (headers r))
  ++ body_words (body r)
  ++ (if verify r then [] else [[45;45;105;110;115;101;99;117;114;101]])
  ++ [url r].

(* ---------- semantics of the curl options used ----------
   What a server receives, restricted to what the property compares:
   method, URL, body and the non-automatic headers. *)
Record sent := { s_method : str; s_url : str; s_body : option str; s_headers : list (str * str) }.

Definition is_blank (c : N) : bool := mem c [32; 9; 10; 11; 12; 13].

Fixpoint split_colon (s : str) (acc : str) : option (str * str) :=
  match s with
  | [] => None
  | c :: s' => if N.eqb c 58 then Some (rev acc, s') else split_colon s' (c :: acc)
  end.

(* -H Name: value: sent unless the value is blank (then the header is
   removed / not sent); leading blanks of the value are dropped by the peer.
   A line without a colon is ignored (the Name; form is never generated). *)
Fixpoint split_semicolon (s : str) (acc : str) : option (str * str) :=
  match s with
  | [] => None
  | c :: s' => if N.eqb c 59 then Some (rev acc, s') else split_semicolon s' (c :: acc)
  end.

Definition curl_header (h : str) : option (str * str) :=
  match split_colon h [] with
  | Some (k, v) =>
      match k with [] => None | _ =>
      match strip_left [32;9;10;11;12;13] v with
      | [] => None
      | v' => Some (k, v')
      end end
  | None =>
      (* no colon: `Name;` (first semicolon, nothing but blanks after it) sends the header with an empty value *)
      match split_semicolon h [] with
      | Some (k, rest) =>
          match k, strip_left [32;9;10;11;12;13] rest with
          | _ :: _, [] => Some (k, [])
          | _, _ => None
          end
      | None => None
      end
  end.

Inductive curl_res := CurlSends (s : sent) | CurlReadsFile (path : str) | CurlBadArgs.

Fixpoint curl_opts (args : list str) (m : option str) (hs : list (str*str)) (b : option str)
  (u : option str) : curl_res :=
  match args with
  | [] => match m, u with
          | Some m', Some u' => CurlSends {| s_method := m'; s_url := u'; s_body := b; s_headers := rev hs |}
          | _, _ => CurlBadArgs end
  | a :: rest =>
    if str_eqb a [45;88] then
      match rest with x :: rest' => curl_opts rest' (Some x) hs b u | [] => CurlBadArgs end
    else if str_eqb a [45;72] then
      match rest with
      | x :: rest' => curl_opts rest' m (match curl_header x with Some kv => kv :: hs | None => hs end) b u
      | [] => CurlBadArgs end
    else if str_eqb a [45;100] then
      match rest with
      | x :: rest' =>
          if starts_with [64] x then CurlReadsFile (tl x)      (* -d @file *)
          else curl_opts rest' m hs (Some x) u
      | [] => CurlBadArgs end
    else if str_eqb a [45;45;105;110;115;101;99;117;114;101] then curl_opts rest m hs b u
    else if starts_with [45] a then CurlBadArgs            (* some other option *)
    else match u with None => curl_opts rest m hs b (Some a) | Some _ => CurlBadArgs end
  end.

Definition curl_sem (argv : list str) : curl_res :=
  match argv with
  | _curl :: args => curl_opts args None [] None None
  | [] => CurlBadArgs
  end.

(* what the original request shows to the server, modulo automatic headers;
   the peer drops leading blanks of header values *)
Definition visible (known : list str) (r : req) : sent :=
  {| s_method := method r; s_url := url r;
     s_body := match body r with Some (c :: b) => Some (c :: b) | _ => None end;
     s_headers := map (fun kv => (fst kv, strip_left [32;9;10;11;12;13] (snd kv)))
                      (filter_headers known (headers r)) |}.

(* ---------- region predicates (hypotheses of the _partial theorem) ---------- *)
Definition no_nul (s : str) : bool := forallb (fun c => negb (N.eqb c 0)) s.
Definition safe_word (s : str) : bool := match s with [] => false | _ => forallb safe_char s end.
Definition no_colon (s : str) : bool := forallb (fun c => negb (N.eqb c 58)) s.

(* a value is fine if it is empty or has a non-blank character (a non-empty all-blank value still makes curl drop the header) *)
Definition header_value_nonblank (kv : str * str) : bool :=
  match snd kv with
  | [] => true
  | _ => match strip_left [32;9;10;11;12;13] (snd kv) with [] => false | _ => true end
  end.
Definition no_semicolon (s : str) : bool := forallb (fun c => negb (N.eqb c 59)) s.
Definition header_name_ok (kv : str * str) : bool :=
  match fst kv with [] => false | _ => no_colon (fst kv) && no_semicolon (fst kv) end.
Definition header_values_ok (known : list str) (r : req) : bool :=
  forallb header_value_nonblank (filter_headers known (headers r)).
Definition header_names_ok (known : list str) (r : req) : bool :=
  forallb header_name_ok (filter_headers known (headers r)).
Definition body_not_at (r : req) : bool :=
  match body r with Some b => negb (starts_with [64] b) | None => true end.
Definition url_not_option (r : req) : bool :=
  negb (starts_with [45] (url r)).
Definition req_no_nul (known : list str) (r : req) : bool :=
  no_nul (url r) && forallb (fun kv => no_nul (fst kv) && no_nul (snd kv)) (filter_headers known (headers r))
  && match body r with Some b => no_nul b | None => true end.

(* ---------- the command as printed in a failure report (core/failures.py: format_failures) ----------
   "Reproduce with: \n\n    {curl}": four spaces in front of the FIRST line only. *)
Definition report_block (known : list str) (r : req) : str := [SP; SP; SP; SP] ++ generate known r.

(* the variant that indents every line of the command (textwrap.indent), kept as a regression sentinel *)
Fixpoint indent_lines (s : str) : str :=
  match s with
  | [] => []
  | c :: s' => if N.eqb c 10 then c :: SP :: SP :: SP :: SP :: indent_lines s' else c :: indent_lines s'
  end.
Definition report_block_indent_all (known : list str) (r : req) : str := [SP; SP; SP; SP] ++ indent_lines (generate known r).
