(* C06 model: what schemathesis puts on the wire for a generated case.
   - str() coercion of Python scalars, truthiness, insertion-ordered dict operations
   - every serializer of specs/openapi/serialization.py, the OpenAPI 3 / Swagger 2 dispatch, make_serializer composition
   - quote_plus / quote_all / jsonify_python_specific_types / is_valid_path   (specs/openapi/_hypothesis.py, openapi/generation/filters.py)
   - prepare_path / prepare_url / prepare_headers / Content-Type of serialize_case   (transport/prepare.py, transport/requests.py)
   - DECODERS written from RFC 3986 / RFC 6570 / the OpenAPI style table (not from the code)
   Executable definitions only.  Strings are lists of code points; bytes are the code points below 256. *)
From Coq Require Import List NArith ZArith Bool.
From Verif Require Import Common.Str.
Import ListNotations.
Open Scope N_scope.

(* ------------------------------------------------------------------------------------------------ *)
(* 1. Python values of the modelled fragment                                                          *)
(* ------------------------------------------------------------------------------------------------ *)
Inductive pyv := PNone | PBool (b : bool) | PInt (z : Z) | PStr (s : str).
Inductive value := VPrim (p : pyv) | VArr (l : list pyv) | VObj (l : list (str * pyv)).

Fixpoint dec_aux (fuel : nat) (n : N) (acc : str) : str :=
  match fuel with
  | O => acc
  | S f => let acc' := (48 + n mod 10) :: acc in
           if n / 10 =? 0 then acc' else dec_aux f (n / 10) acc'
  end.
Definition dec_N (n : N) : str := dec_aux (S (N.to_nat (N.log2 n))) n [].
Definition dec_Z (z : Z) : str := if (z <? 0)%Z then 45 :: dec_N (Z.abs_N z) else dec_N (Z.abs_N z).

Definition s_None : str := [78;111;110;101].
Definition s_True : str := [84;114;117;101].
Definition s_False : str := [70;97;108;115;101].
Definition s_true : str := [116;114;117;101].
Definition s_false : str := [102;97;108;115;101].
Definition s_null : str := [110;117;108;108].

(* str(x) / format(x, empty spec) *)
Definition py_str (p : pyv) : str :=
  match p with
  | PNone => s_None
  | PBool true => s_True
  | PBool false => s_False
  | PInt z => dec_Z z
  | PStr s => s
  end.

(* the JSON spelling used by jsonify_python_specific_types and _stringify_value *)
Definition js_str (p : pyv) : str :=
  match p with
  | PNone => s_null
  | PBool true => s_true
  | PBool false => s_false
  | PInt z => dec_Z z
  | PStr s => s
  end.

Definition is_nil {A} (l : list A) : bool := match l with [] => true | _ => false end.

(* bool(x) *)
Definition truthy_p (p : pyv) : bool :=
  match p with
  | PNone => false
  | PBool b => b
  | PInt z => negb (Z.eqb z 0)
  | PStr s => negb (is_nil s)
  end.
Definition truthy (v : value) : bool :=
  match v with
  | VPrim p => truthy_p p
  | VArr l => negb (is_nil l)
  | VObj l => negb (is_nil l)
  end.

Definition sval (s : str) : value := VPrim (PStr s).

(* ------------------------------------------------------------------------------------------------ *)
(* 2. dict (insertion ordered)                                                                        *)
(* ------------------------------------------------------------------------------------------------ *)
Fixpoint d_get {A} (k : str) (d : list (str * A)) : option A :=
  match d with
  | [] => None
  | (k', v) :: r => if str_eqb k k' then Some v else d_get k r
  end.
Fixpoint d_set {A} (k : str) (v : A) (d : list (str * A)) : list (str * A) :=
  match d with
  | [] => [(k, v)]
  | (k', v') :: r => if str_eqb k k' then (k', v) :: r else (k', v') :: d_set k v r
  end.
Fixpoint d_pop {A} (k : str) (d : list (str * A)) : list (str * A) :=
  match d with
  | [] => []
  | (k', v') :: r => if str_eqb k k' then r else (k', v') :: d_pop k r
  end.
Definition d_update {A} (d new : list (str * A)) : list (str * A) :=
  fold_left (fun acc kv => d_set (fst kv) (snd kv) acc) new d.

Definition item := list (str * value).

(* ------------------------------------------------------------------------------------------------ *)
(* 3. json.dumps (defaults: ensure_ascii, separators ,  and : )                                   *)
(* ------------------------------------------------------------------------------------------------ *)
Definition hexl (n : N) : N := if n <? 10 then 48 + n else 87 + n.   (* lower case *)
Definition u_escape (c : N) : str :=                                   (* \uXXXX *)
  [92; 117; hexl (c / 4096); hexl ((c / 256) mod 16); hexl ((c / 16) mod 16); hexl (c mod 16)].
Definition json_esc_char (c : N) : str :=
  if c =? 34 then [92; 34]
  else if c =? 92 then [92; 92]
  else if c =? 10 then [92; 110]
  else if c =? 13 then [92; 114]
  else if c =? 9 then [92; 116]
  else if c =? 8 then [92; 98]
  else if c =? 12 then [92; 102]
  else if (32 <=? c) && (c <=? 126) then [c]
  else if c <? 65536 then u_escape c
  else let v := c - 65536 in u_escape (55296 + v / 1024) ++ u_escape (56320 + v mod 1024).
Definition json_string (s : str) : str := 34 :: flat_map json_esc_char s ++ [34].
Definition json_prim (p : pyv) : str :=
  match p with
  | PStr s => json_string s
  | _ => js_str p
  end.
Definition json_dumps (v : value) : str :=
  match v with
  | VPrim p => json_prim p
  | VArr l => 91 :: join [44; 32] (map json_prim l) ++ [93]
  | VObj l => 123 :: join [44; 32] (map (fun kv => json_string (fst kv) ++ [58; 32] ++ json_prim (snd kv)) l) ++ [125]
  end.

(* ------------------------------------------------------------------------------------------------ *)
(* 4. serializers (specs/openapi/serialization.py:184-378)                                            *)
(*    None = the value leaves the modelled fragment: str() of a list / dict is its Python repr.      *)
(* ------------------------------------------------------------------------------------------------ *)
Inductive sfun :=
| FToJson | FDelimited (delim : N) | FDeepObject | FCommaObj | FDelimObj | FExtracted
| FLabelPrim | FLabelArr (e : bool) | FLabelObj (e : bool)
| FMatrixPrim | FMatrixArr (e : bool) | FMatrixObj (e : bool)
| FNothing | FToString.

(* force_iterable(x or ()) *)
Definition or_iter (v : value) : option (list pyv) :=
  if truthy v then
    match v with VArr l => Some l | VPrim p => Some [p] | VObj _ => None end
  else Some [].
(* force_dict(x or {}) restricted to scalar entries *)
Definition or_dict (v : value) : option (list (str * pyv)) :=
  if truthy v then
    match v with VObj l => Some l | VPrim p => Some [([], p)] | VArr _ => None end
  else Some [].
(* force_dict(x) for a truthy x, entries kept as values (deep_object) *)
Definition force_dict_v (v : value) : list (str * value) :=
  match v with
  | VObj l => map (fun kv => (fst kv, VPrim (snd kv))) l
  | _ => [([], v)]
  end.

Definition kv_eq (kv : str * pyv) : str := fst kv ++ [61] ++ py_str (snd kv).
(* make_delimited *)
Definition make_delimited (d : list (str * pyv)) (delim : N) : str := join [delim] (map kv_eq d).
(* ,.join(map(str, sum(d.items(), ()))) *)
Definition comma_flat (d : list (str * pyv)) : str := join [44] (flat_map (fun kv => [fst kv; py_str (snd kv)]) d).

Definition prefix_if_nonempty (c : N) (s : str) : str := if is_nil s then [] else c :: s.

Definition omap {A B} (f : A -> B) (o : option A) : option B := match o with Some a => Some (f a) | None => None end.

Definition new_value (f : sfun) (name : str) (v : value) : option str :=
  match f with
  | FToJson => Some (json_dumps v)
  | FDelimited dl => omap (fun l => join [dl] (map py_str l)) (or_iter v)
  | FCommaObj => omap comma_flat (or_dict v)
  | FDelimObj => omap (fun d => make_delimited d 44) (or_dict v)
  | FLabelPrim =>
      if truthy v then match v with VPrim p => Some (46 :: py_str p) | _ => None end else Some []
  | FLabelArr e =>
      omap (fun l => prefix_if_nonempty 46 (join [if e then 46 else 44] (map py_str l))) (or_iter v)
  | FLabelObj e =>
      omap (fun d => prefix_if_nonempty 46 (if e then make_delimited d 46 else comma_flat d)) (or_dict v)
  | FMatrixPrim =>
      match v with
      | VPrim PNone => Some []
      | VPrim p => Some (59 :: name ++ [61] ++ py_str p)
      | _ => None
      end
  | FMatrixArr e =>
      omap (fun l => prefix_if_nonempty 59
                       (if e then join [59] (map (fun p => name ++ [61] ++ py_str p) l)
                        else join [44] (map py_str l))) (or_iter v)
  | FMatrixObj e =>
      omap (fun d => prefix_if_nonempty 59 (if e then make_delimited d 59 else comma_flat d)) (or_dict v)
  | FToString => match v with VPrim p => Some (py_str p) | _ => None end
  | _ => None
  end.

(* one conversion-wrapped function applied to the container *)
Definition apply_sfun (f : sfun) (name : str) (it : item) : option item :=
  match d_get name it with
  | None => Some it
  | Some v =>
    match f with
    | FDeepObject =>
        let it' := d_pop name it in
        if truthy v
        then Some (d_update it' (map (fun kv => (name ++ [91] ++ fst kv ++ [93], snd kv)) (force_dict_v v)))
        else Some (d_set name (sval []) it')
    | FExtracted =>
        let it' := d_pop name it in
        match v with
        | VObj (e :: l) => Some (d_update it' (force_dict_v v))
        | _ => Some (d_set name (sval []) it')
        end
    | FNothing => Some (d_pop name it)
    | _ => omap (fun s => d_set name (sval s) it) (new_value f name v)
    end
  end.

(* ------------------------------------------------------------------------------------------------ *)
(* 5. dispatch: _serialize_openapi3 / _serialize_swagger2 / make_serializer                           *)
(* ------------------------------------------------------------------------------------------------ *)
Inductive loc := LPath | LQuery | LHeader | LCookie.
Inductive ptype := TObject | TArray | TOther.
Inductive pstyle := StNone | StSimple | StLabel | StMatrix | StForm | StDeep | StPipe | StSpace | StOther.
Inductive pcontent := CtNone | CtJson | CtOther.
Record definition := {
  d_name : str; d_in : loc; d_style : pstyle; d_explode : option bool; d_type : ptype; d_content : pcontent }.

Definition is_true (e : option bool) : bool := match e with Some true => true | _ => false end.
Definition is_false (e : option bool) : bool := match e with Some false => true | _ => false end.

Definition ser3_path (t : ptype) (st : pstyle) (e : option bool) : list sfun :=
  match st with
  | StSimple =>
      match t with
      | TObject => (if is_false e then [FCommaObj] else []) ++ (if is_true e then [FDelimObj] else [])
      | TArray => [FDelimited 44]
      | TOther => []
      end
  | StLabel =>
      match t with TObject => [FLabelObj (is_true e)] | TArray => [FLabelArr (is_true e)] | TOther => [FLabelPrim] end
  | StMatrix =>
      match t with TObject => [FMatrixObj (is_true e)] | TArray => [FMatrixArr (is_true e)] | TOther => [FMatrixPrim] end
  | _ => []
  end.

Definition form_or_none (st : pstyle) : bool := match st with StNone | StForm => true | _ => false end.

Definition ser3_query (t : ptype) (st : pstyle) (e : option bool) : list sfun :=
  match t with
  | TObject =>
      (match st with StDeep => [FDeepObject] | _ => [] end)
      ++ (if form_or_none st
          then (if is_false e then [FCommaObj] else []) ++ (if is_true e then [FExtracted] else [])
          else [])
  | TArray =>
      if is_false e then
        (match st with StPipe => [FDelimited 124] | _ => [] end)
        ++ (match st with StSpace => [FDelimited 32] | _ => [] end)
        ++ (if form_or_none st then [FDelimited 44] else [])
      else []
  | TOther => []
  end.

Definition ser3_header (t : ptype) (e : option bool) : list sfun :=
  [FToString]
  ++ (match t with TArray => [FDelimited 44] | _ => [] end)
  ++ (match t with
      | TObject => (if is_false e then [FCommaObj] else []) ++ (if is_true e then [FDelimObj] else [])
      | _ => []
      end).

Definition ser3_cookie (t : ptype) (e : option bool) : list sfun :=
  [FToString]
  ++ (if is_true e && (match t with TArray | TObject => true | TOther => false end) then [FNothing] else [])
  ++ (if is_false e then
        match t with TArray => [FDelimited 44] | TObject => [FCommaObj] | TOther => [] end
      else []).

Definition ser3_one (d : definition) : list sfun :=
  match d_content d with
  | CtJson => [FToJson]
  | CtOther => []
  | CtNone =>
      match d_in d with
      | LPath => ser3_path (d_type d) (d_style d) (d_explode d)
      | LQuery => ser3_query (d_type d) (d_style d) (d_explode d)
      | LHeader => ser3_header (d_type d) (d_explode d)
      | LCookie => ser3_cookie (d_type d) (d_explode d)
      end
  end.

Definition ser3 (defs : list definition) : list (str * sfun) :=
  flat_map (fun d => map (fun f => (d_name d, f)) (ser3_one d)) defs.

Inductive cfmt := CfCsv | CfSsv | CfTsv | CfPipes | CfOther.
Record definition2 := { d2_name : str; d2_header : bool; d2_cf : cfmt; d2_type : ptype }.

Definition ser2_one (d : definition2) : list sfun :=
  (if d2_header d then [FToString] else [])
  ++ (match d2_type d with
      | TOther => []
      | _ => match d2_cf d with
             | CfCsv => [FDelimited 44] | CfSsv => [FDelimited 32] | CfTsv => [FDelimited 9] | CfPipes => [FDelimited 124]
             | CfOther => []
             end
      end).
Definition ser2 (defs : list definition2) : list (str * sfun) :=
  flat_map (fun d => map (fun f => (d2_name d, f)) (ser2_one d)) defs.

(* composed: the functions are applied in REVERSED order of yielding *)
Definition composed (fs : list (str * sfun)) (it : item) : option item :=
  fold_right (fun nf acc => match acc with Some i => apply_sfun (snd nf) (fst nf) i | None => None end) (Some it) fs.

Definition serialize3 (defs : list definition) (it : item) : option item := composed (ser3 defs) it.
Definition serialize2 (defs : list definition2) (it : item) : option item := composed (ser2 defs) it.

(* ------------------------------------------------------------------------------------------------ *)
(* 6. UTF-8, urllib.parse.quote / quote_plus, quote_all, jsonify, is_valid_path                       *)
(* ------------------------------------------------------------------------------------------------ *)
Definition utf8_cp (c : N) : list N :=
  if c <? 128 then [c]
  else if c <? 2048 then [192 + c / 64; 128 + c mod 64]
  else if c <? 65536 then [224 + c / 4096; 128 + (c / 64) mod 64; 128 + c mod 64]
  else [240 + c / 262144; 128 + (c / 4096) mod 64; 128 + (c / 64) mod 64; 128 + c mod 64].
Definition is_surrogate (c : N) : bool := (55296 <=? c) && (c <=? 57343).
Definition is_scalar (c : N) : bool := negb (is_surrogate c) && (c <? 1114112).
(* str.encode(utf-8) with errors=strict: None = UnicodeEncodeError *)
Definition utf8_encode (s : str) : option (list N) :=
  if forallb is_scalar s then Some (flat_map utf8_cp s) else None.

Definition always_safe (b : N) : bool :=
  is_upper b || is_lower b || is_digit b || mem b [95; 46; 45; 126].
Definition hexd (n : N) : N := if n <? 10 then 48 + n else 55 + n.     (* upper case *)
Definition pct_byte (b : N) : str := [37; hexd (b / 16); hexd (b mod 16)].
Definition quote_byte (safe : N -> bool) (b : N) : str := if always_safe b || safe b then [b] else pct_byte b.
Definition quote_with (safe : N -> bool) (s : str) : option str :=
  omap (flat_map (quote_byte safe)) (utf8_encode s).
Definition is_sp (b : N) : bool := b =? 32.
Definition is_slash (b : N) : bool := b =? 47.
Definition no_safe (b : N) : bool := false.
Definition sp_to_plus (s : str) : str := map (fun c => if c =? 32 then 43 else c) s.
(* quote_plus(s) = quote(s, safe= ).replace( , +) *)
Definition quote_plus (s : str) : option str := omap sp_to_plus (quote_with is_sp s).
(* quote(s) with the default safe=/ *)
Definition quote_path (s : str) : option str := quote_with is_slash s.

Definition s_2E : str := [37;50;69].
Definition quote_value (s : str) : option str :=
  if str_eqb s [46] then Some s_2E
  else if str_eqb s [46;46] then Some (s_2E ++ s_2E)
  else quote_plus s.

(* quote_all: only str values are touched.  None = UnicodeEncodeError *)
Fixpoint quote_all (it : item) : option item :=
  match it with
  | [] => Some []
  | (k, VPrim (PStr s)) :: r =>
      match quote_value s, quote_all r with
      | Some q, Some r' => Some ((k, sval q) :: r')
      | _, _ => None
      end
  | kv :: r => omap (cons kv) (quote_all r)
  end.

(* jsonify_python_specific_types: bool / None directly under a dict are respelled; a dict value is visited;
   for a list value the code pushes the KEYS of the enclosing dict (stack.extend(item)), i.e. lists are left alone *)
Definition jsonify_p (p : pyv) : pyv :=
  match p with
  | PBool b => PStr (js_str p)
  | PNone => PStr s_null
  | _ => p
  end.
Definition jsonify_v (v : value) : value :=
  match v with
  | VPrim p => VPrim (jsonify_p p)
  | VObj l => VObj (map (fun kv => (fst kv, jsonify_p (snd kv))) l)
  | VArr l => VArr l
  end.
Definition jsonify (it : item) : item := map (fun kv => (fst kv, jsonify_v (snd kv))) it.

Definition has_surrogate (s : str) : bool := existsb is_surrogate s.
Definition bad_path_str (s : str) : bool :=
  is_nil s || has_surrogate s || mem 47 s || mem 125 s || mem 123 s.
Definition bad_path_value (v : value) : bool :=
  match v with
  | VPrim (PStr s) => bad_path_str s
  | VArr l => existsb (fun p => match p with PStr s => has_surrogate s | _ => false end) l
  | _ => false
  end.
Definition is_valid_path (it : item) : bool := negb (existsb (fun kv => bad_path_value (snd kv)) it).
Definition bad_query_value (v : value) : bool :=
  match v with
  | VPrim (PStr s) => has_surrogate s
  | VArr l => existsb (fun p => match p with PStr s => has_surrogate s | _ => false end) l
  | _ => false
  end.
Definition is_valid_query (it : item) : bool :=
  negb (existsb (fun kv => has_surrogate (fst kv) || bad_query_value (snd kv)) it).

(* the chain of get_parameters_strategy (_hypothesis.py:360-380) for OpenAPI 3 *)
Inductive gen_res := GOk (it : item) | GFiltered | GRaises | GUnmodelled.
Definition generated_path (defs : list definition) (it : item) : gen_res :=
  match serialize3 defs it with
  | None => GUnmodelled
  | Some it1 =>
      if is_valid_path it1 then
        match quote_all it1 with
        | Some it2 => GOk (jsonify it2)
        | None => GRaises
        end
      else GFiltered
  end.
Definition generated_query (defs : list definition) (it : item) : gen_res :=
  match serialize3 defs it with
  | None => GUnmodelled
  | Some it1 => if is_valid_query it1 then GOk (jsonify it1) else GFiltered
  end.

(* ------------------------------------------------------------------------------------------------ *)
(* 7. prepare_path (str.format restricted to plain {name} fields) and prepare_url                    *)
(* ------------------------------------------------------------------------------------------------ *)
Inductive fmt_res := FOk (s : str) | FInvalidSchema | FUnmodelled.

(* characters that start the parts of a replacement field we do not model: ! : . [  *)
Definition field_special (c : N) : bool := mem c [33; 58; 46; 91; 123; 125].

(* read a field name up to the closing brace *)
Fixpoint read_field (s : str) (acc : str) : option (str * str) :=
  match s with
  | [] => None
  | c :: r => if c =? 125 then Some (rev acc, r) else read_field r (c :: acc)
  end.

Definition format_value (v : value) : option str := match v with VPrim p => Some (py_str p) | _ => None end.

Fixpoint format_aux (fuel : nat) (s : str) (params : item) (out : str) : fmt_res :=
  match fuel with
  | O => FUnmodelled
  | S fuel' =>
    match s with
    | [] => FOk (rev out)
    | c :: r =>
      if c =? 123 then
        match r with
        | c2 :: r2 =>
          if c2 =? 123 then format_aux fuel' r2 params (123 :: out)
          else
            match read_field r [] with
            | None => FInvalidSchema                       (* ValueError: expected closing brace *)
            | Some (name, rest) =>
                if existsb field_special name then
                  (if mem 123 name then FInvalidSchema else FUnmodelled)
                else if is_nil name then FInvalidSchema   (* IndexError: positional field without args *)
                else if forallb is_digit name then FInvalidSchema   (* IndexError *)
                else
                  match d_get name params with
                  | None => FInvalidSchema                 (* KeyError *)
                  | Some v =>
                      match format_value v with
                      | Some t => format_aux fuel' rest params (rev t ++ out)
                      | None => FUnmodelled
                      end
                  end
            end
        | [] => FInvalidSchema                             (* single open brace at the end *)
        end
      else if c =? 125 then
        match r with
        | c2 :: r2 => if c2 =? 125 then format_aux fuel' r2 params (125 :: out) else FInvalidSchema
        | [] => FInvalidSchema
        end
      else format_aux fuel' r params (c :: out)
    end
  end.
Definition prepare_path (tmpl : str) (params : item) : fmt_res := format_aux (S (length tmpl)) tmpl params [].

(* urljoin(base, rel) for a base prefix + bpath (prefix = scheme://netloc, bpath ends with /, no query or
   fragment) and a non-empty relative reference made of path characters only (what quote() returns).
   quote() keeps . and / and nothing else that urljoin looks at, and unquote(quote(seg)) = seg, therefore the
   composition unquote(urljoin(base, quote(path))) is computed here directly on the unquoted segments. *)
Fixpoint drop_last {A} (l : list A) : list A :=
  match l with [] => [] | [x] => [] | x :: r => x :: drop_last r end.
Definition filter_middle (segs : list str) : list str :=
  match segs with
  | [] => []
  | [x] => [x]
  | x :: r => x :: filter (fun s => negb (is_nil s)) (drop_last r) ++ [last r []]
  end.
Definition is_dot (s : str) : bool := str_eqb s [46].
Definition is_dotdot (s : str) : bool := str_eqb s [46; 46].
Fixpoint resolve_dots (segs : list str) (acc : list str) : list str :=   (* acc reversed *)
  match segs with
  | [] => rev acc
  | s :: r =>
      if is_dotdot s then resolve_dots r (match acc with [] => [] | _ :: a => a end)
      else if is_dot s then resolve_dots r acc
      else resolve_dots r (s :: acc)
  end.
Fixpoint lstrip_slash (s : str) : str :=
  match s with c :: r => if c =? 47 then lstrip_slash r else s | [] => [] end.
Definition ends_with_slash (s : str) : bool := match rev s with c :: _ => c =? 47 | [] => false end.

(* prepare_url for OpenAPI schemas: prefix = scheme://netloc, bpath = path of the base URL, formatted = prepare_path result *)
Definition prepare_url (prefix bpath formatted : str) : str :=
  let path := lstrip_slash formatted in
  let bpath' := if ends_with_slash (prefix ++ bpath) then bpath else bpath ++ [47] in
  if is_nil path then prefix ++ bpath'
  else
    let base_parts := split_on 47 bpath' in   (* last element is empty since bpath ends with a slash *)
    let segments := filter_middle (base_parts ++ split_on 47 path) in
    let resolved := resolve_dots segments [] in
    let resolved' := if is_dot (last segments []) || is_dotdot (last segments []) then resolved ++ [[]] else resolved in
    let p := join [47] resolved' in
    (* urlunparse puts a slash between the netloc and a path that lost its leading empty segment to a dot-dot segment *)
    prefix ++ (match p with [] => [47] | 47 :: _ => p | _ => 47 :: p end).

(* ------------------------------------------------------------------------------------------------ *)
(* 8. prepare_headers and the Content-Type rule of RequestsTransport.serialize_case                   *)
(* ------------------------------------------------------------------------------------------------ *)
Definition headers := list (str * str).     (* CaseInsensitiveDict: first component is the spelling last set *)
Definition ci_eqb (a b : str) : bool := str_eqb (lower_ascii a) (lower_ascii b).
Fixpoint ci_get (k : str) (h : headers) : option str :=
  match h with
  | [] => None
  | (k', v) :: r => if ci_eqb k k' then Some v else ci_get k r
  end.
Fixpoint ci_set (k v : str) (h : headers) : headers :=
  match h with
  | [] => [(k, v)]
  | (k', v') :: r => if ci_eqb k k' then (k, v) :: r else (k', v') :: ci_set k v r
  end.
Definition ci_update (h : headers) (new : list (str * str)) : headers :=
  fold_left (fun acc kv => ci_set (fst kv) (snd kv) acc) new h.
Definition ci_setdefault (k v : str) (h : headers) : headers :=
  match ci_get k h with Some _ => h | None => ci_set k v h end.

Definition h_user_agent : str := [85;115;101;114;45;65;103;101;110;116].
Definition h_test_case_id : str :=
  [88;45;83;99;104;101;109;97;116;104;101;115;105;115;45;84;101;115;116;67;97;115;101;73;100].
Definition h_content_type : str := [67;111;110;116;101;110;116;45;84;121;112;101].

Definition prepare_headers (case_h : option headers) (explicit : option (list (str * str))) (ua id : str) : headers :=
  let h0 := match case_h with Some h => h | None => [] end in
  let h1 := match explicit with Some e => ci_update h0 e | None => h0 end in
  ci_setdefault h_test_case_id id (ci_setdefault h_user_agent ua h1).

Definition s_multipart : str := [109;117;108;116;105;112;97;114;116;47;102;111;114;109;45;100;97;116;97].
(* media_type: None or Some text; has_body = body is not NOT_SET *)
Definition serialize_case_headers (case_h : option headers) (explicit : option (list (str * str))) (ua id : str)
           (media_type : option str) (has_body : bool) : headers :=
  let h := prepare_headers case_h explicit ua id in
  match media_type with
  | Some mt =>
      if negb (is_nil mt) && negb (str_eqb mt s_multipart) && has_body then ci_setdefault h_content_type mt h else h
  | None => h
  end.

(* ------------------------------------------------------------------------------------------------ *)
(* 9. DECODERS (from the standards, not from the code)                                                *)
(* ------------------------------------------------------------------------------------------------ *)
Definition unhex (c : N) : option N :=
  if is_digit c then Some (c - 48)
  else if (65 <=? c) && (c <=? 70) then Some (c - 55)
  else if (97 <=? c) && (c <=? 102) then Some (c - 87)
  else None.

(* RFC 3986 2.1 percent-decoding to bytes; plus_is_space selects application/x-www-form-urlencoded.
   Characters above 127 cannot occur in a URI: rejected. *)
Fixpoint pct_bytes (plus_is_space : bool) (s : str) : option (list N) :=
  match s with
  | [] => Some []
  | c :: r =>
      if c =? 37 then
        match r with
        | h1 :: h2 :: r2 =>
            match unhex h1, unhex h2, pct_bytes plus_is_space r2 with
            | Some a, Some b, Some t => Some (a * 16 + b :: t)
            | _, _, _ => None
            end
        | _ => None
        end
      else if 128 <=? c then None
      else match pct_bytes plus_is_space r with
           | Some t => Some ((if plus_is_space && (c =? 43) then 32 else c) :: t)
           | None => None
           end
  end.

Definition is_cont (b : N) : bool := (128 <=? b) && (b <? 192).
(* strict UTF-8 decoding (RFC 3629): rejects overlong forms, surrogates, values above 10FFFF *)
Fixpoint utf8_decode (bs : list N) : option str :=
  match bs with
  | [] => Some []
  | b0 :: r =>
      if b0 <? 128 then omap (cons b0) (utf8_decode r)
      else if b0 <? 194 then None
      else if b0 <? 224 then
        match r with
        | b1 :: r1 => if is_cont b1 then omap (cons ((b0 - 192) * 64 + (b1 - 128))) (utf8_decode r1) else None
        | _ => None
        end
      else if b0 <? 240 then
        match r with
        | b1 :: b2 :: r2 =>
            let c := (b0 - 224) * 4096 + (b1 - 128) * 64 + (b2 - 128) in
            if is_cont b1 && is_cont b2 && (2048 <=? c) && negb (is_surrogate c)
            then omap (cons c) (utf8_decode r2) else None
        | _ => None
        end
      else if b0 <? 245 then
        match r with
        | b1 :: b2 :: b3 :: r3 =>
            let c := (b0 - 240) * 262144 + (b1 - 128) * 4096 + (b2 - 128) * 64 + (b3 - 128) in
            if is_cont b1 && is_cont b2 && is_cont b3 && (65536 <=? c) && (c <? 1114112)
            then omap (cons c) (utf8_decode r3) else None
        | _ => None
        end
      else None
  end.

Definition obind {A B} (o : option A) (f : A -> option B) : option B := match o with Some a => f a | None => None end.

(* a path segment / header text: plus is a literal plus *)
Definition pct_decode (s : str) : option str := obind (pct_bytes false s) utf8_decode.
(* a query component (application/x-www-form-urlencoded): plus is a space *)
Definition pct_decode_form (s : str) : option str := obind (pct_bytes true s) utf8_decode.

(* ---- decoded values: what a server-side parameter parser returns *)
Inductive cvalue := CPrim (s : str) | CArr (l : list str) | CObj (l : list (str * str)).
Definition coerce_with (f : pyv -> str) (v : value) : cvalue :=
  match v with
  | VPrim p => CPrim (f p)
  | VArr l => CArr (map f l)
  | VObj l => CObj (map (fun kv => (fst kv, f (snd kv))) l)
  end.
Definition coerce : value -> cvalue := coerce_with py_str.

(* strip a prefix *)
Fixpoint strip_prefix (p s : str) : option str :=
  match p, s with
  | [], _ => Some s
  | x :: p', y :: s' => if x =? y then strip_prefix p' s' else None
  | _ :: _, [] => None
  end.

(* k,v,k,v -> pairs *)
Fixpoint pair_up (l : list str) : option (list (str * str)) :=
  match l with
  | [] => Some []
  | k :: v :: r => omap (cons (k, v)) (pair_up r)
  | [_] => None
  end.
(* k=v : split at the first = *)
Fixpoint split_first (c : N) (s : str) (acc : str) : option (str * str) :=
  match s with
  | [] => None
  | x :: r => if x =? c then Some (rev acc, r) else split_first c r (x :: acc)
  end.
Fixpoint all_some {A} (l : list (option A)) : option (list A) :=
  match l with
  | [] => Some []
  | Some a :: r => omap (cons a) (all_some r)
  | None :: _ => None
  end.
Definition split_list (dl : N) (s : str) : list str := if is_nil s then [] else split_on dl s.
Definition dec_pairs (dl : N) (s : str) : option (list (str * str)) :=
  all_some (map (fun kv => split_first 61 kv []) (split_list dl s)).

(* the wire form a serializer is SUPPOSED to produce for `name`, decoded.  Written from RFC 6570 section 3.2
   ({var} {var*} {.var} {.var*} {;var} {;var*}) and the OpenAPI 3 style table; the container is what the HTTP
   layer hands over: a dict of strings (lists only for exploded form arrays, which requests itself expands).
   An undefined / empty list or object expands to nothing in RFC 6570: the empty string decodes to the empty container. *)
Definition dec_value (f : sfun) (name : str) (s : str) : option cvalue :=
  match f with
  | FDelimited dl => Some (CArr (split_list dl s))
  | FCommaObj => omap CObj (pair_up (split_list 44 s))
  | FDelimObj => omap CObj (dec_pairs 44 s)
  | FLabelPrim => omap CPrim (strip_prefix [46] s)
  | FLabelArr e => if is_nil s then Some (CArr []) else omap (fun t => CArr (split_on (if e then 46 else 44) t)) (strip_prefix [46] s)
  | FLabelObj e =>
      if is_nil s then Some (CObj [])
      else obind (strip_prefix [46] s) (fun t => omap CObj (if e then dec_pairs 46 t else pair_up (split_on 44 t)))
  | FMatrixPrim => omap CPrim (strip_prefix (59 :: name ++ [61]) s)
  | FMatrixArr true =>
      if is_nil s then Some (CArr [])
      else obind (strip_prefix [59] s)
             (fun t => omap CArr (all_some (map (strip_prefix (name ++ [61])) (split_on 59 t))))
  | FMatrixArr false =>
      if is_nil s then Some (CArr []) else omap (fun t => CArr (split_on 44 t)) (strip_prefix (59 :: name ++ [61]) s)
  | FMatrixObj true =>
      if is_nil s then Some (CObj []) else obind (strip_prefix [59] s) (fun t => omap CObj (dec_pairs 59 t))
  | FMatrixObj false =>
      if is_nil s then Some (CObj [])
      else obind (strip_prefix (59 :: name ++ [61]) s) (fun t => omap CObj (pair_up (split_on 44 t)))
  | FToString => Some (CPrim s)
  | _ => None
  end.

Definition as_str (v : value) : option str := match v with VPrim (PStr s) => Some s | _ => None end.
Definition entry_str (v : value) : option str := match v with VPrim p => Some (py_str p) | _ => None end.

(* deepObject: the entries name[key] of the query dict *)
Definition deep_key (name : str) (k : str) : option str :=
  obind (strip_prefix (name ++ [91]) k) (fun t => match rev t with 93 :: rk => Some (rev rk) | _ => None end).
Fixpoint dec_deep (name : str) (it : item) : option (list (str * str)) :=
  match it with
  | [] => Some []
  | (k, v) :: r =>
      match deep_key name k with
      | Some key => match entry_str v, dec_deep name r with Some s, Some t => Some ((key, s) :: t) | _, _ => None end
      | None => dec_deep name r
      end
  end.
(* form + explode object: every entry of the query dict is a property *)
Definition dec_extracted (it : item) : option (list (str * str)) :=
  all_some (map (fun kv => omap (fun s => (fst kv, s)) (entry_str (snd kv))) it).

(* decode the container produced for one parameter *)
Definition decode (f : sfun) (name : str) (it : item) : option cvalue :=
  match f with
  | FDeepObject => omap CObj (dec_deep name it)
  | FExtracted => omap CObj (dec_extracted it)
  | FNothing | FToJson => None
  | _ => obind (d_get name it) (fun v => obind (as_str v) (dec_value f name))
  end.

(* ------------------------------------------------------------------------------------------------ *)
(* 10. executable region predicates                                                                   *)
(* ------------------------------------------------------------------------------------------------ *)
Definition shape_arr (v : value) : bool := match v with VArr _ => true | _ => false end.
Definition shape_obj (v : value) : bool := match v with VObj _ => true | _ => false end.
Definition shape_prim (v : value) : bool := match v with VPrim _ => true | _ => false end.

Definition free_of (cs : list N) (s : str) : bool := negb (existsb (fun c => mem c cs) s).
Definition items_of (v : value) : list str :=
  match v with
  | VPrim p => [py_str p]
  | VArr l => map py_str l
  | VObj l => flat_map (fun kv => [fst kv; py_str (snd kv)]) l
  end.
Definition keys_of (v : value) : list str := match v with VObj l => map fst l | _ => [] end.
Definition nonempty (v : value) : bool :=
  match v with VPrim p => negb (is_nil (py_str p)) | VArr l => negb (is_nil l) | VObj l => negb (is_nil l) end.
(* a one-element array holding the empty string is sent as the empty string *)
Definition not_single_empty (v : value) : bool :=
  match v with VArr [p] => negb (is_nil (py_str p)) | _ => true end.

(* the characters the style gives a meaning to *)
Definition delims_of (f : sfun) : list N :=
  match f with
  | FDelimited dl => [dl]
  | FCommaObj => [44]
  | FDelimObj => [44; 61]
  | FLabelPrim => []
  | FLabelArr e => [if e then 46 else 44]
  | FLabelObj e => if e then [46; 61] else [44]
  | FMatrixPrim => []
  | FMatrixArr e => [if e then 59 else 44]
  | FMatrixObj e => if e then [59; 61] else [44]
  | _ => []
  end.
Fixpoint nodup_strs (l : list str) : bool :=
  match l with [] => true | x :: r => negb (existsb (str_eqb x) r) && nodup_strs r end.
Definition shape_ok (f : sfun) (v : value) : bool :=
  match f with
  | FDelimited _ | FLabelArr _ | FMatrixArr _ => shape_arr v
  | FCommaObj | FDelimObj | FLabelObj _ | FMatrixObj _ => shape_obj v
  | FDeepObject | FExtracted => shape_obj v && nodup_strs (keys_of v)   (* keys of a Python dict are distinct *)
  | FLabelPrim | FMatrixPrim | FToString => shape_prim v
  | _ => false
  end.
(* key=value pairs are split at the FIRST =: only keys must be free of it *)
Definition keys_ok (f : sfun) (v : value) : bool :=
  match f with
  | FDelimObj | FLabelObj true | FMatrixObj true => forallb (free_of [61]) (keys_of v)
  | _ => true
  end.
Definition delimiter_free (f : sfun) (v : value) : bool :=
  forallb (free_of (match f with
                    | FDelimObj => [44] | FLabelObj true => [46] | FMatrixObj true => [59]
                    | _ => delims_of f end)) (items_of v)
  && keys_ok f v.
Definition nonempty_ok (f : sfun) (v : value) : bool :=
  match f with
  | FLabelPrim => truthy v          (* label_primitive tests the truth value: 0 and False are sent as the empty string *)
  | FMatrixPrim => match v with VPrim PNone => false | _ => true end
  | FToString => true
  | FDeepObject | FExtracted => nonempty v
  | _ => not_single_empty v
  end.
(* the matrix style without explode is written without the parameter name: outside every region *)
Definition code_follows_standard (f : sfun) : bool :=
  match f with FMatrixArr false | FMatrixObj false => false | _ => true end.

(* the exploded matrix array repeats the parameter name between semicolons *)
Definition name_ok (f : sfun) (name : str) : bool :=
  match f with FMatrixArr true => free_of [59] name | _ => true end.

Definition style_region (f : sfun) (name : str) (v : value) : bool :=
  shape_ok f v && delimiter_free f v && nonempty_ok f v && code_follows_standard f && name_ok f name.

(* path values: the generated value survives quote_all + a path-segment decoder iff it has no space *)
Definition no_space (s : str) : bool := negb (mem 32 s).

(* ------------------------------------------------------------------------------------------------ *)
(* 11. the serializer list the OpenAPI 3 specification asks for (style table, defaults included)      *)
(*     None = the combination is not defined by the specification                                    *)
(* ------------------------------------------------------------------------------------------------ *)
Definition eff_style (l : loc) (st : pstyle) : pstyle :=
  match st with
  | StNone => match l with LPath | LHeader => StSimple | LQuery | LCookie => StForm end
  | _ => st
  end.
Definition eff_explode (st_eff : pstyle) (e : option bool) : bool :=
  match e with Some b => b | None => match st_eff with StForm => true | _ => false end end.

Definition std_sfuns (d : definition) : option (list sfun) :=
  match d_content d with
  | CtJson => Some [FToJson]
  | CtOther => None
  | CtNone =>
    let st := eff_style (d_in d) (d_style d) in
    let e := eff_explode st (d_explode d) in
    match d_in d, st, d_type d with
    | LPath, StSimple, TArray => Some [FDelimited 44]
    | LPath, StSimple, TObject => Some [if e then FDelimObj else FCommaObj]
    | LPath, StSimple, TOther => Some []
    | LPath, StLabel, TObject => Some [FLabelObj e]
    | LPath, StLabel, TArray => Some [FLabelArr e]
    | LPath, StLabel, TOther => Some [FLabelPrim]
    | LPath, StMatrix, TObject => Some [FMatrixObj e]
    | LPath, StMatrix, TArray => Some [FMatrixArr e]
    | LPath, StMatrix, TOther => Some [FMatrixPrim]
    | LQuery, StForm, TArray => Some (if e then [] else [FDelimited 44])
    | LQuery, StForm, TObject => Some [if e then FExtracted else FCommaObj]
    | LQuery, StForm, TOther => Some []
    | LQuery, StSpace, TArray => Some (if e then [] else [FDelimited 32])
    | LQuery, StPipe, TArray => Some (if e then [] else [FDelimited 124])
    | LQuery, StDeep, TObject => Some [FDeepObject]
    | LHeader, StSimple, TArray => Some [FToString; FDelimited 44]
    | LHeader, StSimple, TObject => Some [FToString; if e then FDelimObj else FCommaObj]
    | LHeader, StSimple, TOther => Some [FToString]
    | LCookie, StForm, TArray => if e then None else Some [FToString; FDelimited 44]
    | LCookie, StForm, TObject => if e then None else Some [FToString; FCommaObj]
    | LCookie, StForm, TOther => Some [FToString]
    | _, _, _ => None
    end
  end.

Definition given (e : option bool) : bool := match e with Some _ => true | None => false end.
(* the keywords the dispatch reads literally are spelled out in the parameter definition *)
Definition defaults_explicit (d : definition) : bool :=
  match d_in d with
  | LPath =>
      match d_style d with
      | StNone => false
      | StSimple => match d_type d with TObject => given (d_explode d) | _ => true end
      | _ => true
      end
  | LQuery =>
      match d_type d, d_style d with
      | TObject, (StNone | StForm) => given (d_explode d)
      | TArray, (StPipe | StSpace) => given (d_explode d)
      | _, _ => true
      end
  | LHeader => match d_type d with TObject => given (d_explode d) | _ => true end
  | LCookie => true
  end.

(* ------------------------------------------------------------------------------------------------ *)
(* 12. RequestsTransport.serialize_case (transport/requests.py:58-66): the query sent is case.query   *)
(*     where, if some value equals the empty dict, a clone is made in which exactly those values      *)
(*     are replaced by the empty string                                                               *)
(* ------------------------------------------------------------------------------------------------ *)
Definition is_empty_obj (v : value) : bool := match v with VObj [] => true | _ => false end.
Definition requests_params (q : item) : item :=
  if existsb (fun kv => is_empty_obj (snd kv)) q
  then map (fun kv => if is_empty_obj (snd kv) then (fst kv, sval []) else kv) q
  else q.
(* what the rule is meant to be: entry by entry *)
Definition blank_empty_obj (kv : str * value) : str * value :=
  (fst kv, if is_empty_obj (snd kv) then sval [] else snd kv).

(* ------------------------------------------------------------------------------------------------ *)
(* 13. coverage phase: Template._serialize on the path and query containers                           *)
(*     (generation/hypothesis/builder.py:305-323).  kwargs is a SHALLOW copy of the template; the     *)
(*     style serializer (since fcf952d0) and quote_all (since 06d349e9) are given a copy of the       *)
(*     container, _stringify_value builds a new dict: the template is never modified.                 *)
(* ------------------------------------------------------------------------------------------------ *)
Definition stringify_v (v : value) : value :=                  (* containers other than query *)
  match v with
  | VPrim p => sval (js_str p)
  | VArr l => sval (join [44] (map js_str l))
  | VObj l => VObj (map (fun kv => (fst kv, PStr (js_str (snd kv)))) l)
  end.
Definition stringify_item (it : item) : item := map (fun kv => (fst kv, stringify_v (snd kv))) it.
Definition stringify_q_v (v : value) : value :=                (* query: a list stays a list *)
  match v with
  | VPrim p => sval (js_str p)
  | VArr l => VArr (map (fun p => PStr (js_str p)) l)
  | VObj l => VObj (map (fun kv => (fst kv, PStr (js_str (snd kv)))) l)
  end.
Definition stringify_q_item (it : item) : item := map (fun kv => (fst kv, stringify_q_v (snd kv))) it.

(* a step = (template after the case, container of the case) *)
Definition step := item -> option (item * item).
(* container of the (n+1)-th case built from one template *)
Fixpoint iter_cases (st : step) (n : nat) (tmpl : item) : option item :=
  match st tmpl with
  | None => None
  | Some (t', out) => match n with O => Some out | S m => iter_cases st m t' end
  end.

Definition path_output (defs : list definition) (tmpl : item) : option item :=
  obind (serialize3 defs tmpl) (fun t1 => omap stringify_item (quote_all t1)).
Definition query_output (defs : list definition) (tmpl : item) : option item :=
  omap stringify_q_item (serialize3 defs tmpl).

Definition template_step (defs : list definition) : step := fun tmpl => omap (fun out => (tmpl, out)) (path_output defs tmpl).
Definition template_query_step (defs : list definition) : step := fun tmpl => omap (fun out => (tmpl, out)) (query_output defs tmpl).
Definition template_nth (defs : list definition) : nat -> item -> option item := iter_cases (template_step defs).
Definition template_query_nth (defs : list definition) : nat -> item -> option item := iter_cases (template_query_step defs).

(* SENTINELS - earlier rules, kept only for the witnesses that tell them apart from the present one; not used by the correspondence.
   (a) before fcf952d0 (finding C06-F10, fixed): the style serializer assigned into the template itself *)
Definition template_step_ser_inplace (defs : list definition) : step :=
  fun tmpl => obind (serialize3 defs tmpl) (fun t1 => omap (fun t2 => (t1, stringify_item t2)) (quote_all t1)).
Definition template_query_step_ser_inplace (defs : list definition) : step :=
  fun tmpl => omap (fun t1 => (t1, stringify_q_item t1)) (serialize3 defs tmpl).
(* (b) before 06d349e9 (finding C06-F9, fixed): quote_all assigned into the template as well *)
Definition template_step_inplace (defs : list definition) : step :=
  fun tmpl => obind (serialize3 defs tmpl) (fun t1 => omap (fun t2 => (t2, stringify_item t2)) (quote_all t1)).
Definition template_nth_ser_inplace (defs : list definition) := iter_cases (template_step_ser_inplace defs).
Definition template_query_nth_ser_inplace (defs : list definition) := iter_cases (template_query_step_ser_inplace defs).
Definition template_nth_inplace (defs : list definition) := iter_cases (template_step_inplace defs).

(* values that quote_all leaves alone *)
Definition quote_stable (s : str) : bool :=
  forallb always_safe s && negb (str_eqb s [46]) && negb (str_eqb s [46; 46]).

(* ------------------------------------------------------------------------------------------------ *)
(* 12. configuration histories on ONE schema object (schemas.py, specs/openapi/schemas.py, transport/wsgi.py, asgi.py)
   The base URL, the location, servers/basePath and the application are changed IN PLACE (schema.configure(..),
   schema.base_url = .., raw_schema edits) between sends.  Every send reads the configuration that is current at
   that moment; the only state a send takes from the past is the operation object (APIOperation.base_url and .app
   are set by make_operation: fresh from get_all_operations, cached per path by schema[path][method]).          *)
(* ------------------------------------------------------------------------------------------------ *)
Inductive transport := TRequests | TWsgi | TAsgi.
Definition transport_eqb (a b : transport) : bool :=
  match a, b with TRequests, TRequests | TWsgi, TWsgi | TAsgi, TAsgi => true | _, _ => false end.

(* a URL text split the way urlsplit splits it: prefix = empty or scheme://netloc (never ends with a slash),
   path = everything after it (no query, no fragment).  The text is prefix ++ path. *)
Record burl := { bu_prefix : str; bu_path : str }.
Definition burl_text (u : burl) : str := bu_prefix u ++ bu_path u.

(* _get_base_path: Swagger 2 basePath (default /), OpenAPI 3 path of servers[0].url (default /) *)
Inductive spec := SpV2 (base_path : option str) | SpV3 (servers : list burl).
Definition spec_base_path (sp : spec) : str :=
  match sp with
  | SpV2 (Some p) => p
  | SpV2 None => [47]
  | SpV3 (s :: _) => bu_path s
  | SpV3 [] => [47]
  end.

Record config := { cf_base : option burl; cf_loc : str; cf_spec : spec; cf_app : transport }.

Definition add_slash (p : str) : str := if ends_with_slash p then p else p ++ [47].
Definition rstrip_slash (s : str) : str := rev (lstrip_slash (rev s)).
(* urlunsplit((scheme, netloc, path, .., ..)): a slash goes between a netloc and a non-empty relative path *)
Definition unsplit (prefix path : str) : burl :=
  {| bu_prefix := prefix;
     bu_path := if negb (is_nil prefix) && negb (is_nil path) && negb (starts_with [47] path) then 47 :: path else path |}.

(* BaseSchema.base_path (schemas.py:233): `if self.base_url:` is a truth test, the empty text falls back to the spec *)
Definition cfg_base_path (c : config) : str :=
  add_slash (match cf_base c with
             | Some u => if is_nil (burl_text u) then spec_base_path (cf_spec c) else bu_path u
             | None => spec_base_path (cf_spec c)
             end).
(* BaseSchema.get_base_url (schemas.py:254): `is not None` test, rstrip of slashes; else _build_base_url *)
Definition cfg_base_url (c : config) : burl :=
  match cf_base c with
  | Some u => {| bu_prefix := bu_prefix u; bu_path := rstrip_slash (bu_path u) |}
  | None => unsplit (cf_loc c) (spec_base_path (cf_spec c))
  end.
(* normalize_base_url (transport/prepare.py:57) *)
Definition s_http_localhost : str := [104;116;116;112;58;47;47;108;111;99;97;108;104;111;115;116].
Definition normalize_base (u : burl) : burl :=
  if is_nil (bu_prefix u) then unsplit s_http_localhost (bu_path u) else u.

(* path component of urljoin(base, rel) for a base whose path bpath ends with a slash; netloc tells whether the base
   has a netloc (urlunparse then puts a slash in front of a path that lost its leading empty segment) *)
Definition urljoin_path (netloc : bool) (bpath path : str) : str :=
  if is_nil path then bpath
  else
    let segments := filter_middle (split_on 47 bpath ++ split_on 47 path) in
    let resolved := resolve_dots segments [] in
    let resolved' := if is_dot (last segments []) || is_dotdot (last segments []) then resolved ++ [[]] else resolved in
    let p := join [47] resolved' in
    match p with [] => [47] | 47 :: _ => p | _ => if netloc then 47 :: p else p end.
(* get_full_path(base_path, path) (schemas.py:64) = unquote(urljoin(base_path, quote(path.lstrip(/)))) *)
Definition get_full_path (base_path path : str) : str := urljoin_path false base_path (lstrip_slash path).
(* path component of prepare_url for a base URL with a netloc *)
Definition prepare_url_path (u : burl) (formatted : str) : str :=
  urljoin_path true (if ends_with_slash (burl_text u) then bu_path u else bu_path u ++ [47]) (lstrip_slash formatted).

(* what make_operation copies into the APIOperation *)
Record opsnap := { os_base : burl; os_app : transport }.
Definition make_op (c : config) : opsnap := {| os_base := cfg_base_url c; os_app := cf_app c |}.

Inductive how := Fresh | Cached.
Inductive event :=
  | EvBase (b : option burl)        (* schema.configure(base_url=b) / schema.base_url = b *)
  | EvLoc (l : str)                 (* schema.configure(location=l + /openapi.json); empty = None *)
  | EvSpec (sp : spec)              (* raw_schema[servers] / raw_schema[basePath] replaced *)
  | EvApp (t : transport)           (* schema.configure(app=..) *)
  | EvSend (h : how) (tmpl : str) (params : item)   (* operation fresh / from the cache, Case(path_parameters).call() *)
  | EvFullPath (tmpl : str)         (* operation.full_path / schema.get_full_path(tmpl) *)
  | EvBasePath.                     (* schema.base_path *)
(* wire = percent-decoded path the application receives; reported = response.request.url (decoded) *)
Inductive obs := ONone | OSent (wire reported : str) | ORaises | OUnmodelled | OPath (p : str).

(* memo = a remembered base path.  The code reads the configuration every time (read_live).  read_memo is the
   SENTINEL rule (base_path computed once per schema object), kept for the witness that tells the two apart. *)
Record hstate := { hs_cfg : config; hs_cache : list (str * opsnap); hs_memo : option str }.
Definition reader := config -> option str -> str * option str.
Definition read_live : reader := fun c memo => (cfg_base_path c, memo).
Definition read_memo : reader := fun c memo =>
  match memo with Some p => (p, memo) | None => (cfg_base_path c, Some (cfg_base_path c)) end.

Definition url_of (u : burl) (f : str) : str := bu_prefix u ++ prepare_url_path u f.
Definition send_obs (bp : str) (c : config) (o : opsnap) (f : str) : obs :=
  if negb (transport_eqb (os_app o) (cf_app c)) then OUnmodelled
  else match cf_app c with
       | TRequests =>
           (* validate_vanilla_requests_kwargs: no netloc - RuntimeError *)
           if is_nil (bu_prefix (os_base o)) then ORaises
           else OSent (prepare_url_path (os_base o) f) (url_of (os_base o) f)
       | TWsgi =>
           (* path = schema.get_full_path(..): the schema, not the operation; the reported request is rebuilt from operation.base_url *)
           OSent (get_full_path bp f) (url_of (normalize_base (os_base o)) f)
       | TAsgi =>
           OSent (prepare_url_path (normalize_base (os_base o)) f) (url_of (normalize_base (os_base o)) f)
       end.
Definition reads_base_path (c : config) : bool := match cf_app c with TWsgi => true | _ => false end.

Definition set_cfg (s : hstate) (c : config) : hstate := {| hs_cfg := c; hs_cache := hs_cache s; hs_memo := hs_memo s |}.
Definition cfg_update (c : config) (e : event) : config :=
  match e with
  | EvBase b => {| cf_base := b; cf_loc := cf_loc c; cf_spec := cf_spec c; cf_app := cf_app c |}
  | EvLoc l => {| cf_base := cf_base c; cf_loc := l; cf_spec := cf_spec c; cf_app := cf_app c |}
  | EvSpec sp => {| cf_base := cf_base c; cf_loc := cf_loc c; cf_spec := sp; cf_app := cf_app c |}
  | EvApp t => {| cf_base := cf_base c; cf_loc := cf_loc c; cf_spec := cf_spec c; cf_app := t |}
  | _ => c
  end.
(* the operation object a send works with, and the cache afterwards *)
Definition op_used (s : hstate) (h : how) (tmpl : str) : opsnap :=
  match h with
  | Fresh => make_op (hs_cfg s)
  | Cached => match d_get tmpl (hs_cache s) with Some o => o | None => make_op (hs_cfg s) end
  end.
Definition cache_after (s : hstate) (h : how) (tmpl : str) : list (str * opsnap) :=
  match h with
  | Fresh => hs_cache s
  | Cached => match d_get tmpl (hs_cache s) with Some _ => hs_cache s | None => d_set tmpl (make_op (hs_cfg s)) (hs_cache s) end
  end.
Definition hstep_with (rd : reader) (s : hstate) (e : event) : hstate * obs :=
  let c := hs_cfg s in
  match e with
  | EvBase _ | EvLoc _ | EvSpec _ | EvApp _ => (set_cfg s (cfg_update c e), ONone)
  | EvBasePath =>
      ({| hs_cfg := c; hs_cache := hs_cache s; hs_memo := snd (rd c (hs_memo s)) |}, OPath (fst (rd c (hs_memo s))))
  | EvFullPath tmpl =>
      ({| hs_cfg := c; hs_cache := hs_cache s; hs_memo := snd (rd c (hs_memo s)) |}, OPath (get_full_path (fst (rd c (hs_memo s))) tmpl))
  | EvSend h tmpl params =>
      let o := op_used s h tmpl in
      let cache := cache_after s h tmpl in
      match prepare_path tmpl params with
      | FOk f =>
          if transport_eqb (os_app o) (cf_app c) && reads_base_path c then
            ({| hs_cfg := c; hs_cache := cache; hs_memo := snd (rd c (hs_memo s)) |}, send_obs (fst (rd c (hs_memo s))) c o f)
          else ({| hs_cfg := c; hs_cache := cache; hs_memo := hs_memo s |}, send_obs (cfg_base_path c) c o f)
      | FInvalidSchema => ({| hs_cfg := c; hs_cache := cache; hs_memo := hs_memo s |}, ORaises)
      | FUnmodelled => ({| hs_cfg := c; hs_cache := cache; hs_memo := hs_memo s |}, OUnmodelled)
      end
  end.
Fixpoint run_with (rd : reader) (s : hstate) (h : list event) : list obs :=
  match h with
  | [] => []
  | e :: r => let (s', o) := hstep_with rd s e in o :: run_with rd s' r
  end.
Fixpoint exec_with (rd : reader) (s : hstate) (h : list event) : hstate :=
  match h with [] => s | e :: r => exec_with rd (fst (hstep_with rd s e)) r end.
Definition hstep := hstep_with read_live.
Definition run_history := run_with read_live.
Definition exec_history := exec_with read_live.
Definition run_history_memo := run_with read_memo.     (* SENTINEL *)
Definition init_state (c : config) : hstate := {| hs_cfg := c; hs_cache := []; hs_memo := None |}.

(* the property: the path on the wire = current base path joined with the filled template *)
Definition expected_path (c : config) (f : str) : str := get_full_path (cfg_base_path c) f.
(* the last write of every configuration field wins *)
Definition final_cfg (c : config) (h : list event) : config := fold_left cfg_update h c.

Definition last_write {A} (pick : event -> option A) (h : list event) (a0 : A) : A :=
  fold_left (fun a e => match pick e with Some x => x | None => a end) h a0.
Definition pick_base (e : event) : option (option burl) := match e with EvBase b => Some b | _ => None end.
Definition pick_loc (e : event) : option str := match e with EvLoc l => Some l | _ => None end.
Definition pick_spec (e : event) : option spec := match e with EvSpec sp => Some sp | _ => None end.
Definition pick_app (e : event) : option transport := match e with EvApp t => Some t | _ => None end.
(* the prefix of the reported request URL *)
Definition reported_prefix (c : config) : str :=
  match cf_app c with
  | TRequests => bu_prefix (cfg_base_url c)
  | _ => bu_prefix (normalize_base (cfg_base_url c))
  end.
Definition cannot_send (c : config) : bool :=     (* the requests transport needs a netloc *)
  match cf_app c with TRequests => is_nil (bu_prefix (cfg_base_url c)) | _ => false end.
Definition obs_wire (o : obs) : option str := match o with OSent w _ => Some w | _ => None end.
Definition obs_reported (o : obs) : option str := match o with OSent _ r => Some r | _ => None end.

(* regions *)
(* events that take an operation object from the cache of schema[path][method] *)
Definition uses_cache (e : event) : bool := match e with EvSend Cached _ _ => true | _ => false end.
Definition no_dotdot (s : str) : bool := negb (existsb is_dotdot (split_on 47 s)).
(* the configured base path: empty or absolute, no trailing double slash; its slash-terminated form has no dot-dot segment *)
Definition cfg_path (c : config) : str :=
  match cf_base c with Some u => bu_path u | None => spec_base_path (cf_spec c) end.
Definition cfg_ok (c : config) : bool :=
  match cf_base c with
  | Some u => negb (is_nil (burl_text u)) && negb (ends_with_slash (bu_prefix u))
  | None => negb (ends_with_slash (cf_loc c)) && starts_with [47] (cfg_path c)
  end
  && (is_nil (cfg_path c) || starts_with [47] (cfg_path c))
  && negb (starts_with [47;47] (rev (cfg_path c)))
  && no_dotdot (cfg_base_path c).
(* the operation object in hand was made under the present configuration *)
Definition burl_eqb (a b : burl) : bool := str_eqb (bu_prefix a) (bu_prefix b) && str_eqb (bu_path a) (bu_path b).
Definition op_current (c : config) (o : opsnap) : bool :=
  burl_eqb (os_base o) (cfg_base_url c) && transport_eqb (os_app o) (cf_app c).

(* ------------------------------------------------------------------------------------------------ *)
(* 14. exchanges: RESPONSE-side state that a transport may carry from one exchange to the next
   (transport/requests.py:100-121, transport/wsgi.py:58-125, transport/asgi.py:15-22, python/wsgi.py, python/asgi.py,
   openapi/loaders.py:21-48).  An exchange = one request that reaches the application and the answer of the application
   (Set-Cookie, a redirect, Connection: close).  The only client objects that live longer than one exchange are the ones
   the USER hands in (case.call(session=..)): without one, RequestsTransport.send makes a requests.Session and closes
   it, WSGITransport.send asks wsgi.get_client(app) for a NEW werkzeug Client, ASGITransport.send opens a NEW test
   client (and drops the session argument), the loaders make their own client.  client_rule says whether get_client
   hands out one client per application instead: fresh_clients is the code, shared_wsgi_client a SENTINEL.          *)
(* ------------------------------------------------------------------------------------------------ *)
Definition cookies := list (str * str).
Definition s_cookie : str := [67;111;111;107;105;101].
Definition s_host : str := [72;111;115;116].
(* Cookie header text: name=value joined with semicolon and space (http.cookiejar / werkzeug, values need no quoting) *)
Definition render_cookies (cs : cookies) : str := join [59;32] (map (fun kv => fst kv ++ [61] ++ snd kv) cs).
Definition ci_remove (k : str) (h : headers) : headers := filter (fun kv => negb (ci_eqb k (fst kv))) h.
Fixpoint d_remove_keys {A} (ks : list str) (d : list (str * A)) : list (str * A) :=
  match ks with [] => d | k :: r => d_remove_keys r (d_pop k d) end.

(* a case without a body: headers and cookies of the case, headers= and cookies= of case.call(..) *)
Record xcase := { xc_headers : option headers; xc_cookies : option cookies;
                  xc_call_headers : option (list (str * str)); xc_call_cookies : option cookies; xc_id : str }.
(* what the application answers *)
Record xresp := { xr_set : cookies; xr_redirect : bool; xr_close : bool }.
Inductive xevent :=
  | XLoad (t : transport) (r : xresp)                                   (* from_url / from_wsgi / from_asgi *)
  | XSend (t : transport) (sess : option N) (c : xcase) (r : xresp).    (* case.call(session=.., headers=.., cookies=..) *)
(* the surroundings: default headers of a requests session (requests.utils.default_headers, also the ASGI test client),
   the User-Agent of schemathesis, the host the client talks to (load = the loaders own client) *)
Record xenv := { xe_std : headers; xe_ua : str; xe_host : transport -> bool -> str }.

Definition or_nil {A} (o : option (list A)) : list A := match o with Some l => l | None => [] end.
(* {**(case.cookies or {}), **(cookies or {})} (wsgi.py:79) = merge_at(data, cookies, cookies) (requests.py:76) *)
Definition xown (c : xcase) : cookies := d_update (or_nil (xc_cookies c)) (or_nil (xc_call_cookies c)).
Definition xprep (e : xenv) (c : xcase) : headers := prepare_headers (xc_headers c) (xc_call_headers c) (xe_ua e) (xc_id c).

(* the cookies a client object sends: a werkzeug Client puts the cookies of the case INTO its jar (cookie_handler:
   set_cookie replaces an entry of the same name in place); a requests session sends its jar (cookies received from
   this host) followed by the cookies of the request (another domain: no replacement) *)
Definition wire_cookies (t : transport) (own jar : cookies) : cookies :=
  match t with TWsgi => d_update jar own | _ => jar ++ own end.
(* the header set the application receives (names outside Host, Content-Type, Content-Length).
   werkzeug: HTTP_HOST, then every given header; HTTP_COOKIE is rebuilt from the jar of the client, a Cookie header
   among the given ones is dropped (test.py _add_cookies_to_wsgi).  requests: session defaults overridden by the request
   headers (merge_setting); the cookie jar adds a Cookie header unless there is one (cookiejar.add_cookie_header);
   http.client adds Host. *)
Definition wire (e : xenv) (t : transport) (host : str) (prep : headers) (own jar : cookies) : headers :=
  let cs := wire_cookies t own jar in
  match t with
  | TWsgi =>
      let h := ci_remove s_cookie (ci_update [(s_host, host)] prep) in
      if is_nil cs then h else h ++ [(s_cookie, render_cookies cs)]
  | _ =>
      let h := ci_update (xe_std e) prep in
      let h' := match ci_get s_cookie h with
                | Some _ => h
                | None => if is_nil cs then h else h ++ [(s_cookie, render_cookies cs)]
                end in
      ci_setdefault s_host host h'
  end.
(* the jar of a client object after the exchange: Set-Cookie (Path=/) entries are stored; cookie_handler deletes the
   cookies of the case afterwards, whatever the answer stored under those names *)
Definition jar_after (t : transport) (jar own set : cookies) : cookies :=
  match t with
  | TWsgi => d_remove_keys (map fst own) (d_update (d_update jar own) set)
  | _ => d_update jar set
  end.

(* client objects that outlive an exchange: (transport, Some i) = the i-th session object of the user,
   (transport, None) = the one client per application of a client_rule that shares *)
Definition slot := (transport * option N)%type.
Definition slot_eqb (a b : slot) : bool :=
  transport_eqb (fst a) (fst b) &&
  match snd a, snd b with None, None => true | Some x, Some y => x =? y | _, _ => false end.
Definition jars := list (slot * cookies).
Fixpoint jar_get (k : slot) (js : jars) : cookies :=
  match js with [] => [] | (k', j) :: r => if slot_eqb k k' then j else jar_get k r end.
Fixpoint jar_put (k : slot) (j : cookies) (js : jars) : jars :=
  match js with
  | [] => [(k, j)]
  | (k', j') :: r => if slot_eqb k k' then (k, j) :: r else (k', j') :: jar_put k j r
  end.
Definition client_rule := transport -> bool.
Definition fresh_clients : client_rule := fun _ => false.                                            (* the code *)
Definition shared_wsgi_client : client_rule := fun t => match t with TWsgi => true | _ => false end. (* SENTINEL *)

Definition xslot (rule : client_rule) (ev : xevent) : option slot :=
  match ev with
  | XLoad t _ => if rule t then Some (t, None) else None
  | XSend TAsgi _ _ _ => if rule TAsgi then Some (TAsgi, None) else None   (* asgi.py:21: session=client, the argument is dropped *)
  | XSend t (Some i) _ _ => Some (t, Some i)
  | XSend t None _ _ => if rule t then Some (t, None) else None
  end.
Definition xreq (e : xenv) (ev : xevent) (jar : cookies) : headers :=
  match ev with
  | XLoad t _ => wire e t (xe_host e t true) [(h_user_agent, xe_ua e)] [] jar
  | XSend t _ c _ => wire e t (xe_host e t false) (xprep e c) (xown c) jar
  end.
Definition xjar_after (ev : xevent) (jar : cookies) : cookies :=
  match ev with
  | XLoad t r => jar_after t jar [] (xr_set r)
  | XSend t _ c r => jar_after t jar (xown c) (xr_set r)
  end.
Definition xresp_of (ev : xevent) : xresp := match ev with XLoad _ r => r | XSend _ _ _ r => r end.
(* one exchange: the headers the application receives, and the client objects afterwards *)
Definition xstep (rule : client_rule) (e : xenv) (js : jars) (ev : xevent) : jars * headers :=
  match xslot rule ev with
  | None => (js, xreq e ev [])
  | Some k => (jar_put k (xjar_after ev (jar_get k js)) js, xreq e ev (jar_get k js))
  end.
Fixpoint xrun (rule : client_rule) (e : xenv) (js : jars) (h : list xevent) : list headers :=
  match h with [] => [] | ev :: r => snd (xstep rule e js ev) :: xrun rule e (fst (xstep rule e js ev)) r end.
Fixpoint xexec (rule : client_rule) (e : xenv) (js : jars) (h : list xevent) : jars :=
  match h with [] => js | ev :: r => xexec rule e (fst (xstep rule e js ev)) r end.
(* the request of an exchange that happens first, on clients that have seen nothing *)
Definition xalone (e : xenv) (ev : xevent) : headers := xreq e ev [].
(* events that go through the same long-lived client object *)
Definition same_slot (rule : client_rule) (ev ev' : xevent) : bool :=
  match xslot rule ev, xslot rule ev' with Some a, Some b => slot_eqb a b | _, _ => false end.
Definition no_session (ev : xevent) : bool := match ev with XSend _ (Some _) _ _ => false | _ => true end.

(* regions *)
(* a Python dict has every key once *)
Definition dict_ok {A} (d : option (list (str * A))) : bool := nodup_strs (map fst (or_nil d)).
(* the case (with the headers of the call) has no Cookie header of its own *)
Definition no_cookie_header (e : xenv) (c : xcase) : bool :=
  match ci_get s_cookie (xprep e c) with None => true | Some _ => false end.
Definition std_has_no_cookie (e : xenv) : bool := match ci_get s_cookie (xe_std e) with None => true | Some _ => false end.

(* the transport of an exchange, the Cookie header made of a cookie list, the cookies an exchange brings itself, the
   cookies a client object sends in an exchange *)
Definition xtransport (ev : xevent) : transport := match ev with XLoad t _ => t | XSend t _ _ _ => t end.
Definition cookie_header_of (cs : cookies) : option str := if is_nil cs then None else Some (render_cookies cs).
Definition xown_of (ev : xevent) : cookies := match ev with XLoad _ _ => [] | XSend _ _ c _ => xown c end.
Definition xcookies_sent (rule : client_rule) (ev : xevent) (js : jars) : cookies :=
  match ev with
  | XLoad t _ => wire_cookies t [] (match xslot rule ev with Some k => jar_get k js | None => [] end)
  | XSend t _ c _ => wire_cookies t (xown c) (match xslot rule ev with Some k => jar_get k js | None => [] end)
  end.

(* ------------------------------------------------------------------------------------------------ *)
(* 15. application/x-www-form-urlencoded bodies                                                       *)
(*     core/transport.py:16 prepare_urlencoded; specs/openapi/_hypothesis.py:130 (generation phase:   *)
(*     strategy.map(prepare_urlencoded)); generation/hypothesis/builder.py:213 adjust_urlencoded_payload *)
(*     (examples and coverage phases); transport/requests.py:216 and transport/wsgi.py:151            *)
(*     urlencoded_serializer (data = the value AS IT IS; the ASGI transport copies the serializers of  *)
(*     the requests transport); requests 2.32 models.py _encode_params + urllib.parse.urlencode with   *)
(*     doseq; werkzeug 3.1 test.py EnvironBuilder (_iter_data, form MultiDict) + urls.py _urlencode   *)
(* ------------------------------------------------------------------------------------------------ *)
(* a form body value: a scalar, an object of scalars, a Python 2-tuple, a list *)
Inductive fval := FLeaf (p : pyv) | FDict (d : list (str * pyv)) | FTuple (a b : fval) | FList (l : list fval).

Definition s_arbitrary : str := [97;114;98;105;116;114;97;114;121;45;118;97;108;117;101].   (* arbitrary-value *)
(* one item of a list: the entries of a dict become (key, value) tuples, anything else becomes the KEY of a pair *)
Definition prep_item (it : fval) : list fval :=
  match it with
  | FDict d => map (fun kv => FTuple (FLeaf (PStr (fst kv))) (FLeaf (snd kv))) d
  | other => [FTuple other (FLeaf (PStr s_arbitrary))]
  end.
(* prepare_urlencoded: only lists are rewritten *)
Definition prepare_urlencoded (v : fval) : fval :=
  match v with FList l => FList (flat_map prep_item l) | other => other end.

(* what urlencoded_serializer hands to the client library as data=.  THE CODE: the value as it is (all three transports).
   SENTINEL (the seeded rule C06_e, not used by the correspondence): the serializer prepares the value once more. *)
Definition form_ser_rule := fval -> fval.
Definition ser_as_is : form_ser_rule := fun v => v.
Definition ser_prepares_again : form_ser_rule := prepare_urlencoded.

(* quote_plus(s, safe) = quote(s, safe + space).replace(space, +) *)
Definition fq (safe : N -> bool) (s : str) : option str := omap sp_to_plus (quote_with (fun b => is_sp b || safe b) s).
(* werkzeug.urls._urlencode: safe = !$'()*,/:;?@ ; requests -> urllib.parse.urlencode: no extra safe characters *)
Definition werkzeug_safe (b : N) : bool := mem b [33;36;39;40;41;42;44;47;58;59;63;64].
Definition form_safe (t : transport) : N -> bool := match t with TWsgi => werkzeug_safe | _ => no_safe end.
Definition enc_pair (safe : N -> bool) (kv : str * str) : option str :=
  match fq safe (fst kv), fq safe (snd kv) with Some k, Some v => Some (k ++ 61 :: v) | _, _ => None end.
Definition urlencode (safe : N -> bool) (l : list (str * str)) : option str :=
  omap (join [38]) (all_some (map (enc_pair safe) l)).

(* repr() of a str without quotes, backslashes, control or non-ASCII characters; str() of a 2-tuple of scalars *)
Definition repr_plain (s : str) : bool :=
  forallb (fun c => (32 <=? c) && (c <? 127) && negb (c =? 39) && negb (c =? 92)) s.
Definition py_repr_leaf (p : pyv) : option str :=
  match p with PStr s => if repr_plain s then Some (39 :: s ++ [39]) else None | _ => Some (py_str p) end.
(* str(key): urlencode applies str() to a key that is neither str nor bytes.  None = outside the model *)
Definition key_text (k : fval) : option str :=
  match k with
  | FLeaf p => Some (py_str p)
  | FTuple (FLeaf a) (FLeaf b) =>
      match py_repr_leaf a, py_repr_leaf b with
      | Some x, Some y => Some (40 :: x ++ [44; 32] ++ y ++ [41])
      | _, _ => None
      end
  | _ => None
  end.
(* one (key, value) of the data: a None value is dropped (requests: if v is not None; werkzeug: x[1] is not None),
   a scalar gives one pair of texts; lists / tuples / dicts as values are outside the model *)
Definition pair_text (k v : fval) : option (list (str * str)) :=
  match key_text k, v with
  | Some _, FLeaf PNone => Some []
  | Some kt, FLeaf p => Some [(kt, py_str p)]
  | _, _ => None
  end.
(* to_key_val_list / dict.items(): a dict gives its items, a list must hold 2-tuples *)
Definition kv_items_of (data : fval) : option (list (fval * fval)) :=
  match data with
  | FDict d => Some (map (fun kv => (FLeaf (PStr (fst kv)), FLeaf (snd kv))) d)
  | FList l => all_some (map (fun it => match it with FTuple a b => Some (a, b) | _ => None end) l)
  | _ => None
  end.
Definition texts_of (items : list (fval * fval)) : option (list (str * str)) :=
  omap (@concat _) (all_some (map (fun kv => pair_text (fst kv) (snd kv)) items)).
Inductive fwire := WBody (s : str) | WRaises | WEncodeError | WUnmodelled.
Definition encode_items (safe : N -> bool) (items : list (fval * fval)) : fwire :=
  match texts_of items with
  | None => WUnmodelled
  | Some ps => match urlencode safe ps with Some s => WBody s | None => WEncodeError end
  end.
(* the bytes of the body the application receives for data= (an empty dict / list: no body at all = the empty text).
   werkzeug: _iter_data calls data.items(): a non-empty LIST raises AttributeError *)
Definition form_wire (t : transport) (data : fval) : fwire :=
  match t, data with
  | TWsgi, FList [] => WBody []
  | TWsgi, FList _ => WRaises
  | _, _ => match kv_items_of data with Some items => encode_items (form_safe t) items | None => WUnmodelled end
  end.
(* generated value -> case body (prepared ONCE by the generation / examples / coverage phase) -> serializer -> wire *)
Definition form_path (rule : form_ser_rule) (t : transport) (v : fval) : fwire := form_wire t (rule (prepare_urlencoded v)).

(* DECODER (WHATWG URL / HTML application/x-www-form-urlencoded parsing, = urllib.parse.parse_qsl with keep_blank_values):
   split at the ampersand, each field at its first equals sign (no equals sign: blank value), percent-decode with plus = space *)
Definition decode_field (f : str) : option (str * str) :=
  match split_first 61 f [] with
  | Some (k, v) => obind (pct_decode_form k) (fun k' => omap (pair k') (pct_decode_form v))
  | None => omap (fun k' => (k', [])) (pct_decode_form f)
  end.
Definition decode_form (s : str) : option (list (str * str)) := all_some (map decode_field (split_list 38 s)).

(* SPECIFICATION: the (name, text) pairs a form value stands for: an object gives its fields in order, an array of objects the
   fields of its items in order; a null field is absent; scalars are read up to string coercion *)
Definition leaf_pair (k : str) (p : pyv) : list (str * str) := match p with PNone => [] | _ => [(k, py_str p)] end.
Definition pairs_of_dict (d : list (str * pyv)) : list (str * str) := flat_map (fun kv => leaf_pair (fst kv) (snd kv)) d.
Definition dicts_of (l : list fval) : option (list (list (str * pyv))) :=
  all_some (map (fun it => match it with FDict d => Some d | _ => None end) l).
Definition pairs_of (v : fval) : option (list (str * str)) :=
  match v with
  | FDict d => Some (pairs_of_dict d)
  | FList l => omap (fun ds => pairs_of_dict (concat ds)) (dicts_of l)
  | _ => None
  end.

(* regions *)
(* the modelled fragment of form values: an object of scalars or an array of such objects *)
Definition form_shape (v : fval) : bool := match pairs_of v with Some _ => true | None => false end.
(* every text can be encoded (no lone surrogate) *)
Definition pyv_scalar (p : pyv) : bool := forallb is_scalar (py_str p).
Definition dict_scalar (d : list (str * pyv)) : bool := forallb (fun kv => forallb is_scalar (fst kv) && pyv_scalar (snd kv)) d.
Definition form_encodable (v : fval) : bool :=
  match v with
  | FDict d => dict_scalar d
  | FList l => match dicts_of l with Some ds => dict_scalar (concat ds) | None => false end
  | _ => false
  end.
(* werkzeug cannot take a non-empty list as data= (finding F14) *)
Definition wsgi_array_form (t : transport) (v : fval) : bool :=
  match t, v with TWsgi, FList (_ :: _) => true | _, _ => false end.

(* ------------------------------------------------------------------------------------------------ *)
(* 16. the three producers of a path / query container (added after seed C06_g)                      *)
(*     fuzzing:  get_parameters_strategy  = serialize -> is_valid_* filter -> quote_all -> jsonify   *)
(*     examples: get_strategies_from_examples.make_serializer (specs/openapi/examples.py:56-74)      *)
(*               = the style serializer ONLY: no validity filter, no quote_all, no jsonify           *)
(*     coverage: Template._serialize (section 13) = serialize -> quote_all -> _stringify_value:      *)
(*               no validity filter either                                                            *)
(*     So a text that is_valid_path drops in the fuzzing phase (the empty string) IS sent by the     *)
(*     other two phases.                                                                             *)
(* ------------------------------------------------------------------------------------------------ *)
Inductive phase := PhFuzz | PhExamples | PhCoverage.
Definition phase_path (ph : phase) (defs : list definition) (it : item) : gen_res :=
  match ph with
  | PhFuzz => generated_path defs it
  | PhExamples => match serialize3 defs it with Some it1 => GOk it1 | None => GUnmodelled end
  | PhCoverage =>
      match serialize3 defs it with
      | None => GUnmodelled
      | Some it1 => match quote_all it1 with Some it2 => GOk (stringify_item it2) | None => GRaises end
      end
  end.
Definition phase_query (ph : phase) (defs : list definition) (it : item) : gen_res :=
  match ph with
  | PhFuzz => generated_query defs it
  | PhExamples => match serialize3 defs it with Some it1 => GOk it1 | None => GUnmodelled end
  | PhCoverage => match serialize3 defs it with Some it1 => GOk (stringify_q_item it1) | None => GUnmodelled end
  end.

(* the text that replaces {name} in the path template: str.format of the entry *)
Definition path_text (name : str) (r : gen_res) : option str :=
  match r with GOk it => obind (d_get name it) entry_str | _ => None end.
(* what a server reads: percent-decode the segment, then the decoder of the declared style (None = no style serializer) *)
Definition read_segment (f : option sfun) (name : str) (seg : str) : option cvalue :=
  obind (pct_decode_form seg) (fun s => match f with Some g => dec_value g name s | None => Some (CPrim s) end).

(* SENTINEL - the rule of seed C06_g (matrix_primitive tests the truth value like label_primitive does); not used by the
   correspondence *)
Definition matrix_prim_truthy (name : str) (v : value) : option str :=
  if truthy v then match v with VPrim p => Some (59 :: name ++ [61] ++ py_str p) | _ => None end else Some [].

Definition def_path_prim (name : str) (st : pstyle) (e : option bool) : definition :=
  {| d_name := name; d_in := LPath; d_style := st; d_explode := e; d_type := TOther; d_content := CtNone |}.
