(* C06 - the HTTP request on the wire is exactly the generated test case: property theorems only. *)
From Coq Require Import List NArith ZArith Bool.
From Verif Require Import Common.Str C06.Model_C06 C06.Proofs_C06.
Import ListNotations.
Open Scope N_scope.

(* ---- percent-encoding: quote_plus (UTF-8 then percent-escapes, space as plus) read back by a form decoder.
   quote_plus s = None models UnicodeEncodeError, which happens exactly on lone surrogates. *)
Theorem C06_percent_roundtrip : forall s q, quote_plus s = Some q -> pct_decode_form q = Some s.
Proof. exact quote_plus_roundtrip. Qed.
Print Assumptions C06_percent_roundtrip.

Theorem C06_percent_defined : forall s, (exists q, quote_plus s = Some q) <-> forallb is_scalar s = true.
Proof. exact quote_plus_defined. Qed.
Print Assumptions C06_percent_defined.

(* quote() with the default safe set, used by prepare_url around urljoin, read back by the RFC 3986 decoder *)
Theorem C06_quote_path_roundtrip : forall s q, quote_path s = Some q -> pct_decode q = Some s.
Proof. exact quote_path_roundtrip. Qed.
Print Assumptions C06_quote_path_roundtrip.

(* ---- path values: quote_all, then an RFC 3986 path-segment decoder (plus is a literal plus) *)
Theorem C06_path_roundtrip_partial : forall s q, no_space s = true -> quote_value s = Some q -> pct_decode q = Some s.
Proof. exact quote_value_path_roundtrip. Qed.
Print Assumptions C06_path_roundtrip_partial.

Theorem C06_path_roundtrip_refuted : exists s q, quote_value s = Some q /\ pct_decode q <> Some s.
Proof. exact quote_value_path_refuted. Qed.
Print Assumptions C06_path_roundtrip_refuted.

(* the same wire text read by a form decoder gives the value back for every string *)
Theorem C06_path_value_form_roundtrip : forall s q, quote_value s = Some q -> pct_decode_form q = Some s.
Proof. exact quote_value_form_roundtrip. Qed.
Print Assumptions C06_path_value_form_roundtrip.

(* ---- styles: a decoder written from RFC 6570 / the OpenAPI style table recovers the generated value up to str() *)
Theorem C06_style_roundtrip_partial : forall f name v it,
  style_region f name v = true -> apply_sfun f name [(name, v)] = Some it -> decode f name it = Some (coerce v).
Proof. exact style_roundtrip. Qed.
Print Assumptions C06_style_roundtrip_partial.

(* two different values with one wire form defeat every decoder *)
Theorem C06_collision_defeats_every_decoder : forall f name v1 v2,
  collision f name v1 v2 ->
  forall dec : item -> option cvalue,
    ~ (forall v it, (v = v1 \/ v = v2) -> enc f name v = Some it -> dec it = Some (coerce v)).
Proof. exact collision_no_decoder. Qed.
Print Assumptions C06_collision_defeats_every_decoder.

Theorem C06_style_roundtrip_refuted_delimiter :
  collision (FDelimited 44) [113] (VArr [PStr [97;44;98]]) (VArr [PStr [97]; PStr [98]])
  /\ collision FCommaObj [113] (VObj [([107], PStr [97;44;98;44;99])]) (VObj [([107], PStr [97]); ([98], PStr [99])])
  /\ collision (FLabelArr true) [113] (VArr [PStr [49;46;53]]) (VArr [PStr [49]; PStr [53]])
  /\ collision (FMatrixObj true) [113] (VObj [([107], PStr [97;59;98;61;99])]) (VObj [([107], PStr [97]); ([98], PStr [99])]).
Proof. exact delimiter_collision. Qed.
Print Assumptions C06_style_roundtrip_refuted_delimiter.

Theorem C06_style_roundtrip_refuted_empty :
  collision (FDelimited 44) [113] (VArr []) (VArr [PStr []])
  /\ collision (FLabelArr false) [113] (VArr []) (VArr [PStr []])
  /\ collision (FMatrixArr false) [113] (VArr []) (VArr [PStr []]).
Proof. exact empty_collision. Qed.
Print Assumptions C06_style_roundtrip_refuted_empty.

Theorem C06_style_roundtrip_refuted_label_falsy :
  collision FLabelPrim [105;100] (VPrim (PInt 0)) (VPrim (PBool false))
  /\ style_region FLabelPrim [105;100] (VPrim (PInt 0)) = false
  /\ (forall it, enc FLabelPrim [105;100] (VPrim (PInt 0)) = Some it -> decode FLabelPrim [105;100] it = None).
Proof. exact label_falsy_collision. Qed.
Print Assumptions C06_style_roundtrip_refuted_label_falsy.

Theorem C06_style_roundtrip_refuted_matrix_noexplode :
  exists name v it, shape_ok (FMatrixArr false) v = true /\ delimiter_free (FMatrixArr false) v = true
    /\ nonempty_ok (FMatrixArr false) v = true
    /\ enc (FMatrixArr false) name v = Some it /\ decode (FMatrixArr false) name it <> Some (coerce v).
Proof. exact matrix_noexplode_refuted. Qed.
Print Assumptions C06_style_roundtrip_refuted_matrix_noexplode.

Theorem C06_style_roundtrip_refuted_matrix_obj_noexplode :
  exists name v it, shape_ok (FMatrixObj false) v = true /\ delimiter_free (FMatrixObj false) v = true
    /\ nonempty_ok (FMatrixObj false) v = true
    /\ enc (FMatrixObj false) name v = Some it /\ decode (FMatrixObj false) name it <> Some (coerce v).
Proof. exact matrix_obj_noexplode_refuted. Qed.
Print Assumptions C06_style_roundtrip_refuted_matrix_obj_noexplode.

Theorem C06_cookie_explode_refuted :
  serialize3 [cookie_explode_arr] [([99], VArr [PStr [97]])] = Some []
  /\ serialize3 [cookie_explode_arr] [([99], VArr [PStr [98]; PStr [99]])] = Some [].
Proof. exact cookie_explode_removed. Qed.
Print Assumptions C06_cookie_explode_refuted.

(* ---- dispatch: the serializer list chosen for a parameter is the one the OpenAPI 3 style table asks for *)
Theorem C06_dispatch_standard_partial : forall d fs,
  defaults_explicit d = true -> std_sfuns d = Some fs -> ser3_one d = fs.
Proof. exact dispatch_standard. Qed.
Print Assumptions C06_dispatch_standard_partial.

Theorem C06_dispatch_standard_refuted : exists d fs, std_sfuns d = Some fs /\ ser3_one d <> fs.
Proof. exact dispatch_standard_refuted. Qed.
Print Assumptions C06_dispatch_standard_refuted.

(* ---- headers *)
Theorem C06_headers_precedence : forall case_h explicit ua id k,
  ci_get k (prepare_headers case_h explicit ua id) =
  match explicit_get k explicit with
  | Some v => Some v
  | None =>
    match case_get k case_h with
    | Some v => Some v
    | None => if ci_eqb k h_user_agent then Some ua else if ci_eqb k h_test_case_id then Some id else None
    end
  end.
Proof. exact prepare_headers_lookup. Qed.
Print Assumptions C06_headers_precedence.

Theorem C06_headers_only_expected : forall case_h explicit ua id mt has_body x,
  In x (serialize_case_headers case_h explicit ua id mt has_body) ->
  In x (match case_h with Some h => h | None => [] end)
  \/ In x (match explicit with Some e => e | None => [] end)
  \/ x = (h_user_agent, ua) \/ x = (h_test_case_id, id)
  \/ (has_body = true /\ exists m, mt = Some m /\ x = (h_content_type, m)).
Proof. exact headers_only_expected. Qed.
Print Assumptions C06_headers_only_expected.

Theorem C06_content_type_is_media_type : forall case_h explicit ua id m,
  is_nil m = false -> str_eqb m s_multipart = false ->
  explicit_get h_content_type explicit = None -> case_get h_content_type case_h = None ->
  ci_get h_content_type (serialize_case_headers case_h explicit ua id (Some m) true) = Some m.
Proof. exact content_type_is_media_type. Qed.
Print Assumptions C06_content_type_is_media_type.

(* matrix / label / simple delimiters of a PATH parameter are percent-encoded together with the value *)
Theorem C06_path_reserved_delimiters_refuted :
  exists name v s q, style_region FMatrixPrim name v = true /\ new_value FMatrixPrim name v = Some s
    /\ quote_value s = Some q /\ dec_value FMatrixPrim name q = None
    /\ obind (pct_decode q) (dec_value FMatrixPrim name) = Some (coerce v).
Proof. exact path_reserved_delimiters_refuted. Qed.
Print Assumptions C06_path_reserved_delimiters_refuted.

(* ---- query post-processing of RequestsTransport.serialize_case: only the entries equal to the empty object change *)
Theorem C06_empty_object_rule_is_pointwise : forall q, requests_params q = map blank_empty_obj q.
Proof. exact requests_params_pointwise. Qed.
Print Assumptions C06_empty_object_rule_is_pointwise.

Theorem C06_query_parameter_independent_of_neighbours : forall q k,
  d_get k (requests_params q) = omap (fun v => if is_empty_obj v then sval [] else v) (d_get k q).
Proof. exact requests_params_lookup. Qed.
Print Assumptions C06_query_parameter_independent_of_neighbours.

(* ---- coverage phase: Template._serialize (path and query containers) *)
(* for ALL parameter definitions, templates and case indices: the n-th case built from a template is the same function of the
   template as the first one (serialize, quote, stringify); the template is never modified *)
Theorem C06_coverage_template_pure : forall defs n tmpl,
  template_nth defs n tmpl = path_output defs tmpl /\ template_query_nth defs n tmpl = query_output defs tmpl.
Proof. exact coverage_pure. Qed.
Print Assumptions C06_coverage_template_pure.

(* for every string and every case index the case holds the quoted value, which decodes to the template value *)
Theorem C06_coverage_case_roundtrip : forall name s n out,
  template_nth [] n [(name, sval s)] = Some out ->
  exists q, out = [(name, sval q)] /\ quote_value s = Some q /\ pct_decode_form q = Some s.
Proof. exact coverage_case_roundtrip. Qed.
Print Assumptions C06_coverage_case_roundtrip.

(* sentinel for the repaired finding C06-F9: the quote-in-place rule re-quotes, the present rule does not *)
Theorem C06_coverage_requote_sentinel_refuted :
  let tmpl := [([105;100], sval [97;32;98;37;99])] in
  let q1 := [97;43;98;37;50;53;99] in
  let q2 := [97;37;50;66;98;37;50;53;50;53;99] in
  template_nth_inplace [] 0 tmpl = Some [([105;100], sval q1)]
  /\ template_nth_inplace [] 1 tmpl = Some [([105;100], sval q2)]
  /\ pct_decode_form q2 <> Some [97;32;98;37;99]
  /\ template_nth [] 0 tmpl = Some [([105;100], sval q1)]
  /\ template_nth [] 1 tmpl = Some [([105;100], sval q1)].
Proof. exact coverage_requote_sentinel_refuted. Qed.
Print Assumptions C06_coverage_requote_sentinel_refuted.

(* sentinel for the repaired finding C06-F10: the serializer-in-place rule serializes the serialized text again
   (path label array, query form object without explode), the present rule gives the same text in both cases *)
Theorem C06_coverage_serializer_reapplied_refuted :
  let tmpl := [([105;100], VArr [PStr [97]; PStr [98]])] in
  let qt := [([111], VObj [([107], PStr [118])])] in
  template_nth_ser_inplace [label_arr_def] 0 tmpl = Some [([105;100], sval [46;97;37;50;67;98])]
  /\ template_nth_ser_inplace [label_arr_def] 1 tmpl = Some [([105;100], sval [46;46;97;37;50;67;98])]
  /\ obind (pct_decode [46;46;97;37;50;67;98]) (dec_value (FLabelArr false) [105;100]) <> Some (CArr [[97]; [98]])
  /\ template_nth [label_arr_def] 0 tmpl = Some [([105;100], sval [46;97;37;50;67;98])]
  /\ template_nth [label_arr_def] 1 tmpl = Some [([105;100], sval [46;97;37;50;67;98])]
  /\ template_query_nth_ser_inplace [form_obj_def] 0 qt = Some [([111], sval [107;44;118])]
  /\ template_query_nth_ser_inplace [form_obj_def] 1 qt = Some [([111], sval [44;107;44;118])]
  /\ template_query_nth [form_obj_def] 0 qt = Some [([111], sval [107;44;118])]
  /\ template_query_nth [form_obj_def] 1 qt = Some [([111], sval [107;44;118])].
Proof. exact coverage_serializer_reapplied_refuted. Qed.
Print Assumptions C06_coverage_serializer_reapplied_refuted.

(* ---- configuration histories: one schema object re-configured in place between sends (Model_C06 section 12) *)
(* the configuration a history ends in is, field by field, the last value written (or the initial one) *)
Theorem C06_history_configuration_is_last_write : forall rd h s,
  hs_cfg (exec_with rd s h)
  = {| cf_base := last_write pick_base h (cf_base (hs_cfg s)); cf_loc := last_write pick_loc h (cf_loc (hs_cfg s));
       cf_spec := last_write pick_spec h (cf_spec (hs_cfg s)); cf_app := last_write pick_app h (cf_app (hs_cfg s)) |}.
Proof. exact exec_last_write. Qed.
Print Assumptions C06_history_configuration_is_last_write.

(* sends, full_path and base_path are functions of the CURRENT configuration, not of the history: two histories that end in
   the same configuration give the same observation for every event that does not take an operation from the cache *)
Theorem C06_history_send_depends_on_current_configuration_only : forall c1 c2 h1 h2 e,
  final_cfg c1 h1 = final_cfg c2 h2 -> uses_cache e = false ->
  last (run_history (init_state c1) (h1 ++ [e])) ONone = last (run_history (init_state c2) (h2 ++ [e])) ONone.
Proof. exact history_independence. Qed.
Print Assumptions C06_history_send_depends_on_current_configuration_only.

(* WSGI: for EVERY history and EVERY operation object (fresh or cached) the path the application receives is the base path of
   the current configuration joined with the filled template; full_path and base_path likewise *)
Theorem C06_history_wsgi_path_is_current_base_path : forall c0 h hw tmpl params w r,
  cf_app (hs_cfg (exec_history (init_state c0) h)) = TWsgi ->
  snd (hstep (exec_history (init_state c0) h) (EvSend hw tmpl params)) = OSent w r ->
  exists f, prepare_path tmpl params = FOk f /\ w = expected_path (final_cfg c0 h) f.
Proof. exact wsgi_wire_current. Qed.
Print Assumptions C06_history_wsgi_path_is_current_base_path.

Theorem C06_history_full_path_is_current_base_path : forall c0 h tmpl,
  snd (hstep (exec_history (init_state c0) h) (EvFullPath tmpl)) = OPath (expected_path (final_cfg c0 h) tmpl)
  /\ snd (hstep (exec_history (init_state c0) h) EvBasePath) = OPath (cfg_base_path (final_cfg c0 h)).
Proof. exact full_path_current. Qed.
Print Assumptions C06_history_full_path_is_current_base_path.

(* all three transports: after ANY history, a send whose operation object was made under the present configuration goes to
   <current base path> + <filled template>, and the reported request URL has exactly that path (the requests transport
   refuses to send without a netloc).  Region: cfg_ok (base path empty or absolute, no trailing double slash, no dot-dot
   segment, non-empty base URL text), no dot-dot segment in the filled template *)
Theorem C06_history_transports_send_to_current_base_url_partial : forall c0 h hw tmpl params f,
  cfg_ok (final_cfg c0 h) = true ->
  op_current (final_cfg c0 h) (op_used (exec_history (init_state c0) h) hw tmpl) = true ->
  prepare_path tmpl params = FOk f -> no_dotdot (lstrip_slash f) = true ->
  snd (hstep (exec_history (init_state c0) h) (EvSend hw tmpl params)) =
  if cannot_send (final_cfg c0 h) then ORaises
  else OSent (expected_path (final_cfg c0 h) f) (reported_prefix (final_cfg c0 h) ++ expected_path (final_cfg c0 h) f).
Proof. exact history_send_region. Qed.
Print Assumptions C06_history_transports_send_to_current_base_url_partial.

(* an operation made now (get_all_operations) always satisfies the operation-is-current hypothesis *)
Theorem C06_history_fresh_operation_is_current : forall c0 h tmpl params f,
  cfg_ok (final_cfg c0 h) = true -> prepare_path tmpl params = FOk f -> no_dotdot (lstrip_slash f) = true ->
  snd (hstep (exec_history (init_state c0) h) (EvSend Fresh tmpl params)) =
  if cannot_send (final_cfg c0 h) then ORaises
  else OSent (expected_path (final_cfg c0 h) f) (reported_prefix (final_cfg c0 h) ++ expected_path (final_cfg c0 h) f).
Proof. exact history_fresh_send_region. Qed.
Print Assumptions C06_history_fresh_operation_is_current.

(* the two ways of building the path agree: urljoin with a netloc (prepare_url) and without (get_full_path) *)
Theorem C06_urljoin_netloc_irrelevant_partial : forall bpath path,
  starts_with [47] bpath = true -> no_dotdot bpath = true -> no_dotdot path = true ->
  urljoin_path true bpath path = urljoin_path false bpath path.
Proof. exact urljoin_agree. Qed.
Print Assumptions C06_urljoin_netloc_irrelevant_partial.

(* finding C06-F11: an operation from schema[path][method] made before configure(base_url=..) keeps the old base URL:
   the requests transport sends to the OLD base URL; the WSGI transport sends to the new one and reports the old one *)
Theorem C06_history_cached_operation_refuted :
  let h := [EvBase (base_of s_api); EvSend Cached s_items []; EvBase (base_of s_v2)] in
  let s := exec_history (init_state (cfg0 TRequests)) h in
  let c := final_cfg (cfg0 TRequests) h in
  cfg_ok c = true /\ op_current c (op_used s Cached s_items) = false
  /\ expected_path c s_items = s_v2 ++ s_items
  /\ snd (hstep s (EvSend Cached s_items [])) = OSent (s_api ++ s_items) (s_loop ++ s_api ++ s_items)
  /\ snd (hstep s (EvSend Fresh s_items [])) = OSent (s_v2 ++ s_items) (s_loop ++ s_v2 ++ s_items)
  /\ (let sw := exec_history (init_state (cfg0 TWsgi)) h in
      snd (hstep sw (EvSend Cached s_items [])) = OSent (s_v2 ++ s_items) (s_loop ++ s_api ++ s_items)).
Proof. exact cached_operation_refuted. Qed.
Print Assumptions C06_history_cached_operation_refuted.

(* finding C06-F12: outside cfg_ok the transports / the reported request disagree: empty base URL text, trailing double slash *)
Theorem C06_history_base_url_shape_refuted :
  (let c := {| cf_base := Some {| bu_prefix := []; bu_path := [] |}; cf_loc := []; cf_spec := cf_spec (cfg0 TWsgi); cf_app := TWsgi |} in
   cfg_ok c = false
   /\ snd (hstep (init_state c) (EvSend Fresh s_items [])) = OSent (s_srv ++ s_items) (s_http_localhost ++ s_items))
  /\ (let c := {| cf_base := base_of (s_api ++ [47;47]); cf_loc := []; cf_spec := SpV3 []; cf_app := TWsgi |} in
      cfg_ok c = false
      /\ snd (hstep (init_state c) (EvSend Fresh [47] [])) = OSent (s_api ++ [47;47]) (s_loop ++ s_api ++ [47])).
Proof. exact base_shape_refuted. Qed.
Print Assumptions C06_history_base_url_shape_refuted.

(* sentinel for the seeded regression C06_c: a base path remembered per schema object (read_memo) keeps WSGI sends and
   full_path at the first base path after configure(base_url=..); the present rule follows the configuration *)
Theorem C06_history_base_path_memo_sentinel_refuted :
  let h := [EvBase (base_of s_api); EvSend Fresh s_items []; EvBase (base_of s_v2); EvSend Fresh s_items []; EvFullPath s_items] in
  run_history_memo (init_state (cfg0 TWsgi)) h
  = [ONone; OSent (s_api ++ s_items) (s_loop ++ s_api ++ s_items); ONone;
     OSent (s_api ++ s_items) (s_loop ++ s_v2 ++ s_items); OPath (s_api ++ s_items)]
  /\ run_history (init_state (cfg0 TWsgi)) h
  = [ONone; OSent (s_api ++ s_items) (s_loop ++ s_api ++ s_items); ONone;
     OSent (s_v2 ++ s_items) (s_loop ++ s_v2 ++ s_items); OPath (s_v2 ++ s_items)]
  /\ expected_path (final_cfg (cfg0 TWsgi) h) s_items = s_v2 ++ s_items.
Proof. exact base_path_memo_sentinel_refuted. Qed.
Print Assumptions C06_history_base_path_memo_sentinel_refuted.

(* ---- exchanges: RESPONSE-side state carried from one exchange to the next (Model_C06 section 14).
   An exchange = a request that reaches the application (a case sent through the requests / WSGI / ASGI transport, with or
   without a session object of the user, or the loading of the schema) and the answer of the application (Set-Cookie,
   redirect, Connection: close).  fresh_clients = the code; any other client rule is hypothetical. *)

(* non-interference, for EVERY client rule: the request of an exchange is decided by the exchanges that went through the
   same long-lived client object; every other exchange of the history, and whatever was answered to it, can be deleted *)
Theorem C06_exchange_depends_on_its_own_client_object_only : forall rule e js h ev,
  snd (xstep rule e (xexec rule e js h) ev) = snd (xstep rule e (xexec rule e js (filter (same_slot rule ev) h)) ev).
Proof. exact exchange_noninterference. Qed.
Print Assumptions C06_exchange_depends_on_its_own_client_object_only.

(* the code: an exchange without a session object of the user (loads included; on the ASGI transport every exchange)
   delivers the request of that exchange ALONE, after every history, whatever the applications answered before and
   whatever the session objects of the user hold *)
Theorem C06_exchange_without_session_is_the_case_alone : forall e js h ev,
  no_session ev = true \/ xtransport ev = TAsgi ->
  snd (xstep fresh_clients e (xexec fresh_clients e js h) ev) = xalone e ev.
Proof. exact exchange_alone. Qed.
Print Assumptions C06_exchange_without_session_is_the_case_alone.

Theorem C06_exchange_history_without_sessions_is_pointwise : forall e h js,
  forallb no_session h = true -> xrun fresh_clients e js h = map (xalone e) h.
Proof. exact exchange_run_alone. Qed.
Print Assumptions C06_exchange_history_without_sessions_is_pointwise.

(* independence, as the property reads: two histories, two sets of answers - the same exchange afterwards delivers the same request *)
Theorem C06_exchange_independent_of_earlier_exchanges : forall e js1 js2 h1 h2 ev,
  no_session ev = true \/ xtransport ev = TAsgi ->
  snd (xstep fresh_clients e (xexec fresh_clients e js1 h1) ev) = snd (xstep fresh_clients e (xexec fresh_clients e js2 h2) ev).
Proof. exact exchange_independent. Qed.
Print Assumptions C06_exchange_independent_of_earlier_exchanges.

(* what that request carries, all three transports, after ANY history: the Cookie header is made of exactly the cookies
   of the case and of the call; every header is Host, a default header of the client (requests / ASGI), an entry of
   prepare_headers (case, call, User-Agent, test-case id: C06_headers_only_expected) or that Cookie header.
   Region: the case has no Cookie header of its own; its cookies are a dict (every name once) *)
Theorem C06_exchange_carries_the_case_partial : forall e js h t c r,
  no_cookie_header e c = true -> std_has_no_cookie e = true -> dict_ok (xc_cookies c) = true ->
  let got := snd (xstep fresh_clients e (xexec fresh_clients e js h) (XSend t None c r)) in
  ci_get s_cookie got = cookie_header_of (xown c)
  /\ forall x, In x got ->
       x = (s_host, xe_host e t false) \/ (t <> TWsgi /\ In x (xe_std e)) \/ In x (xprep e c) \/ x = (s_cookie, render_cookies (xown c)).
Proof. exact exchange_carries_the_case. Qed.
Print Assumptions C06_exchange_carries_the_case_partial.

(* finding C06-F13 (outside the region): a Cookie header of the case is not delivered by the WSGI transport; with the
   requests and ASGI transports it is delivered and the cookies of the case are not *)
Theorem C06_exchange_cookie_header_refuted :
  let c1 := xcase_cookie (Some [(s_cookie, x_h1)]) None in
  let c2 := xcase_cookie (Some [(s_cookie, x_h1)]) (Some [(x_token, x_t)]) in
  no_cookie_header xenv0 c1 = false /\ ci_get s_cookie (xprep xenv0 c1) = Some x_h1
  /\ ci_get s_cookie (xalone xenv0 (XSend TWsgi None c1 xquiet)) = None
  /\ cookie_header_of (xown c2) = Some x_token_t
  /\ ci_get s_cookie (xalone xenv0 (XSend TRequests None c2 xquiet)) = Some x_h1
  /\ ci_get s_cookie (xalone xenv0 (XSend TAsgi None c2 xquiet)) = Some x_h1
  /\ ci_get s_cookie (xalone xenv0 (XSend TWsgi None c2 xquiet)) = Some x_token_t.
Proof. exact cookie_header_refuted. Qed.
Print Assumptions C06_exchange_cookie_header_refuted.

(* every client rule, sessions of the user included, histories from clients that have seen nothing: a cookie that an
   exchange sends is a cookie of its own case, or was put into the client object by an EARLIER exchange through that same
   object - a Set-Cookie of its answer or (werkzeug) a cookie of its case *)
Theorem C06_exchange_cookie_provenance : forall rule e h ev p,
  In p (xcookies_sent rule ev (xexec rule e [] h)) ->
  In p (xown_of ev) \/ exists ev', In ev' h /\ same_slot rule ev ev' = true /\ (In p (xr_set (xresp_of ev')) \/ In p (xown_of ev')).
Proof. exact exchange_cookie_provenance. Qed.
Print Assumptions C06_exchange_cookie_provenance.

(* sentinel for the seeded regression C06_d: with one werkzeug client per application the cookie set by an earlier answer
   (to a send or to the schema load) is sent with a case that has none; under the rule of the code it is not *)
Theorem C06_exchange_shared_client_sentinel_refuted :
  let send1 := XSend TWsgi None xcase0 xsets in
  let send2 := XSend TWsgi None xcase0 xquiet in
  map (ci_get s_cookie) (xrun shared_wsgi_client xenv0 [] [send1; send2]) = [None; Some x_sess_S1]
  /\ map (ci_get s_cookie) (xrun shared_wsgi_client xenv0 [] [XLoad TWsgi xsets; send2]) = [None; Some x_sess_S1]
  /\ xrun shared_wsgi_client xenv0 [] [send1; send2] <> map (xalone xenv0) [send1; send2]
  /\ xrun fresh_clients xenv0 [] [send1; send2] = map (xalone xenv0) [send1; send2]
  /\ map (ci_get s_cookie) (xrun fresh_clients xenv0 [] [XLoad TWsgi xsets; send2]) = [None; None]
  /\ no_cookie_header xenv0 xcase0 = true /\ cookie_header_of (xown xcase0) = None.
Proof. exact shared_client_sentinel_refuted. Qed.
Print Assumptions C06_exchange_shared_client_sentinel_refuted.

(* ---- application/x-www-form-urlencoded bodies (Model section 15) ---- *)

(* urllib.parse.urlencode / werkzeug _urlencode read back by the standard form decoder (split at the ampersand, then at the first
   equals sign, percent-decode with plus = space), for ALL lists of (name, text) pairs over all code-point strings and for the
   safe sets of all three transports *)
Theorem C06_form_urlencode_roundtrip : forall t ps w,
  urlencode (form_safe t) ps = Some w -> decode_form w = Some ps.
Proof. intros t ps w. exact (urlencode_roundtrip (form_safe t) ps w (form_safe_ok t)). Qed.
Print Assumptions C06_form_urlencode_roundtrip.

(* every form value of the modelled fragment (object of scalars, array of such objects; any strings), every transport: what the
   application receives for the case body (= the value prepared ONCE by the generation / examples / coverage phase, handed to the
   client library as it is) decodes to the pairs the value stands for.  Region: werkzeug does not take a non-empty list *)
Theorem C06_form_body_roundtrip_partial : forall t v w,
  form_shape v = true -> wsgi_array_form t v = false ->
  form_path ser_as_is t v = WBody w -> decode_form w = pairs_of v.
Proof. exact form_body_roundtrip. Qed.
Print Assumptions C06_form_body_roundtrip_partial.

(* ... and a body IS sent whenever every text can be encoded (no lone surrogate) *)
Theorem C06_form_body_sent_partial : forall t v,
  form_shape v = true -> wsgi_array_form t v = false -> form_encodable v = true ->
  exists ps w, pairs_of v = Some ps /\ form_path ser_as_is t v = WBody w /\ decode_form w = Some ps.
Proof. exact form_body_sent. Qed.
Print Assumptions C06_form_body_sent_partial.

(* finding F14: an array-typed form body cannot be sent through the WSGI transport at all (AttributeError in werkzeug) *)
Theorem C06_form_body_wsgi_array_refuted :
  form_shape f_tag0 = true /\ form_encodable f_tag0 = true /\ wsgi_array_form TWsgi f_tag0 = true
  /\ form_path ser_as_is TWsgi f_tag0 = WRaises
  /\ form_path ser_as_is TRequests f_tag0 = WBody f_tag0_wire /\ form_path ser_as_is TAsgi f_tag0 = WBody f_tag0_wire.
Proof. exact form_wsgi_array_refuted. Qed.
Print Assumptions C06_form_body_wsgi_array_refuted.

(* on the path generation -> wire prepare_urlencoded is applied exactly once (the serializer adds none); object-typed forms are
   fixed points, so they cannot tell the two rules apart *)
Theorem C06_form_prepared_exactly_once : forall t v,
  form_path ser_as_is t v = form_wire t (prepare_urlencoded v)
  /\ (forall d, form_path ser_prepares_again t (FDict d) = form_path ser_as_is t (FDict d)).
Proof. exact form_prepared_once. Qed.
Print Assumptions C06_form_prepared_exactly_once.

(* sentinel for the seeded regression C06_e: prepare_urlencoded is not idempotent; a serializer that prepares the case body once
   more sends the array form [{tag: 0}] as %28%27tag%27%2C+%270%27%29=arbitrary-value, which does not decode to [(tag, 0)];
   the rule of the code sends tag=0 *)
Theorem C06_form_prepared_twice_sentinel_refuted :
  form_shape f_tag0 = true /\ pairs_of f_tag0 = Some [(f_tag, f_zero)]
  /\ prepare_urlencoded (prepare_urlencoded f_tag0) <> prepare_urlencoded f_tag0
  /\ form_path ser_prepares_again TRequests f_tag0 = WBody f_tag0_twice
  /\ form_path ser_prepares_again TAsgi f_tag0 = WBody f_tag0_twice
  /\ decode_form f_tag0_twice <> pairs_of f_tag0
  /\ form_path ser_as_is TRequests f_tag0 = WBody f_tag0_wire
  /\ decode_form f_tag0_wire = pairs_of f_tag0.
Proof. exact form_prepared_twice_sentinel_refuted. Qed.
Print Assumptions C06_form_prepared_twice_sentinel_refuted.

(* ---- the examples and coverage phases have no validity filter (section 16; after seed C06_g) *)
(* a matrix-style primitive path parameter: EVERY non-null value - 0, False and the empty string included - is written
   ;name=<str(value)> by all three phases, and the segment of every phase is read back by the matrix decoder *)
Theorem C06_matrix_primitive_all_phases_partial : forall name e p, p <> PNone ->
  let d := def_path_prim name StMatrix e in
  let it := [(name, VPrim p)] in
  let s := 59 :: name ++ [61] ++ py_str p in
  (path_text name (phase_path PhExamples [d] it) = Some s /\ dec_value FMatrixPrim name s = Some (CPrim (py_str p)) /\ is_nil s = false)
  /\ (forall seg, path_text name (phase_path PhCoverage [d] it) = Some seg -> read_segment (Some FMatrixPrim) name seg = Some (CPrim (py_str p)))
  /\ (forall seg, path_text name (phase_path PhFuzz [d] it) = Some seg -> read_segment (Some FMatrixPrim) name seg = Some (CPrim (py_str p))).
Proof. exact matrix_primitive_all_phases. Qed.
Print Assumptions C06_matrix_primitive_all_phases_partial.

(* finding C06-F4, corrected: the empty text of a falsy label primitive is dropped by the fuzzing phase only *)
Theorem C06_label_falsy_reaches_the_wire_refuted :
  let d := def_path_prim s_id StLabel None in
  (forall p, In p [PInt 0; PBool false; PStr []] ->
     phase_path PhFuzz [d] (it_of p) = GFiltered
     /\ phase_path PhExamples [d] (it_of p) = GOk [(s_id, sval [])]
     /\ phase_path PhCoverage [d] (it_of p) = GOk [(s_id, sval [])])
  /\ read_segment (Some FLabelPrim) s_id [] = None
  /\ phase_path PhCoverage [d] (it_of (PInt 7)) = GOk [(s_id, sval [46;55])].
Proof. exact label_falsy_reaches_the_wire. Qed.
Print Assumptions C06_label_falsy_reaches_the_wire_refuted.

(* sentinel for seed C06_g: under the truth test a falsy matrix primitive becomes the empty text, which no matrix decoder reads,
   which is_valid_path drops (fuzzing phase) and which quote_all / _stringify_value pass on (coverage phase); truthy values
   cannot tell the two rules apart *)
Theorem C06_matrix_truthiness_sentinel_refuted :
  (forall name v, truthy v = true -> matrix_prim_truthy name v = new_value FMatrixPrim name v)
  /\ (forall p, In p [PInt 0; PBool false; PStr []] ->
       matrix_prim_truthy s_id (VPrim p) = Some []
       /\ new_value FMatrixPrim s_id (VPrim p) = Some (59 :: s_id ++ [61] ++ py_str p))
  /\ dec_value FMatrixPrim s_id [] = None
  /\ is_valid_path [(s_id, sval [])] = false
  /\ omap stringify_item (quote_all [(s_id, sval [])]) = Some [(s_id, sval [])].
Proof. exact matrix_truthiness_sentinel_refuted. Qed.
Print Assumptions C06_matrix_truthiness_sentinel_refuted.

(* finding C06-F15: the empty string of a path parameter without a style serializer is sent as an EMPTY segment by the examples and
   coverage phases (the fuzzing phase drops it); 0 is sent as "0" *)
Theorem C06_empty_path_value_refuted :
  forall st, In st [StNone; StSimple] ->
    let d := def_path_prim s_id st None in
    phase_path PhFuzz [d] (it_of (PStr [])) = GFiltered
    /\ path_text s_id (phase_path PhExamples [d] (it_of (PStr []))) = Some []
    /\ path_text s_id (phase_path PhCoverage [d] (it_of (PStr []))) = Some []
    /\ path_text s_id (phase_path PhCoverage [d] (it_of (PInt 0))) = Some [48].
Proof. exact empty_path_value_refuted. Qed.
Print Assumptions C06_empty_path_value_refuted.
