(* C06 proofs.  Part A: percent-encoding and UTF-8 round trips. *)
From Coq Require Import List NArith ZArith Bool Lia ZifyBool ZifyN.
From Verif Require Import Common.Str C06.Model_C06.
Import ListNotations.
Open Scope N_scope.
Ltac Zify.zify_post_hook ::= Z.to_euclidean_division_equations.

(* ------------------------------------------------------------------------------------------------ *)
(* A. percent round trip                                                                              *)
(* ------------------------------------------------------------------------------------------------ *)
Lemma unhex_hexd n : n < 16 -> unhex (hexd n) = Some n.
Proof.
  intros H.
  assert (E : n = 0 \/ n = 1 \/ n = 2 \/ n = 3 \/ n = 4 \/ n = 5 \/ n = 6 \/ n = 7 \/ n = 8 \/ n = 9 \/ n = 10
              \/ n = 11 \/ n = 12 \/ n = 13 \/ n = 14 \/ n = 15) by lia.
  repeat (destruct E as [E | E]; [subst n; reflexivity|]). subst n; reflexivity.
Qed.

Lemma always_safe_props b : always_safe b = true -> b < 128 /\ b <> 37 /\ b <> 43 /\ b <> 32.
Proof.
  unfold always_safe, is_upper, is_lower, is_digit, mem, existsb. intros H.
  repeat rewrite ?orb_true_iff, ?andb_true_iff, ?N.leb_le, ?N.eqb_eq in H. lia.
Qed.

(* the per-byte view of quote_plus *)
Definition qp_byte (b : N) : str := if b =? 32 then [43] else quote_byte no_safe b.

Lemma sp_to_plus_app a b : sp_to_plus (a ++ b) = sp_to_plus a ++ sp_to_plus b.
Proof. unfold sp_to_plus; apply map_app. Qed.

Lemma hexd_not_sp n : n < 16 -> (hexd n =? 32) = false.
Proof. intros H; unfold hexd; destruct (n <? 10) eqn:E; lia. Qed.

Lemma sp_to_plus_quote_byte b : b < 256 -> sp_to_plus (quote_byte is_sp b) = qp_byte b.
Proof.
  intros Hb. unfold qp_byte, quote_byte, is_sp, no_safe.
  destruct (always_safe b) eqn:Ea.
  - apply always_safe_props in Ea. cbn [orb]. destruct (b =? 32) eqn:E; [lia|].
    cbn [sp_to_plus map]. rewrite E. reflexivity.
  - cbn [orb]. destruct (b =? 32) eqn:E.
    + apply N.eqb_eq in E; subst b; reflexivity.
    + unfold pct_byte. cbn [sp_to_plus map].
      rewrite !hexd_not_sp by lia. reflexivity.
Qed.

Lemma sp_to_plus_quote bs :
  Forall (fun b => b < 256) bs -> sp_to_plus (flat_map (quote_byte is_sp) bs) = flat_map qp_byte bs.
Proof.
  induction 1 as [|b bs Hb _ IH]; [reflexivity|].
  cbn [flat_map]. rewrite sp_to_plus_app, IH, sp_to_plus_quote_byte by exact Hb. reflexivity.
Qed.

Lemma pct_bytes_pct_byte plus b r :
  b < 256 -> pct_bytes plus (pct_byte b ++ r) = omap (cons b) (pct_bytes plus r).
Proof.
  intros Hb. unfold pct_byte. cbn [app pct_bytes]. cbn [N.eqb Pos.eqb].
  rewrite !unhex_hexd by lia.
  destruct (pct_bytes plus r); cbn [omap]; [|reflexivity].
  f_equal. f_equal. lia.
Qed.

Lemma pct_bytes_safe plus b r :
  always_safe b = true -> pct_bytes plus (b :: r) = omap (cons b) (pct_bytes plus r).
Proof.
  intros H. apply always_safe_props in H. cbn [pct_bytes].
  destruct (b =? 37) eqn:E1; [lia|]. destruct (128 <=? b) eqn:E2; [lia|].
  destruct (b =? 43) eqn:E3; [lia|]. rewrite andb_false_r.
  destruct (pct_bytes plus r); reflexivity.
Qed.

Lemma pct_bytes_qp bs : Forall (fun b => b < 256) bs -> pct_bytes true (flat_map qp_byte bs) = Some bs.
Proof.
  induction 1 as [|b bs Hb _ IH]; [reflexivity|].
  cbn [flat_map]. unfold qp_byte at 1. destruct (b =? 32) eqn:E.
  - apply N.eqb_eq in E; subst b. cbn [app]. cbn [pct_bytes]. cbn [N.eqb Pos.eqb N.leb N.compare Pos.compare Pos.compare_cont andb].
    rewrite IH. reflexivity.
  - unfold quote_byte, no_safe. rewrite orb_false_r. destruct (always_safe b) eqn:Ea.
    + cbn [app]. rewrite pct_bytes_safe, IH by exact Ea. reflexivity.
    + rewrite pct_bytes_pct_byte, IH by exact Hb. reflexivity.
Qed.

(* quote() with any safe set read back by the RFC 3986 decoder (plus literal), provided the safe bytes are plain ASCII *)
Lemma pct_bytes_quote safe bs :
  (forall b, safe b = true -> b < 128 /\ b <> 37) ->
  Forall (fun b => b < 256) bs -> pct_bytes false (flat_map (quote_byte safe) bs) = Some bs.
Proof.
  intros Hs. induction 1 as [|b bs Hb _ IH]; [reflexivity|].
  cbn [flat_map]. unfold quote_byte at 1. destruct (always_safe b || safe b) eqn:Ea.
  - cbn [app pct_bytes].
    assert (b < 128 /\ b <> 37) as [H1 H2].
    { apply orb_true_iff in Ea. destruct Ea as [Ea | Ea]; [apply always_safe_props in Ea; lia | apply Hs; exact Ea]. }
    destruct (b =? 37) eqn:E1; [lia|]. destruct (128 <=? b) eqn:E2; [lia|].
    rewrite IH. reflexivity.
  - rewrite pct_bytes_pct_byte, IH by exact Hb. reflexivity.
Qed.

(* ---- UTF-8 *)
Lemma utf8_cp_bytes c : c < 1114112 -> Forall (fun b => b < 256) (utf8_cp c).
Proof.
  intros H. unfold utf8_cp.
  destruct (c <? 128) eqn:E1; [repeat constructor; lia|].
  destruct (c <? 2048) eqn:E2; [repeat constructor; lia|].
  destruct (c <? 65536) eqn:E3; repeat constructor; lia.
Qed.

Lemma is_scalar_props c : is_scalar c = true -> c < 1114112 /\ (c < 55296 \/ 57343 < c).
Proof. unfold is_scalar, is_surrogate. intros H. lia. Qed.

Lemma utf8_decode_cp c r : is_scalar c = true -> utf8_decode (utf8_cp c ++ r) = omap (cons c) (utf8_decode r).
Proof.
  intros Hs. apply is_scalar_props in Hs. destruct Hs as [Hmax Hsur]. unfold utf8_cp.
  destruct (c <? 128) eqn:E1.
  - cbn [app utf8_decode]. rewrite E1. reflexivity.
  - destruct (c <? 2048) eqn:E2.
    + cbn [app utf8_decode].
      replace (192 + c / 64 <? 128) with false by lia.
      replace (192 + c / 64 <? 194) with false by lia.
      replace (192 + c / 64 <? 224) with true by lia.
      replace (is_cont (128 + c mod 64)) with true by (unfold is_cont; lia).
      replace ((192 + c / 64 - 192) * 64 + (128 + c mod 64 - 128)) with c by lia. reflexivity.
    + destruct (c <? 65536) eqn:E3.
      * cbn [app utf8_decode].
        replace (224 + c / 4096 <? 128) with false by lia.
        replace (224 + c / 4096 <? 194) with false by lia.
        replace (224 + c / 4096 <? 224) with false by lia.
        replace (224 + c / 4096 <? 240) with true by lia.
        replace ((224 + c / 4096 - 224) * 4096 + (128 + (c / 64) mod 64 - 128) * 64 + (128 + c mod 64 - 128)) with c by lia.
        replace (is_cont (128 + (c / 64) mod 64)) with true by (unfold is_cont; lia).
        replace (is_cont (128 + c mod 64)) with true by (unfold is_cont; lia).
        replace (2048 <=? c) with true by lia.
        replace (is_surrogate c) with false by (unfold is_surrogate; lia).
        reflexivity.
      * cbn [app utf8_decode].
        replace (240 + c / 262144 <? 128) with false by lia.
        replace (240 + c / 262144 <? 194) with false by lia.
        replace (240 + c / 262144 <? 224) with false by lia.
        replace (240 + c / 262144 <? 240) with false by lia.
        replace (240 + c / 262144 <? 245) with true by lia.
        replace ((240 + c / 262144 - 240) * 262144 + (128 + (c / 4096) mod 64 - 128) * 4096
                 + (128 + (c / 64) mod 64 - 128) * 64 + (128 + c mod 64 - 128)) with c by lia.
        replace (is_cont (128 + (c / 4096) mod 64)) with true by (unfold is_cont; lia).
        replace (is_cont (128 + (c / 64) mod 64)) with true by (unfold is_cont; lia).
        replace (is_cont (128 + c mod 64)) with true by (unfold is_cont; lia).
        replace (65536 <=? c) with true by lia.
        replace (c <? 1114112) with true by lia.
        reflexivity.
Qed.

Lemma utf8_roundtrip s bs : utf8_encode s = Some bs -> utf8_decode bs = Some s /\ Forall (fun b => b < 256) bs.
Proof.
  unfold utf8_encode. destruct (forallb is_scalar s) eqn:E; [|discriminate].
  intros H; injection H as <-. rewrite forallb_forall in E.
  induction s as [|c s IH]; [split; [reflexivity | constructor]|].
  cbn [flat_map]. assert (Hc : is_scalar c = true) by (apply E; left; reflexivity).
  destruct IH as [IH1 IH2]; [intros x Hx; apply E; right; exact Hx|].
  split.
  - rewrite utf8_decode_cp, IH1 by exact Hc. reflexivity.
  - apply Forall_app; split; [apply utf8_cp_bytes; apply is_scalar_props in Hc; lia | exact IH2].
Qed.

(* quote_plus read back by the form decoder *)
Lemma quote_plus_roundtrip s q : quote_plus s = Some q -> pct_decode_form q = Some s.
Proof.
  unfold quote_plus, quote_with. destruct (utf8_encode s) as [bs|] eqn:E; [|discriminate].
  cbn [omap]. intros H; injection H as <-. apply utf8_roundtrip in E. destruct E as [E1 E2].
  unfold pct_decode_form. rewrite sp_to_plus_quote, pct_bytes_qp by exact E2. cbn [obind]. exact E1.
Qed.

(* quote (any ASCII safe set without the percent sign) read back by the RFC 3986 decoder *)
Lemma quote_with_roundtrip safe s q :
  (forall b, safe b = true -> b < 128 /\ b <> 37) ->
  quote_with safe s = Some q -> pct_decode q = Some s.
Proof.
  intros Hs. unfold quote_with. destruct (utf8_encode s) as [bs|] eqn:E; [|discriminate].
  cbn [omap]. intros H; injection H as <-. apply utf8_roundtrip in E. destruct E as [E1 E2].
  unfold pct_decode. rewrite pct_bytes_quote by assumption. cbn [obind]. exact E1.
Qed.

Lemma quote_path_roundtrip s q : quote_path s = Some q -> pct_decode q = Some s.
Proof.
  apply quote_with_roundtrip. unfold is_slash. intros b H. lia.
Qed.

(* quote succeeds exactly on strings of Unicode scalar values (no lone surrogates) *)
Lemma quote_plus_defined s : (exists q, quote_plus s = Some q) <-> forallb is_scalar s = true.
Proof.
  unfold quote_plus, quote_with, utf8_encode. destruct (forallb is_scalar s); cbn [omap]; split; intros H;
    try reflexivity; try discriminate; [eexists; reflexivity | destruct H as [q H]; discriminate].
Qed.

Example quote_plus_nonvacuous :
  quote_plus [97; 32; 233; 47; 128512; 37] = Some [97;43;37;67;51;37;65;57;37;50;70;37;70;48;37;57;70;37;57;56;37;56;48;37;50;53].
Proof. vm_compute. reflexivity. Qed.

(* path values: quote_all followed by an RFC 3986 path-segment decoder *)
Lemma utf8_cp_no_sp c : c <> 32 -> ~ In 32 (utf8_cp c).
Proof.
  intros Hc. unfold utf8_cp.
  destruct (c <? 128) eqn:E1; [intros [H | []]; lia|].
  destruct (c <? 2048) eqn:E2; [intros [H | [H | []]]; lia|].
  destruct (c <? 65536) eqn:E3; [intros [H | [H | [H | []]]]; lia | intros [H | [H | [H | [H | []]]]]; lia].
Qed.

Lemma flat_map_qp_no_sp bs : ~ In 32 bs -> flat_map qp_byte bs = flat_map (quote_byte no_safe) bs.
Proof.
  induction bs as [|b bs IH]; [reflexivity|]. intros H. cbn [flat_map].
  rewrite IH by (intros Hin; apply H; right; exact Hin). unfold qp_byte.
  destruct (b =? 32) eqn:E; [apply N.eqb_eq in E; subst; exfalso; apply H; left; reflexivity | reflexivity].
Qed.

Lemma quote_plus_path_roundtrip s q : no_space s = true -> quote_plus s = Some q -> pct_decode q = Some s.
Proof.
  intros Hsp. unfold quote_plus, quote_with. destruct (utf8_encode s) as [bs|] eqn:E; [|discriminate].
  cbn [omap]. intros H; injection H as <-.
  assert (Hns : ~ In 32 bs).
  { unfold utf8_encode in E. destruct (forallb is_scalar s); [|discriminate]. injection E as <-.
    unfold no_space in Hsp. apply negb_true_iff in Hsp.
    intros Hin. apply in_flat_map in Hin. destruct Hin as [c [Hc Hin]].
    destruct (N.eq_dec c 32) as [-> | Hne]; [apply mem_spec in Hc; congruence | exact (utf8_cp_no_sp c Hne Hin)]. }
  apply utf8_roundtrip in E. destruct E as [E1 E2].
  unfold pct_decode. rewrite sp_to_plus_quote, flat_map_qp_no_sp by assumption.
  rewrite pct_bytes_quote; [cbn [obind]; exact E1 | unfold no_safe; intros; discriminate | exact E2].
Qed.

Lemma quote_value_path_roundtrip s q : no_space s = true -> quote_value s = Some q -> pct_decode q = Some s.
Proof.
  intros Hsp. unfold quote_value.
  destruct (str_eqb s [46]) eqn:E1; [apply str_eqb_spec in E1; subst; intros H; injection H as <-; reflexivity|].
  destruct (str_eqb s [46; 46]) eqn:E2; [apply str_eqb_spec in E2; subst; intros H; injection H as <-; reflexivity|].
  apply quote_plus_path_roundtrip; exact Hsp.
Qed.

Lemma quote_value_path_refuted : exists s q, quote_value s = Some q /\ pct_decode q <> Some s.
Proof. exists [97; 32; 98], [97; 43; 98]. split; [reflexivity | vm_compute; discriminate]. Qed.

(* and read by a form decoder the same wire text gives the value back: the encoding is the query one *)
Lemma quote_value_form_roundtrip s q : quote_value s = Some q -> pct_decode_form q = Some s.
Proof.
  unfold quote_value.
  destruct (str_eqb s [46]) eqn:E1; [apply str_eqb_spec in E1; subst; intros H; injection H as <-; reflexivity|].
  destruct (str_eqb s [46; 46]) eqn:E2; [apply str_eqb_spec in E2; subst; intros H; injection H as <-; reflexivity|].
  apply quote_plus_roundtrip.
Qed.

(* ------------------------------------------------------------------------------------------------ *)
(* B. style round trips                                                                               *)
(* ------------------------------------------------------------------------------------------------ *)
Lemma split_on_aux_free d x cur : ~ In d x -> split_on_aux d x cur = [rev cur ++ x].
Proof.
  revert cur; induction x as [|c x IH]; intros cur H; cbn [split_on_aux].
  - rewrite app_nil_r; reflexivity.
  - destruct (c =? d) eqn:E.
    + apply N.eqb_eq in E; subst; exfalso; apply H; left; reflexivity.
    + rewrite IH by (intros Hin; apply H; right; exact Hin). cbn [rev]. rewrite <- app_assoc. reflexivity.
Qed.

Lemma split_on_aux_sep d x rest cur :
  ~ In d x -> split_on_aux d (x ++ d :: rest) cur = (rev cur ++ x) :: split_on_aux d rest [].
Proof.
  revert cur; induction x as [|c x IH]; intros cur H; cbn [split_on_aux app].
  - rewrite N.eqb_refl, app_nil_r; reflexivity.
  - destruct (c =? d) eqn:E.
    + apply N.eqb_eq in E; subst; exfalso; apply H; left; reflexivity.
    + rewrite IH by (intros Hin; apply H; right; exact Hin). cbn [rev]. rewrite <- app_assoc. reflexivity.
Qed.

Lemma split_join d l : l <> [] -> Forall (fun x => ~ In d x) l -> split_on d (join [d] l) = l.
Proof.
  induction l as [|x l IH]; [congruence|]. intros _ HF. inversion HF as [|? ? Hx HF']; subst.
  destruct l as [|y l].
  - cbn [join]. unfold split_on. rewrite split_on_aux_free by exact Hx. reflexivity.
  - change (join [d] (x :: y :: l)) with (x ++ d :: join [d] (y :: l)).
    unfold split_on. rewrite split_on_aux_sep by exact Hx. cbn [rev app].
    f_equal. apply IH; [discriminate | exact HF'].
Qed.

Lemma is_nil_app_cons {A} (x : list A) c r : is_nil (x ++ c :: r) = false.
Proof. destruct x; reflexivity. Qed.

Lemma split_list_join d l : l <> [[]] -> Forall (fun x => ~ In d x) l -> split_list d (join [d] l) = l.
Proof.
  intros Hne HF. unfold split_list. destruct l as [|x l]; [reflexivity|].
  destruct l as [|y l].
  - cbn [join]. destruct x as [|c x]; [congruence|]. cbn [is_nil].
    change (c :: x) with (join [d] [c :: x]). apply split_join; [discriminate | exact HF].
  - change (join [d] (x :: y :: l)) with (x ++ d :: join [d] (y :: l)). rewrite is_nil_app_cons.
    change (x ++ d :: join [d] (y :: l)) with (join [d] (x :: y :: l)). apply split_join; [discriminate | exact HF].
Qed.

Lemma join_nil_iff d l : Forall (fun x => x <> []) l -> is_nil (join [d] l) = true -> l = [].
Proof.
  intros HF. destruct l as [|x l]; [reflexivity|]. inversion HF as [|? ? Hx _]; subst.
  destruct l as [|y l].
  - cbn [join]. destruct x; [congruence | discriminate].
  - change (join [d] (x :: y :: l)) with (x ++ d :: join [d] (y :: l)). rewrite is_nil_app_cons. discriminate.
Qed.

Lemma free_of_spec cs s : free_of cs s = true -> forall c, In c cs -> ~ In c s.
Proof.
  unfold free_of. intros H c Hc Hin. apply negb_true_iff in H.
  assert (E : existsb (fun c0 => mem c0 cs) s = true).
  { apply existsb_exists. exists c. split; [exact Hin | apply mem_spec; exact Hc]. }
  congruence.
Qed.

Lemma forallb_free cs l d : In d cs -> forallb (free_of cs) l = true -> Forall (fun x => ~ In d x) l.
Proof.
  intros Hd H. apply Forall_forall. intros x Hx. rewrite forallb_forall in H.
  exact (free_of_spec cs x (H x Hx) d Hd).
Qed.

Lemma pair_up_flat {A} (g : A -> str) (l : list (str * A)) :
  pair_up (flat_map (fun kv => [fst kv; g (snd kv)]) l) = Some (map (fun kv => (fst kv, g (snd kv))) l).
Proof. induction l as [|kv l IH]; [reflexivity|]. cbn [flat_map app pair_up map]. rewrite IH. reflexivity. Qed.

Lemma split_first_spec c k v acc : ~ In c k -> split_first c (k ++ c :: v) acc = Some (rev acc ++ k, v).
Proof.
  revert acc; induction k as [|x k IH]; intros acc H; cbn [app split_first].
  - rewrite N.eqb_refl, app_nil_r. reflexivity.
  - destruct (x =? c) eqn:E; [apply N.eqb_eq in E; subst; exfalso; apply H; left; reflexivity|].
    rewrite IH by (intros Hin; apply H; right; exact Hin). cbn [rev]. rewrite <- app_assoc. reflexivity.
Qed.

Lemma all_some_map {A B} (f : A -> option B) (g : A -> B) l :
  (forall x, In x l -> f x = Some (g x)) -> all_some (map f l) = Some (map g l).
Proof.
  induction l as [|x l IH]; intros H; [reflexivity|]. cbn [map all_some].
  rewrite (H x) by (left; reflexivity). rewrite IH by (intros y Hy; apply H; right; exact Hy). reflexivity.
Qed.

Lemma strip_prefix_app p s : strip_prefix p (p ++ s) = Some s.
Proof. induction p as [|x p IH]; [destruct s; reflexivity|]. cbn [app strip_prefix]. rewrite N.eqb_refl. exact IH. Qed.

Lemma kv_eq_nonempty kv : kv_eq kv <> [].
Proof. unfold kv_eq. destruct (fst kv); discriminate. Qed.

Lemma flat_pairs_not_single {A} (g : A -> str) (l : list (str * A)) :
  flat_map (fun kv => [fst kv; g (snd kv)]) l <> [[]].
Proof. destruct l as [|kv l]; cbn; discriminate. Qed.

Lemma flat_pairs_nil {A} (g : A -> str) (l : list (str * A)) d :
  is_nil (join [d] (flat_map (fun kv => [fst kv; g (snd kv)]) l)) = true -> l = [].
Proof.
  destruct l as [|kv l]; [reflexivity|]. cbn [flat_map app].
  set (r := flat_map _ l).
  change (join [d] (fst kv :: g (snd kv) :: r)) with (fst kv ++ d :: join [d] (g (snd kv) :: r)).
  rewrite is_nil_app_cons. discriminate.
Qed.

(* k=v pairs joined by d and split again *)
Lemma dec_pairs_make d l :
  d <> 61 ->
  Forall (fun kv => ~ In d (fst kv) /\ ~ In d (py_str (snd kv)) /\ ~ In 61 (fst kv)) l ->
  dec_pairs d (make_delimited l d) = Some (map (fun kv => (fst kv, py_str (snd kv))) l).
Proof.
  intros Hd HF. unfold dec_pairs, make_delimited.
  rewrite split_list_join.
  - rewrite map_map. apply all_some_map. intros kv Hkv. rewrite Forall_forall in HF.
    destruct (HF kv Hkv) as [_ [_ Hk]]. unfold kv_eq. cbn [app].
    rewrite split_first_spec by exact Hk. reflexivity.
  - destruct l as [|kv [|kv2 l]]; cbn [map]; try discriminate.
    intros H; injection H as H. exact (kv_eq_nonempty kv H).
  - apply Forall_forall. intros x Hx. apply in_map_iff in Hx. destruct Hx as [kv [<- Hkv]].
    rewrite Forall_forall in HF. destruct (HF kv Hkv) as [H1 [H2 _]]. unfold kv_eq.
    intros Hin. apply in_app_or in Hin. destruct Hin as [Hin | Hin]; [exact (H1 Hin)|].
    cbn [app] in Hin. destruct Hin as [Hin | Hin]; [congruence | exact (H2 Hin)].
Qed.

Lemma make_delimited_nil d l : is_nil (make_delimited l d) = true -> l = [].
Proof.
  unfold make_delimited. intros H. apply join_nil_iff in H.
  - destruct l; [reflexivity | discriminate].
  - apply Forall_forall. intros x Hx. apply in_map_iff in Hx. destruct Hx as [kv [<- _]]. apply kv_eq_nonempty.
Qed.

(* region hypotheses in Prop form *)
Lemma obj_items_free cs d (l : list (str * pyv)) :
  In d cs -> forallb (free_of cs) (flat_map (fun kv => [fst kv; py_str (snd kv)]) l) = true ->
  Forall (fun kv => ~ In d (fst kv) /\ ~ In d (py_str (snd kv))) l.
Proof.
  intros Hd H. apply Forall_forall. intros kv Hkv. rewrite forallb_forall in H.
  split; apply (fun x Hx => free_of_spec cs x (H x Hx) d Hd); apply in_flat_map; exists kv; split; try exact Hkv.
  - left; reflexivity.
  - right; left; reflexivity.
Qed.

Lemma keys_free (l : list (str * pyv)) :
  forallb (free_of [61]) (map fst l) = true -> Forall (fun kv => ~ In 61 (fst kv)) l.
Proof.
  intros H. apply Forall_forall. intros kv Hkv. rewrite forallb_forall in H.
  apply (free_of_spec [61] (fst kv)); [apply H; apply in_map; exact Hkv | left; reflexivity].
Qed.

Lemma obj_pairs_ok cs d (l : list (str * pyv)) :
  In d cs -> forallb (free_of cs) (flat_map (fun kv => [fst kv; py_str (snd kv)]) l) = true ->
  forallb (free_of [61]) (map fst l) = true ->
  Forall (fun kv => ~ In d (fst kv) /\ ~ In d (py_str (snd kv)) /\ ~ In 61 (fst kv)) l.
Proof.
  intros Hd H1 H2. pose proof (obj_items_free cs d l Hd H1) as F1. pose proof (keys_free l H2) as F2.
  rewrite Forall_forall in *. intros kv Hkv. destruct (F1 kv Hkv) as [A B]. repeat split; auto.
Qed.

Lemma d_get_single {A} name (v : A) : d_get name [(name, v)] = Some v.
Proof. cbn [d_get]. rewrite str_eqb_refl. reflexivity. Qed.
Lemma d_set_single {A} name (x v : A) : d_set name x [(name, v)] = [(name, x)].
Proof. cbn [d_set]. rewrite str_eqb_refl. reflexivity. Qed.
Lemma d_pop_single {A} name (v : A) : d_pop name [(name, v)] = [].
Proof. cbn [d_pop]. rewrite str_eqb_refl. reflexivity. Qed.

Lemma not_single_empty_arr l : not_single_empty (VArr l) = true -> map py_str l <> [[]].
Proof.
  destruct l as [|p [|q l]]; cbn [not_single_empty map]; try discriminate.
  intros H E. injection E as E. rewrite E in H. discriminate.
Qed.

Lemma or_iter_arr l : or_iter (VArr l) = Some l.
Proof. unfold or_iter. destruct l; reflexivity. Qed.
Lemma or_dict_obj l : or_dict (VObj l) = Some l.
Proof. unfold or_dict. destruct l; reflexivity. Qed.

(* the simple serializers: one string stored under the name *)
Definition simple_sfun (f : sfun) : bool :=
  match f with FDeepObject | FExtracted | FNothing | FToJson => false | _ => true end.

Lemma simple_reduce f name v it :
  simple_sfun f = true -> apply_sfun f name [(name, v)] = Some it ->
  exists s, new_value f name v = Some s /\ decode f name it = dec_value f name s.
Proof.
  intros Hf. unfold apply_sfun. rewrite d_get_single.
  destruct f; try discriminate Hf; cbv beta match;
    (destruct (new_value _ name v) as [s|] eqn:E; cbn [omap]; [|discriminate];
     intros H; injection H as <-; exists s; split; [reflexivity|];
     rewrite ?d_set_single, ?str_eqb_refl; unfold decode; rewrite d_get_single; reflexivity).
Qed.

Lemma prefix_strip c s : is_nil s = false -> strip_prefix [c] (prefix_if_nonempty c s) = Some s /\ is_nil (prefix_if_nonempty c s) = false.
Proof.
  intros H. unfold prefix_if_nonempty. rewrite H. cbn [strip_prefix]. rewrite N.eqb_refl.
  split; [destruct s; reflexivity | reflexivity].
Qed.

Ltac split_region H :=
  unfold style_region in H; rewrite !andb_true_iff in H;
  destruct H as [[[[Hshape Hfree] Hne] Hstd] Hname].

Lemma arr_free dl l : delimiter_free (FDelimited dl) (VArr l) = true -> Forall (fun x => ~ In dl x) (map py_str l).
Proof.
  unfold delimiter_free. rewrite andb_true_iff. intros [H _]. cbn [items_of delims_of] in H.
  apply (forallb_free [dl]); [left; reflexivity | exact H].
Qed.

Lemma rt_delimited dl name l s :
  style_region (FDelimited dl) name (VArr l) = true -> new_value (FDelimited dl) name (VArr l) = Some s ->
  dec_value (FDelimited dl) name s = Some (coerce (VArr l)).
Proof.
  intros HR. split_region HR. cbn [new_value]. rewrite or_iter_arr. cbn [omap]. intros H; injection H as <-.
  cbn [dec_value coerce coerce_with]. rewrite split_list_join; [reflexivity | apply not_single_empty_arr; exact Hne | apply arr_free; exact Hfree].
Qed.

Lemma rt_comma_obj name l s :
  style_region FCommaObj name (VObj l) = true -> new_value FCommaObj name (VObj l) = Some s ->
  dec_value FCommaObj name s = Some (coerce (VObj l)).
Proof.
  intros HR. split_region HR. cbn [new_value]. rewrite or_dict_obj. cbn [omap]. intros H; injection H as <-.
  cbn [dec_value coerce coerce_with]. unfold comma_flat.
  unfold delimiter_free in Hfree. rewrite andb_true_iff in Hfree. destruct Hfree as [Hfree _]. cbn [items_of delims_of] in Hfree.
  rewrite split_list_join; [rewrite pair_up_flat; reflexivity | apply flat_pairs_not_single |].
  apply (forallb_free [44]); [left; reflexivity | exact Hfree].
Qed.

Lemma rt_delim_obj name l s :
  style_region FDelimObj name (VObj l) = true -> new_value FDelimObj name (VObj l) = Some s ->
  dec_value FDelimObj name s = Some (coerce (VObj l)).
Proof.
  intros HR. split_region HR. cbn [new_value]. rewrite or_dict_obj. cbn [omap]. intros H; injection H as <-.
  cbn [dec_value coerce coerce_with].
  unfold delimiter_free in Hfree. rewrite andb_true_iff in Hfree. destruct Hfree as [Hfree Hkeys].
  cbn [items_of keys_ok keys_of] in Hfree, Hkeys.
  rewrite dec_pairs_make; [reflexivity | lia |]. apply (obj_pairs_ok [44]); [left; reflexivity | exact Hfree | exact Hkeys].
Qed.

Lemma rt_label_prim name p s :
  style_region FLabelPrim name (VPrim p) = true -> new_value FLabelPrim name (VPrim p) = Some s ->
  dec_value FLabelPrim name s = Some (coerce (VPrim p)).
Proof.
  intros HR. split_region HR. cbn [nonempty_ok] in Hne. cbn [new_value]. rewrite Hne. intros H; injection H as <-.
  cbn [dec_value coerce coerce_with strip_prefix]. rewrite N.eqb_refl. destruct (py_str p); reflexivity.
Qed.

Lemma rt_label_arr e name l s :
  style_region (FLabelArr e) name (VArr l) = true -> new_value (FLabelArr e) name (VArr l) = Some s ->
  dec_value (FLabelArr e) name s = Some (coerce (VArr l)).
Proof.
  intros HR. split_region HR. cbn [new_value]. rewrite or_iter_arr. cbn [omap]. intros H; injection H as <-.
  cbn [dec_value coerce coerce_with].
  set (d := if e then 46 else 44). set (strs := map py_str l).
  assert (HF : Forall (fun x => ~ In d x) strs).
  { unfold delimiter_free in Hfree. rewrite andb_true_iff in Hfree. destruct Hfree as [Hfree _].
    cbn [items_of delims_of] in Hfree. apply (forallb_free [d]); [left; reflexivity | exact Hfree]. }
  assert (Hns : strs <> [[]]) by (apply not_single_empty_arr; exact Hne).
  destruct (is_nil (join [d] strs)) eqn:En.
  - unfold prefix_if_nonempty. rewrite En. cbn [is_nil].
    pose proof (split_list_join d strs Hns HF) as Hsl. unfold split_list in Hsl. rewrite En in Hsl. rewrite <- Hsl. reflexivity.
  - destruct (prefix_strip 46 _ En) as [H1 H2]. rewrite H2, H1. cbn [omap].
    pose proof (split_list_join d strs Hns HF) as Hsl. unfold split_list in Hsl. rewrite En in Hsl. rewrite Hsl. reflexivity.
Qed.

Lemma rt_label_obj e name l s :
  style_region (FLabelObj e) name (VObj l) = true -> new_value (FLabelObj e) name (VObj l) = Some s ->
  dec_value (FLabelObj e) name s = Some (coerce (VObj l)).
Proof.
  intros HR. split_region HR. cbn [new_value]. rewrite or_dict_obj. cbn [omap]. intros H; injection H as <-.
  cbn [dec_value coerce coerce_with].
  unfold delimiter_free in Hfree. rewrite andb_true_iff in Hfree. destruct Hfree as [Hfree Hkeys].
  destruct e.
  - cbn [items_of keys_ok keys_of] in Hfree, Hkeys.
    destruct (is_nil (make_delimited l 46)) eqn:En.
    + apply make_delimited_nil in En. subst l. reflexivity.
    + destruct (prefix_strip 46 _ En) as [H1 H2]. rewrite H2, H1. cbn [obind].
      rewrite dec_pairs_make; [reflexivity | lia |]. apply (obj_pairs_ok [46]); [left; reflexivity | exact Hfree | exact Hkeys].
  - cbn [items_of delims_of] in Hfree. unfold comma_flat.
    destruct (is_nil (join [44] (flat_map (fun kv => [fst kv; py_str (snd kv)]) l))) eqn:En.
    + apply flat_pairs_nil in En. subst l. reflexivity.
    + destruct (prefix_strip 46 _ En) as [H1 H2]. rewrite H2, H1. cbn [obind].
      rewrite split_join; [rewrite pair_up_flat; reflexivity | |].
      * destruct l; [discriminate En | cbn; discriminate].
      * apply (forallb_free [44]); [left; reflexivity | exact Hfree].
Qed.

Lemma strip_matrix_prefix name x : strip_prefix (59 :: name ++ [61]) (59 :: name ++ 61 :: x) = Some x.
Proof.
  replace (59 :: name ++ 61 :: x) with ((59 :: name ++ [61]) ++ x) by (cbn [app]; rewrite <- app_assoc; reflexivity).
  apply strip_prefix_app.
Qed.

Lemma rt_matrix_prim name p s :
  style_region FMatrixPrim name (VPrim p) = true -> new_value FMatrixPrim name (VPrim p) = Some s ->
  dec_value FMatrixPrim name s = Some (coerce (VPrim p)).
Proof.
  intros HR. split_region HR. cbn [nonempty_ok] in Hne. cbn [new_value dec_value coerce coerce_with].
  destruct p; try discriminate Hne; intros H; injection H as <-; rewrite strip_matrix_prefix; reflexivity.
Qed.

Lemma rt_matrix_arr name l s :
  style_region (FMatrixArr true) name (VArr l) = true -> new_value (FMatrixArr true) name (VArr l) = Some s ->
  dec_value (FMatrixArr true) name s = Some (coerce (VArr l)).
Proof.
  intros HR. split_region HR. cbn [new_value]. rewrite or_iter_arr. cbn [omap]. intros H; injection H as <-.
  cbn [dec_value coerce coerce_with].
  set (items := map (fun p => name ++ 61 :: py_str p) l).
  assert (HF : Forall (fun x => ~ In 59 x) items).
  { unfold delimiter_free in Hfree. rewrite andb_true_iff in Hfree. destruct Hfree as [Hfree _].
    cbn [items_of delims_of] in Hfree. cbn [name_ok] in Hname.
    pose proof (forallb_free [59] _ 59 (or_introl eq_refl) Hfree) as HF1. rewrite Forall_forall in HF1.
    pose proof (free_of_spec [59] name Hname 59 (or_introl eq_refl)) as Hn.
    apply Forall_forall. intros x Hx. apply in_map_iff in Hx. destruct Hx as [p [<- Hp]].
    intros Hin. apply in_app_or in Hin. destruct Hin as [Hin | Hin]; [exact (Hn Hin)|].
    cbn [app] in Hin. destruct Hin as [Hin | Hin]; [lia|]. apply (HF1 (py_str p)); [apply in_map; exact Hp | exact Hin]. }
  destruct (is_nil (join [59] items)) eqn:En.
  - apply join_nil_iff in En.
    + unfold items in En. destruct l; [reflexivity | discriminate].
    + apply Forall_forall. intros x Hx. apply in_map_iff in Hx. destruct Hx as [p [<- _]]. destruct name; discriminate.
  - destruct (prefix_strip 59 _ En) as [H1 H2]. rewrite H2, H1. cbn [obind].
    rewrite split_join; [| destruct l; [discriminate En | discriminate] | exact HF].
    unfold items. rewrite map_map. rewrite (all_some_map _ py_str); [reflexivity|].
    intros p _. change (name ++ 61 :: py_str p) with (name ++ [61] ++ py_str p). rewrite app_assoc. apply strip_prefix_app.
Qed.

Lemma rt_matrix_obj name l s :
  style_region (FMatrixObj true) name (VObj l) = true -> new_value (FMatrixObj true) name (VObj l) = Some s ->
  dec_value (FMatrixObj true) name s = Some (coerce (VObj l)).
Proof.
  intros HR. split_region HR. cbn [new_value]. rewrite or_dict_obj. cbn [omap]. intros H; injection H as <-.
  cbn [dec_value coerce coerce_with].
  unfold delimiter_free in Hfree. rewrite andb_true_iff in Hfree. destruct Hfree as [Hfree Hkeys].
  cbn [items_of keys_ok keys_of] in Hfree, Hkeys.
  destruct (is_nil (make_delimited l 59)) eqn:En.
  - apply make_delimited_nil in En. subst l. reflexivity.
  - destruct (prefix_strip 59 _ En) as [H1 H2]. rewrite H2, H1. cbn [obind].
    rewrite dec_pairs_make; [reflexivity | lia |]. apply (obj_pairs_ok [59]); [left; reflexivity | exact Hfree | exact Hkeys].
Qed.

(* ---- dict lemmas for the two serializers that rewrite the container *)
Lemma d_set_fresh {A} k (v : A) d : ~ In k (map fst d) -> d_set k v d = d ++ [(k, v)].
Proof.
  induction d as [|[k' v'] d IH]; intros H; [reflexivity|]. cbn [d_set app].
  destruct (str_eqb k k') eqn:E.
  - apply str_eqb_spec in E. subst. exfalso. apply H. left. reflexivity.
  - rewrite IH; [reflexivity|]. intros Hin. apply H. right. exact Hin.
Qed.

Lemma d_update_nodup {A} (new d : list (str * A)) : NoDup (map fst d ++ map fst new) -> d_update d new = d ++ new.
Proof.
  revert d. induction new as [|[k v] new IH]; intros d H; [rewrite app_nil_r; reflexivity|].
  unfold d_update. cbn [fold_left fst snd]. cbn [map fst] in H.
  rewrite d_set_fresh.
  - change (fold_left _ new (d ++ [(k, v)])) with (d_update (d ++ [(k, v)]) new).
    rewrite IH; [rewrite <- app_assoc; reflexivity|].
    rewrite map_app. cbn [map fst]. rewrite <- app_assoc. exact H.
  - apply NoDup_remove_2 in H. intros Hin. apply H. apply in_or_app. left. exact Hin.
Qed.

Lemma nodup_strs_spec l : nodup_strs l = true -> NoDup l.
Proof.
  induction l as [|x l IH]; [constructor|]. cbn [nodup_strs]. rewrite andb_true_iff, negb_true_iff. intros [H1 H2].
  constructor; [|apply IH; exact H2]. intros Hin.
  assert (E : existsb (str_eqb x) l = true) by (apply existsb_exists; exists x; split; [exact Hin | apply str_eqb_refl]).
  congruence.
Qed.

Lemma NoDup_map_inj {A B} (f : A -> B) l : (forall x y, f x = f y -> x = y) -> NoDup l -> NoDup (map f l).
Proof.
  intros Hinj. induction 1 as [|x l Hx _ IH]; [constructor|]. cbn [map]. constructor; [|exact IH].
  intros Hin. apply in_map_iff in Hin. destruct Hin as [y [Hy Hin]]. apply Hinj in Hy. subst. exact (Hx Hin).
Qed.

Lemma deep_key_spec name k : deep_key name (name ++ 91 :: k ++ [93]) = Some k.
Proof.
  unfold deep_key. change (name ++ 91 :: k ++ [93]) with (name ++ [91] ++ (k ++ [93])). rewrite app_assoc, strip_prefix_app. cbn [obind].
  rewrite rev_app_distr. cbn [rev app]. rewrite rev_involutive. reflexivity.
Qed.

Lemma dec_deep_spec name (l : list (str * pyv)) :
  dec_deep name (map (fun kv : str * value => (name ++ 91 :: fst kv ++ [93], snd kv))
                     (map (fun kv : str * pyv => (fst kv, VPrim (snd kv))) l))
  = Some (map (fun kv => (fst kv, py_str (snd kv))) l).
Proof.
  rewrite map_map. cbn [fst snd].
  induction l as [|kv l IH]; [reflexivity|]. cbn [map dec_deep]. rewrite deep_key_spec. cbn [entry_str].
  rewrite IH. reflexivity.
Qed.

Lemma rt_deep name l it :
  style_region FDeepObject name (VObj l) = true -> apply_sfun FDeepObject name [(name, VObj l)] = Some it ->
  decode FDeepObject name it = Some (coerce (VObj l)).
Proof.
  intros HR. split_region HR. cbn [shape_ok shape_obj keys_of] in Hshape. cbn [andb] in Hshape.
  cbn [nonempty_ok nonempty] in Hne.
  unfold apply_sfun. rewrite d_get_single, d_pop_single. cbn [truthy]. rewrite Hne.
  intros H; injection H as <-. unfold decode.
  rewrite d_update_nodup.
  - cbn [app]. rewrite dec_deep_spec. reflexivity.
  - cbn [map app force_dict_v]. rewrite !map_map. cbn [fst].
    rewrite <- (map_map fst (fun k => name ++ 91 :: k ++ [93])).
    apply NoDup_map_inj; [|apply nodup_strs_spec; exact Hshape].
    intros x y E. apply app_inv_head in E. injection E as E. apply app_inv_tail in E. exact E.
Qed.

Lemma rt_extracted name l it :
  style_region FExtracted name (VObj l) = true -> apply_sfun FExtracted name [(name, VObj l)] = Some it ->
  decode FExtracted name it = Some (coerce (VObj l)).
Proof.
  intros HR. split_region HR. cbn [shape_ok shape_obj keys_of] in Hshape. cbn [andb] in Hshape.
  cbn [nonempty_ok nonempty] in Hne.
  unfold apply_sfun. rewrite d_get_single, d_pop_single.
  destruct l as [|e l]; [discriminate Hne|].
  intros H; injection H as <-. unfold decode.
  rewrite d_update_nodup.
  - change ([(fst e, VPrim (snd e))] ++ map (fun kv : str * pyv => (fst kv, VPrim (snd kv))) l)
      with (map (fun kv : str * pyv => (fst kv, VPrim (snd kv))) (e :: l)).
    unfold dec_extracted. rewrite map_map.
    rewrite (all_some_map _ (fun kv : str * pyv => (fst kv, py_str (snd kv)))); [reflexivity|].
    intros kv _. reflexivity.
  - change (map fst [(fst e, VPrim (snd e))] ++ map fst (map (fun kv : str * pyv => (fst kv, VPrim (snd kv))) l))
      with (map fst (map (fun kv : str * pyv => (fst kv, VPrim (snd kv))) (e :: l))).
    rewrite map_map. cbn [fst]. apply nodup_strs_spec. exact Hshape.
Qed.

(* ---- the combined statement *)
Theorem style_roundtrip f name v it :
  style_region f name v = true -> apply_sfun f name [(name, v)] = Some it -> decode f name it = Some (coerce v).
Proof.
  intros HR Happ.
  assert (Hshape : shape_ok f v = true /\ code_follows_standard f = true).
  { unfold style_region in HR. rewrite !andb_true_iff in HR. tauto. }
  destruct Hshape as [Hshape Hstd].
  destruct (simple_sfun f) eqn:Hs.
  - destruct (simple_reduce f name v it Hs Happ) as [s [Hnew ->]].
    destruct f; try discriminate Hs; destruct v as [p | l | l]; try discriminate Hshape.
    + eapply rt_delimited; eassumption.
    + eapply rt_comma_obj; eassumption.
    + eapply rt_delim_obj; eassumption.
    + eapply rt_label_prim; eassumption.
    + eapply rt_label_arr; eassumption.
    + eapply rt_label_obj; eassumption.
    + eapply rt_matrix_prim; eassumption.
    + destruct e; [eapply rt_matrix_arr; eassumption | discriminate Hstd].
    + destruct e; [eapply rt_matrix_obj; eassumption | discriminate Hstd].
    + unfold style_region in HR. cbn [new_value] in Hnew. injection Hnew as <-. reflexivity.
  - destruct f; try discriminate Hs; try discriminate Hshape; destruct v as [p | l | l]; try discriminate Hshape.
    + eapply rt_deep; eassumption.
    + eapply rt_extracted; eassumption.
Qed.

Example style_roundtrip_nonvacuous :
  style_region (FLabelObj true) [105;100] (VObj [([114], PStr [97;32;98]); ([107], PBool true)]) = true
  /\ style_region FDeepObject [111] (VObj [([107], PInt 5); ([], PStr [])]) = true
  /\ style_region (FMatrixArr true) [105;100] (VArr [PStr [51]; PInt (-4)%Z; PNone]) = true
  /\ style_region (FDelimited 124) [113] (VArr [PStr [97;44;98]; PStr []]) = true.
Proof. vm_compute. repeat split. Qed.

(* ------------------------------------------------------------------------------------------------ *)
(* C. refutations: concrete witnesses                                                                 *)
(* ------------------------------------------------------------------------------------------------ *)
Definition enc (f : sfun) (name : str) (v : value) : option item := apply_sfun f name [(name, v)].

(* two different generated values with the same wire form: no decoder whatsoever can recover both *)
Definition collision (f : sfun) (name : str) (v1 v2 : value) : Prop :=
  enc f name v1 = enc f name v2 /\ enc f name v1 <> None /\ coerce v1 <> coerce v2.

Lemma collision_no_decoder f name v1 v2 :
  collision f name v1 v2 ->
  forall dec : item -> option cvalue,
    ~ (forall v it, (v = v1 \/ v = v2) -> enc f name v = Some it -> dec it = Some (coerce v)).
Proof.
  intros [He [Hn Hc]] dec H. destruct (enc f name v1) as [it|] eqn:E1; [|congruence].
  pose proof (H v1 it (or_introl eq_refl) E1) as A. symmetry in He.
  pose proof (H v2 it (or_intror eq_refl) He) as B. congruence.
Qed.

(* delimiter inside an item: [a,b] and [a ; b] *)
Lemma delimiter_collision :
  collision (FDelimited 44) [113] (VArr [PStr [97;44;98]]) (VArr [PStr [97]; PStr [98]])
  /\ collision FCommaObj [113] (VObj [([107], PStr [97;44;98;44;99])]) (VObj [([107], PStr [97]); ([98], PStr [99])])
  /\ collision (FLabelArr true) [113] (VArr [PStr [49;46;53]]) (VArr [PStr [49]; PStr [53]])
  /\ collision (FMatrixObj true) [113] (VObj [([107], PStr [97;59;98;61;99])]) (VObj [([107], PStr [97]); ([98], PStr [99])]).
Proof. repeat split; try (vm_compute; reflexivity); vm_compute; discriminate. Qed.

(* the empty array and the array holding one empty string *)
Lemma empty_collision :
  collision (FDelimited 44) [113] (VArr []) (VArr [PStr []])
  /\ collision (FLabelArr false) [113] (VArr []) (VArr [PStr []])
  /\ collision (FMatrixArr false) [113] (VArr []) (VArr [PStr []]).
Proof. repeat split; try (vm_compute; reflexivity); vm_compute; discriminate. Qed.

(* label primitives are tested for truth: 0, False and the empty string are all sent as the empty string *)
Lemma label_falsy_collision :
  collision FLabelPrim [105;100] (VPrim (PInt 0)) (VPrim (PBool false))
  /\ style_region FLabelPrim [105;100] (VPrim (PInt 0)) = false
  /\ (forall it, enc FLabelPrim [105;100] (VPrim (PInt 0)) = Some it -> decode FLabelPrim [105;100] it = None).
Proof.
  split; [repeat split; try (vm_compute; reflexivity); vm_compute; discriminate|].
  split; [reflexivity|]. intros it H. vm_compute in H. injection H as <-. reflexivity.
Qed.

(* matrix without explode: the code writes ;3,4 where RFC 6570 and the OpenAPI table have ;id=3,4 *)
Lemma matrix_noexplode_refuted :
  exists name v it, shape_ok (FMatrixArr false) v = true /\ delimiter_free (FMatrixArr false) v = true
    /\ nonempty_ok (FMatrixArr false) v = true
    /\ enc (FMatrixArr false) name v = Some it /\ decode (FMatrixArr false) name it <> Some (coerce v).
Proof.
  exists [105;100], (VArr [PInt 3; PInt 4]), [([105;100], sval [59;51;44;52])].
  repeat split; try reflexivity. vm_compute. discriminate.
Qed.
Lemma matrix_obj_noexplode_refuted :
  exists name v it, shape_ok (FMatrixObj false) v = true /\ delimiter_free (FMatrixObj false) v = true
    /\ nonempty_ok (FMatrixObj false) v = true
    /\ enc (FMatrixObj false) name v = Some it /\ decode (FMatrixObj false) name it <> Some (coerce v).
Proof.
  exists [105;100], (VObj [([114], PStr [97])]), [([105;100], sval [59;114;44;97])].
  repeat split; try reflexivity. vm_compute. discriminate.
Qed.

(* cookie array / object with explode: the parameter is removed from the request *)
Definition cookie_explode_arr : definition :=
  {| d_name := [99]; d_in := LCookie; d_style := StForm; d_explode := Some true; d_type := TArray; d_content := CtNone |}.
Lemma cookie_explode_removed :
  serialize3 [cookie_explode_arr] [([99], VArr [PStr [97]])] = Some []
  /\ serialize3 [cookie_explode_arr] [([99], VArr [PStr [98]; PStr [99]])] = Some [].
Proof. split; reflexivity. Qed.

(* jsonify_python_specific_types respells a boolean directly under the container and inside an object, not inside an array *)
Lemma jsonify_skips_arrays :
  jsonify [([113], VPrim (PBool true)); ([97], VArr [PBool true]); ([111], VObj [([107], PBool true)])]
  = [([113], VPrim (PStr s_true)); ([97], VArr [PBool true]); ([111], VObj [([107], PStr s_true)])].
Proof. reflexivity. Qed.

(* the style of a path parameter defaults to simple and explode of a form query parameter to true (OpenAPI 3):
   the dispatch looks at the literal keywords only, so nothing is serialized when they are left out *)
Lemma default_style_not_applied :
  ser3_one {| d_name := [105;100]; d_in := LPath; d_style := StNone; d_explode := None; d_type := TArray; d_content := CtNone |} = []
  /\ ser3_one {| d_name := [105;100]; d_in := LPath; d_style := StSimple; d_explode := None; d_type := TObject; d_content := CtNone |} = []
  /\ ser3_one {| d_name := [113]; d_in := LQuery; d_style := StNone; d_explode := None; d_type := TObject; d_content := CtNone |} = []
  /\ ser3_one {| d_name := [99]; d_in := LCookie; d_style := StNone; d_explode := None; d_type := TArray; d_content := CtNone |} = [FToString].
Proof. repeat split. Qed.

(* ------------------------------------------------------------------------------------------------ *)
(* D. headers                                                                                         *)
(* ------------------------------------------------------------------------------------------------ *)
Lemma ci_eqb_spec a b : ci_eqb a b = true <-> lower_ascii a = lower_ascii b.
Proof. unfold ci_eqb. apply str_eqb_spec. Qed.
Lemma ci_eqb_refl a : ci_eqb a a = true.
Proof. apply ci_eqb_spec. reflexivity. Qed.
Lemma ci_eqb_sym a b : ci_eqb a b = ci_eqb b a.
Proof.
  destruct (ci_eqb a b) eqn:E1, (ci_eqb b a) eqn:E2; try reflexivity.
  - apply ci_eqb_spec in E1. symmetry in E1. apply ci_eqb_spec in E1. congruence.
  - apply ci_eqb_spec in E2. symmetry in E2. apply ci_eqb_spec in E2. congruence.
Qed.
Lemma ci_eqb_trans a b c : ci_eqb a b = true -> ci_eqb b c = true -> ci_eqb a c = true.
Proof. rewrite !ci_eqb_spec. congruence. Qed.
Lemma ci_eqb_trans_false a b c : ci_eqb a b = true -> ci_eqb a c = false -> ci_eqb b c = false.
Proof.
  intros H1 H2. destruct (ci_eqb b c) eqn:E; [|reflexivity]. rewrite (ci_eqb_trans a b c H1 E) in H2. discriminate.
Qed.

Lemma ci_get_cong k k' h : ci_eqb k k' = true -> ci_get k h = ci_get k' h.
Proof.
  intros H. induction h as [|[k0 v0] h IH]; [reflexivity|]. cbn [ci_get].
  destruct (ci_eqb k k0) eqn:E.
  - rewrite ci_eqb_sym in H. rewrite (ci_eqb_trans k' k k0 H E). reflexivity.
  - rewrite (ci_eqb_trans_false k k' k0 H E). exact IH.
Qed.

Lemma ci_get_set k k' v h : ci_get k (ci_set k' v h) = if ci_eqb k k' then Some v else ci_get k h.
Proof.
  induction h as [|[k0 v0] h IH]; cbn [ci_set ci_get]; [reflexivity|].
  destruct (ci_eqb k' k0) eqn:E0; cbn [ci_get].
  - destruct (ci_eqb k k') eqn:E1; [reflexivity|].
    rewrite ci_eqb_sym in E1. rewrite ci_eqb_sym. rewrite ci_eqb_sym in E0.
    assert (ci_eqb k0 k = false) as ->; [|reflexivity].
    destruct (ci_eqb k0 k) eqn:E2; [|reflexivity]. rewrite ci_eqb_sym in E0.
    rewrite (ci_eqb_trans k' k0 k E0 E2) in E1. discriminate.
  - destruct (ci_eqb k k0) eqn:E2.
    + destruct (ci_eqb k k') eqn:E1; [|reflexivity].
      rewrite ci_eqb_sym in E1. rewrite (ci_eqb_trans k' k k0 E1 E2) in E0. discriminate.
    + exact IH.
Qed.

Lemma ci_get_app k a b : ci_get k (a ++ b) = match ci_get k a with Some x => Some x | None => ci_get k b end.
Proof. induction a as [|[k0 v0] a IH]; [reflexivity|]. cbn [app ci_get]. destruct (ci_eqb k k0); [reflexivity | exact IH]. Qed.

(* dict.update: the LAST entry of the explicit headers that matches wins, then the case headers *)
Lemma ci_get_update k new h :
  ci_get k (ci_update h new) = match ci_get k (rev new) with Some x => Some x | None => ci_get k h end.
Proof.
  revert h. induction new as [|[k' v'] new IH]; intros h; [reflexivity|].
  unfold ci_update. cbn [fold_left fst snd]. change (fold_left _ new ?d) with (ci_update d new).
  rewrite IH, ci_get_set. cbn [rev]. rewrite ci_get_app. cbn [ci_get].
  destruct (ci_get k (rev new)); [reflexivity|]. destruct (ci_eqb k k'); reflexivity.
Qed.

Lemma ci_get_setdefault k k' v h :
  ci_get k (ci_setdefault k' v h) = match ci_get k h with Some x => Some x | None => if ci_eqb k k' then Some v else None end.
Proof.
  unfold ci_setdefault. destruct (ci_get k' h) as [x|] eqn:E.
  - destruct (ci_get k h) eqn:E2; [reflexivity|]. destruct (ci_eqb k k') eqn:E3; [|reflexivity].
    rewrite (ci_get_cong k k' h E3) in E2. congruence.
  - rewrite ci_get_set. destruct (ci_eqb k k') eqn:E3.
    + rewrite (ci_get_cong k k' h E3), E. reflexivity.
    + destruct (ci_get k h); reflexivity.
Qed.

Definition explicit_get (k : str) (explicit : option (list (str * str))) : option str :=
  match explicit with Some e => ci_get k (rev e) | None => None end.
Definition case_get (k : str) (case_h : option headers) : option str :=
  match case_h with Some h => ci_get k h | None => None end.

(* precedence: explicit headers > headers of the case > User-Agent / test-case id defaults; nothing else *)
Theorem prepare_headers_lookup case_h explicit ua id k :
  ci_get k (prepare_headers case_h explicit ua id) =
  match explicit_get k explicit with
  | Some v => Some v
  | None =>
    match case_get k case_h with
    | Some v => Some v
    | None => if ci_eqb k h_user_agent then Some ua else if ci_eqb k h_test_case_id then Some id else None
    end
  end.
Proof.
  unfold prepare_headers. rewrite !ci_get_setdefault.
  destruct explicit as [e|]; cbn [explicit_get].
  - rewrite ci_get_update. destruct (ci_get k (rev e)); [reflexivity|].
    destruct case_h as [h|]; cbn [case_get ci_get]; [destruct (ci_get k h); [reflexivity|]|];
      destruct (ci_eqb k h_user_agent); reflexivity.
  - destruct case_h as [h|]; cbn [case_get ci_get]; [destruct (ci_get k h); [reflexivity|]|];
      destruct (ci_eqb k h_user_agent); reflexivity.
Qed.

(* provenance of every entry of the final header list *)
Lemma ci_set_In x k v h : In x (ci_set k v h) -> x = (k, v) \/ In x h.
Proof.
  induction h as [|[k0 v0] h IH]; cbn [ci_set].
  - intros [H | []]; left; congruence.
  - destruct (ci_eqb k k0).
    + intros [H | H]; [left; congruence | right; right; exact H].
    + intros [H | H]; [right; left; exact H|]. destruct (IH H) as [A | A]; [left; exact A | right; right; exact A].
Qed.
Lemma ci_update_In x new h : In x (ci_update h new) -> In x new \/ In x h.
Proof.
  revert h. induction new as [|[k v] new IH]; intros h; [right; assumption|].
  unfold ci_update. cbn [fold_left fst snd]. change (fold_left _ new ?d) with (ci_update d new).
  intros H. destruct (IH _ H) as [A | A]; [left; right; exact A|].
  destruct (ci_set_In _ _ _ _ A) as [B | B]; [left; left; congruence | right; exact B].
Qed.
Lemma ci_setdefault_In x k v h : In x (ci_setdefault k v h) -> x = (k, v) \/ In x h.
Proof. unfold ci_setdefault. destruct (ci_get k h); [right; assumption | apply ci_set_In]. Qed.

Theorem headers_only_expected case_h explicit ua id mt has_body x :
  In x (serialize_case_headers case_h explicit ua id mt has_body) ->
  In x (match case_h with Some h => h | None => [] end)
  \/ In x (match explicit with Some e => e | None => [] end)
  \/ x = (h_user_agent, ua) \/ x = (h_test_case_id, id)
  \/ (has_body = true /\ exists m, mt = Some m /\ x = (h_content_type, m)).
Proof.
  unfold serialize_case_headers.
  assert (P : In x (prepare_headers case_h explicit ua id) ->
              In x (match case_h with Some h => h | None => [] end)
              \/ In x (match explicit with Some e => e | None => [] end)
              \/ x = (h_user_agent, ua) \/ x = (h_test_case_id, id)).
  { unfold prepare_headers. intros H.
    destruct (ci_setdefault_In _ _ _ _ H) as [A | A]; [tauto|].
    destruct (ci_setdefault_In _ _ _ _ A) as [B | B]; [tauto|].
    destruct explicit as [e|]; [|tauto]. destruct (ci_update_In _ _ _ B); tauto. }
  destruct mt as [m|]; [|intros H; destruct (P H) as [A | [A | [A | A]]]; tauto].
  destruct (negb (is_nil m) && negb (str_eqb m s_multipart) && has_body) eqn:E.
  - intros H. destruct (ci_setdefault_In _ _ _ _ H) as [A | A].
    + right; right; right; right. rewrite !andb_true_iff in E. split; [tauto | exists m; split; [reflexivity | exact A]].
    + destruct (P A) as [B | [B | [B | B]]]; tauto.
  - intros H. destruct (P H) as [A | [A | [A | A]]]; tauto.
Qed.

(* Content-Type equals the media type of the case unless the case or the caller set one *)
Theorem content_type_is_media_type case_h explicit ua id m :
  is_nil m = false -> str_eqb m s_multipart = false ->
  explicit_get h_content_type explicit = None -> case_get h_content_type case_h = None ->
  ci_get h_content_type (serialize_case_headers case_h explicit ua id (Some m) true) = Some m.
Proof.
  intros H1 H2 H3 H4. unfold serialize_case_headers. rewrite H1, H2. cbn [negb andb].
  rewrite ci_get_setdefault, prepare_headers_lookup, H3, H4. rewrite ci_eqb_refl.
  reflexivity.
Qed.

Example headers_nonvacuous :
  prepare_headers (Some [([88;45;65], [49]); ([117;115;101;114;45;97;103;101;110;116], [109;101])])
                  (Some [([120;45;97], [50])]) [115] [105]
  = [([120;45;97], [50]); ([117;115;101;114;45;97;103;101;110;116], [109;101]); (h_test_case_id, [105])].
Proof. vm_compute. reflexivity. Qed.

(* ------------------------------------------------------------------------------------------------ *)
(* E. the dispatch agrees with the style table of the specification                                  *)
(* ------------------------------------------------------------------------------------------------ *)
Theorem dispatch_standard d fs : defaults_explicit d = true -> std_sfuns d = Some fs -> ser3_one d = fs.
Proof.
  destruct d as [n l st e t c]. unfold defaults_explicit, std_sfuns, ser3_one.
  cbn [d_in d_style d_explode d_type d_content d_name].
  destruct c; [| intros _ H; injection H as <-; reflexivity | intros _ H; discriminate H].
  destruct l, st, e as [[|]|], t; cbn; intros Hd H; try discriminate Hd; try discriminate H;
    injection H as <-; reflexivity.
Qed.

Lemma dispatch_standard_refuted :
  exists d fs, std_sfuns d = Some fs /\ ser3_one d <> fs.
Proof.
  exists {| d_name := [105;100]; d_in := LPath; d_style := StNone; d_explode := None; d_type := TArray; d_content := CtNone |},
         [FDelimited 44].
  split; [reflexivity | discriminate].
Qed.

Example dispatch_nonvacuous :
  let d := {| d_name := [113]; d_in := LQuery; d_style := StDeep; d_explode := None; d_type := TObject; d_content := CtNone |} in
  defaults_explicit d = true /\ std_sfuns d = Some [FDeepObject].
Proof. split; reflexivity. Qed.

(* path: quote_all runs AFTER the style serializer, so the delimiters RFC 6570 leaves literal are percent-encoded;
   a reader that applies the style to the raw segment (before percent-decoding) finds no matrix parameter *)
Lemma path_reserved_delimiters_refuted :
  exists name v s q, style_region FMatrixPrim name v = true /\ new_value FMatrixPrim name v = Some s
    /\ quote_value s = Some q /\ dec_value FMatrixPrim name q = None
    /\ obind (pct_decode q) (dec_value FMatrixPrim name) = Some (coerce v).
Proof.
  exists [105;100], (VPrim (PInt 5)), [59;105;100;61;53], [37;51;66;105;100;37;51;68;53].
  repeat split; vm_compute; reflexivity.
Qed.

(* ------------------------------------------------------------------------------------------------ *)
(* F. the empty-object rule of serialize_case is pointwise                                           *)
(* ------------------------------------------------------------------------------------------------ *)
Theorem requests_params_pointwise q : requests_params q = map blank_empty_obj q.
Proof.
  unfold requests_params. destruct (existsb (fun kv => is_empty_obj (snd kv)) q) eqn:E.
  - apply map_ext. intros [k v]. unfold blank_empty_obj. cbn [fst snd]. destruct (is_empty_obj v); reflexivity.
  - symmetry. rewrite <- (map_id q) at 2. apply map_ext_in. intros [k v] Hin. unfold blank_empty_obj. cbn [fst snd].
    destruct (is_empty_obj v) eqn:Ev; [|reflexivity].
    assert (X : existsb (fun kv => is_empty_obj (snd kv)) q = true) by (apply existsb_exists; exists (k, v); split; assumption).
    congruence.
Qed.

Lemma requests_params_keys q : map fst (requests_params q) = map fst q.
Proof. rewrite requests_params_pointwise, map_map. reflexivity. Qed.

Lemma d_get_map_snd (g : value -> value) k (q : item) :
  d_get k (map (fun kv => (fst kv, g (snd kv))) q) = omap g (d_get k q).
Proof.
  induction q as [|[k' v] q IH]; [reflexivity|]. cbn [map d_get fst snd]. destruct (str_eqb k k'); [reflexivity | exact IH].
Qed.

(* every parameter of the query is sent as it is, whatever its neighbours are; only an empty object becomes the empty string *)
Theorem requests_params_lookup q k :
  d_get k (requests_params q) = omap (fun v => if is_empty_obj v then sval [] else v) (d_get k q).
Proof.
  rewrite requests_params_pointwise. unfold blank_empty_obj.
  exact (d_get_map_snd (fun v => if is_empty_obj v then sval [] else v) k q).
Qed.

Example requests_params_nonvacuous :
  requests_params [([111], VObj []); ([112], VPrim (PInt 0)); ([98], VPrim (PBool false)); ([105], VArr []); ([115], VPrim (PStr []))]
  = [([111], sval []); ([112], VPrim (PInt 0)); ([98], VPrim (PBool false)); ([105], VArr []); ([115], VPrim (PStr []))].
Proof. reflexivity. Qed.

(* ------------------------------------------------------------------------------------------------ *)
(* G. coverage phase: the template is re-quoted by every case                                         *)
(* ------------------------------------------------------------------------------------------------ *)
Lemma always_safe_lt b : always_safe b = true -> b < 128.
Proof. intros H. apply always_safe_props in H. lia. Qed.

Lemma safe_flat_utf8 s : (forall c, In c s -> always_safe c = true) -> flat_map utf8_cp s = s.
Proof.
  induction s as [|c s IH]; intros H; [reflexivity|]. cbn [flat_map].
  rewrite IH by (intros x Hx; apply H; right; exact Hx).
  unfold utf8_cp. assert (c < 128) by (apply always_safe_lt, H; left; reflexivity).
  replace (c <? 128) with true by lia. reflexivity.
Qed.

Lemma safe_utf8 s : forallb always_safe s = true -> utf8_encode s = Some s.
Proof.
  intros H. unfold utf8_encode. rewrite forallb_forall in H.
  assert (E : forallb is_scalar s = true).
  { apply forallb_forall. intros c Hc. apply H in Hc. apply always_safe_lt in Hc. unfold is_scalar, is_surrogate. lia. }
  rewrite E, safe_flat_utf8 by exact H. reflexivity.
Qed.

Lemma safe_quote_plus s : forallb always_safe s = true -> quote_plus s = Some s.
Proof.
  intros H. unfold quote_plus, quote_with. rewrite safe_utf8 by exact H. cbn [omap]. f_equal.
  rewrite forallb_forall in H. induction s as [|c s IH]; [reflexivity|].
  cbn [flat_map]. unfold quote_byte at 1. rewrite (H c) by (left; reflexivity). cbn [orb app sp_to_plus map].
  pose proof (always_safe_props c (H c (or_introl eq_refl))) as P.
  replace (c =? 32) with false by lia. f_equal. apply IH. intros x Hx. apply H. right. exact Hx.
Qed.

Lemma stable_quote_value s : quote_stable s = true -> quote_value s = Some s.
Proof.
  unfold quote_stable, quote_value. rewrite !andb_true_iff, !negb_true_iff. intros [[H1 H2] H3].
  rewrite H2, H3. apply safe_quote_plus. exact H1.
Qed.

(* a step that gives the template back makes every case the same function of the template *)
Lemma iter_cases_pure (st : step) :
  (forall t t' out, st t = Some (t', out) -> t' = t) -> forall n tmpl, iter_cases st n tmpl = iter_cases st 0 tmpl.
Proof.
  intros H n. induction n as [|n IH]; intros tmpl; [reflexivity|].
  cbn [iter_cases]. destruct (st tmpl) as [[t' out]|] eqn:E; [|reflexivity].
  pose proof (H _ _ _ E) as ->. rewrite IH. cbn [iter_cases]. rewrite E. reflexivity.
Qed.

Theorem coverage_pure defs n tmpl :
  template_nth defs n tmpl = path_output defs tmpl /\ template_query_nth defs n tmpl = query_output defs tmpl.
Proof.
  unfold template_nth, template_query_nth. split.
  - rewrite iter_cases_pure.
    + cbn [iter_cases]. unfold template_step. destruct (path_output defs tmpl); reflexivity.
    + unfold template_step. intros t t' out H. destruct (path_output defs t); [injection H as <- _; reflexivity | discriminate].
  - rewrite iter_cases_pure.
    + cbn [iter_cases]. unfold template_query_step. destruct (query_output defs tmpl); reflexivity.
    + unfold template_query_step. intros t t' out H. destruct (query_output defs t); [injection H as <- _; reflexivity | discriminate].
Qed.

(* every case holds the quoted value, which a form decoder maps back to the value of the template *)
Theorem coverage_case_roundtrip name s n out :
  template_nth [] n [(name, sval s)] = Some out ->
  exists q, out = [(name, sval q)] /\ quote_value s = Some q /\ pct_decode_form q = Some s.
Proof.
  rewrite (proj1 (coverage_pure [] n _)). unfold path_output, serialize3. cbn [ser3 flat_map composed fold_right obind quote_all sval].
  destruct (quote_value s) as [q|] eqn:E; cbn [omap]; [|discriminate].
  intros H; injection H as <-. exists q. repeat split. apply quote_value_form_roundtrip. exact E.
Qed.

(* sentinel (b): the rule before 06d349e9 and the present rule told apart by the template id = a b%c *)
Lemma coverage_requote_sentinel_refuted :
  let tmpl := [([105;100], sval [97;32;98;37;99])] in
  let q1 := [97;43;98;37;50;53;99] in                    (* a+b%25c *)
  let q2 := [97;37;50;66;98;37;50;53;50;53;99] in        (* a%2Bb%2525c *)
  template_nth_inplace [] 0 tmpl = Some [([105;100], sval q1)]
  /\ template_nth_inplace [] 1 tmpl = Some [([105;100], sval q2)]
  /\ pct_decode_form q2 <> Some [97;32;98;37;99]
  /\ template_nth [] 0 tmpl = Some [([105;100], sval q1)]
  /\ template_nth [] 1 tmpl = Some [([105;100], sval q1)].
Proof. cbv zeta. repeat split; try (vm_compute; reflexivity). vm_compute. discriminate. Qed.

(* sentinel (a): the rule before fcf952d0 re-applied the style serializer to the template.
   path label array [a; b]: .a%2Cb then ..a%2Cb;  query form object without explode {k: v}: k,v then ,k,v *)
Definition label_arr_def : definition :=
  {| d_name := [105;100]; d_in := LPath; d_style := StLabel; d_explode := Some false; d_type := TArray; d_content := CtNone |}.
Definition form_obj_def : definition :=
  {| d_name := [111]; d_in := LQuery; d_style := StForm; d_explode := Some false; d_type := TObject; d_content := CtNone |}.
Lemma coverage_serializer_reapplied_refuted :
  let tmpl := [([105;100], VArr [PStr [97]; PStr [98]])] in
  let qt := [([111], VObj [([107], PStr [118])])] in
  template_nth_ser_inplace [label_arr_def] 0 tmpl = Some [([105;100], sval [46;97;37;50;67;98])]
  /\ template_nth_ser_inplace [label_arr_def] 1 tmpl = Some [([105;100], sval [46;46;97;37;50;67;98])]
  /\ obind (pct_decode [46;46;97;37;50;67;98]) (dec_value (FLabelArr false) [105;100]) <> Some (CArr [[97]; [98]])
  /\ template_nth [label_arr_def] 0 tmpl = Some [([105;100], sval [46;97;37;50;67;98])]
  /\ template_nth [label_arr_def] 1 tmpl = Some [([105;100], sval [46;97;37;50;67;98])]
  /\ template_query_nth_ser_inplace [form_obj_def] 0 qt = Some [([111], sval [107;44;118])]
  /\ template_query_nth_ser_inplace [form_obj_def] 1 qt = Some [([111], sval [44;107;44;118])]
  /\ template_query_nth [form_obj_def] 0 qt = Some [([111], sval [107;44;118])]
  /\ template_query_nth [form_obj_def] 1 qt = Some [([111], sval [107;44;118])].
Proof. cbv zeta. repeat split; try (vm_compute; reflexivity). vm_compute. discriminate. Qed.

Example coverage_nonvacuous :
  template_nth [label_arr_def] 3 [([105;100], VArr [PStr [97;32;98]; PInt 5]); ([107], VPrim (PInt 5))]
  = Some [([105;100], sval [46;97;43;98;37;50;67;53]); ([107], sval [53])].
Proof. vm_compute. reflexivity. Qed.

(* ================================================================================================ *)
(* H. configuration histories on one schema object (Model_C06 section 12)                             *)
(* ================================================================================================ *)
(* --- urljoin with and without a netloc agree when no dot-dot segment can eat the leading empty segment *)
Lemma resolve_dots_no_dotdot l : forall acc,
  (forall x, In x l -> is_dotdot x = false) ->
  resolve_dots l acc = rev acc ++ filter (fun s => negb (is_dot s)) l.
Proof.
  induction l as [|s l IH]; intros acc H; cbn [resolve_dots filter].
  - rewrite app_nil_r; reflexivity.
  - rewrite (H s (or_introl eq_refl)).
    assert (H' : forall x, In x l -> is_dotdot x = false) by (intros x Hx; apply H; right; exact Hx).
    destruct (is_dot s); cbn [negb].
    + apply IH; exact H'.
    + rewrite IH by exact H'. cbn [rev]. rewrite <- app_assoc. reflexivity.
Qed.

Lemma In_drop_last {A} (l : list A) x : In x (drop_last l) -> In x l.
Proof.
  induction l as [|a l IH]; cbn [drop_last]; [tauto|].
  destruct l as [|b l]; [cbn; tauto|]. intros [H|H]; [left; exact H|right; apply IH; exact H].
Qed.
Lemma In_last_nonempty {A} (l : list A) d : l <> [] -> In (last l d) l.
Proof.
  induction l as [|a l IH]; [congruence|]. intros _. destruct l as [|b l]; [left; reflexivity|].
  right. apply IH. discriminate.
Qed.
Lemma In_filter_middle l x : In x (filter_middle l) -> In x l.
Proof.
  destruct l as [|a [|b r]]; cbn [filter_middle]; try tauto.
  intros [H|H]; [left; exact H|]. right. apply in_app_or in H. destruct H as [H|H].
  - apply filter_In in H. apply In_drop_last. apply H.
  - destruct H as [H|[]]. subst x. apply In_last_nonempty. discriminate.
Qed.
Lemma filter_middle_head a l : exists t, filter_middle (a :: l) = a :: t.
Proof. destruct l as [|b r]; cbn [filter_middle]; eauto. Qed.

Lemma no_dotdot_In s : no_dotdot s = true -> forall x, In x (split_on 47 s) -> is_dotdot x = false.
Proof.
  unfold no_dotdot. intros H x Hx. apply negb_true_iff in H.
  destruct (is_dotdot x) eqn:E; [|reflexivity].
  assert (existsb is_dotdot (split_on 47 s) = true) by (apply existsb_exists; exists x; split; assumption). congruence.
Qed.

Lemma join_nil_head (t : list str) : join [47] ([] :: t) = [] \/ exists r, join [47] ([] :: t) = 47 :: r.
Proof. destruct t as [|b t]; [left; reflexivity|right]. cbn [join app]. eauto. Qed.

Lemma urljoin_segments X g :
  starts_with [47] X = true -> no_dotdot X = true -> no_dotdot g = true ->
  (exists t, filter_middle (split_on 47 X ++ split_on 47 g) = [] :: t)
  /\ (forall x, In x (filter_middle (split_on 47 X ++ split_on 47 g)) -> is_dotdot x = false).
Proof.
  intros HX HdX Hdg. split.
  - destruct X as [|c X']; [discriminate|]. cbn [starts_with] in HX.
    destruct (N.eqb 47 c) eqn:Ec; [|discriminate]. apply N.eqb_eq in Ec. subst c.
    unfold split_on at 1. cbn [split_on_aux]. rewrite N.eqb_refl. cbn [rev app].
    apply filter_middle_head.
  - intros x Hx. apply In_filter_middle in Hx. apply in_app_or in Hx.
    destruct Hx as [Hx|Hx]; [exact (no_dotdot_In _ HdX x Hx)|exact (no_dotdot_In _ Hdg x Hx)].
Qed.

Lemma lead_agree (p : str) : p = [] \/ (exists r, p = 47 :: r) ->
  (match p with [] => [47] | 47 :: _ => p | _ => 47 :: p end) = (match p with [] => [47] | 47 :: _ => p | _ => p end).
Proof. intros [->|[r ->]]; reflexivity. Qed.

Lemma urljoin_agree X g :
  starts_with [47] X = true -> no_dotdot X = true -> no_dotdot g = true ->
  urljoin_path true X g = urljoin_path false X g.
Proof.
  intros HX HdX Hdg. unfold urljoin_path. destruct (is_nil g); [reflexivity|].
  destruct (urljoin_segments X g HX HdX Hdg) as [[t Ht] Hseg].
  remember (filter_middle (split_on 47 X ++ split_on 47 g)) as segs eqn:Hs. clear Hs. subst segs.
  rewrite resolve_dots_no_dotdot by exact Hseg. cbn [rev app filter is_dot str_eqb negb].
  apply lead_agree.
  match goal with |- context [if ?b then _ else _] => destruct b end.
  - apply (join_nil_head (filter (fun s => negb (is_dot s)) t ++ [[]])).
  - apply join_nil_head.
Qed.

(* --- rstrip then one slash = add_slash, unless the path ends with two slashes *)
Lemma lstrip_head q c r : lstrip_slash q = c :: r -> (c =? 47) = false.
Proof.
  induction q as [|a q IH]; cbn [lstrip_slash]; [discriminate|].
  destruct (a =? 47) eqn:E; [exact IH|]. intros H; injection H as <- _. exact E.
Qed.
Lemma lstrip_suffix q : exists k, q = k ++ lstrip_slash q.
Proof.
  induction q as [|a q [k IH]]; cbn [lstrip_slash]; [exists []; reflexivity|].
  destruct (a =? 47); [exists (a :: k); cbn [app]; rewrite <- IH; reflexivity|exists []; reflexivity].
Qed.

Lemma ends_with_slash_rstrip p : ends_with_slash (rstrip_slash p) = false.
Proof.
  unfold ends_with_slash, rstrip_slash. rewrite rev_involutive.
  destruct (lstrip_slash (rev p)) as [|c r] eqn:E; [reflexivity|]. eapply lstrip_head; eauto.
Qed.

Lemma rstrip_add_slash_rev q : starts_with [47;47] q = false ->
  rev (lstrip_slash q) ++ [47] = if (match q with c :: _ => c =? 47 | [] => false end) then rev q else rev q ++ [47].
Proof.
  intros H. destruct q as [|c q]; [reflexivity|].
  cbn [lstrip_slash]. destruct (c =? 47) eqn:Ec; [|reflexivity].
  apply N.eqb_eq in Ec. subst c. destruct q as [|d q]; [reflexivity|].
  cbn [lstrip_slash]. destruct (d =? 47) eqn:Ed.
  - apply N.eqb_eq in Ed. subst d. cbn in H. discriminate.
  - cbn [rev]. reflexivity.
Qed.
Lemma rstrip_add_slash p : starts_with [47;47] (rev p) = false -> rstrip_slash p ++ [47] = add_slash p.
Proof.
  intros H. unfold rstrip_slash, add_slash, ends_with_slash.
  rewrite (rstrip_add_slash_rev (rev p) H), rev_involutive. reflexivity.
Qed.

Lemma rstrip_prefix p : exists k, p = rstrip_slash p ++ k.
Proof.
  unfold rstrip_slash. destruct (lstrip_suffix (rev p)) as [k Hk].
  exists (rev k). rewrite <- rev_app_distr, <- Hk, rev_involutive. reflexivity.
Qed.
Lemma rstrip_abs p : is_nil p || starts_with [47] p = true ->
  is_nil (rstrip_slash p) || starts_with [47] (rstrip_slash p) = true.
Proof.
  intros H. destruct (rstrip_prefix p) as [k Hk]. destruct (rstrip_slash p) as [|c r] eqn:E; [reflexivity|].
  rewrite Hk in H. cbn [app is_nil orb starts_with] in H. cbn [is_nil orb starts_with]. exact H.
Qed.

Lemma ends_with_slash_app a b : b <> [] -> ends_with_slash (a ++ b) = ends_with_slash b.
Proof.
  intros Hb. unfold ends_with_slash. rewrite rev_app_distr.
  destruct (rev b) as [|c t] eqn:E; [|reflexivity].
  exfalso. apply Hb. rewrite <- (rev_involutive b), E. reflexivity.
Qed.
(* ------------------------------------------------------------------------------------------------ *)
(* ------------------------------------------------------------------------------------------------ *)
Lemma hstep_cfg rd s e : hs_cfg (fst (hstep_with rd s e)) = cfg_update (hs_cfg s) e.
Proof.
  destruct e; cbn [hstep_with fst set_cfg hs_cfg cfg_update]; try reflexivity.
  destruct (prepare_path tmpl params); try reflexivity.
  destruct (transport_eqb _ _ && reads_base_path _); reflexivity.
Qed.

Lemma exec_cfg rd h : forall s, hs_cfg (exec_with rd s h) = final_cfg (hs_cfg s) h.
Proof.
  induction h as [|e h IH]; intros s; cbn [exec_with final_cfg fold_left]; [reflexivity|].
  rewrite IH, hstep_cfg. reflexivity.
Qed.

Lemma final_cfg_last_write h : forall c,
  final_cfg c h = {| cf_base := last_write pick_base h (cf_base c); cf_loc := last_write pick_loc h (cf_loc c);
                     cf_spec := last_write pick_spec h (cf_spec c); cf_app := last_write pick_app h (cf_app c) |}.
Proof.
  unfold final_cfg, last_write.
  induction h as [|e h IH]; intros c; cbn [fold_left].
  - destruct c; reflexivity.
  - rewrite IH. destruct e; reflexivity.
Qed.

Lemma exec_last_write rd h s :
  hs_cfg (exec_with rd s h)
  = {| cf_base := last_write pick_base h (cf_base (hs_cfg s)); cf_loc := last_write pick_loc h (cf_loc (hs_cfg s));
       cf_spec := last_write pick_spec h (cf_spec (hs_cfg s)); cf_app := last_write pick_app h (cf_app (hs_cfg s)) |}.
Proof. rewrite exec_cfg. exact (final_cfg_last_write h (hs_cfg s)). Qed.

Lemma run_app rd h : forall s e,
  run_with rd s (h ++ [e]) = run_with rd s h ++ [snd (hstep_with rd (exec_with rd s h) e)].
Proof.
  induction h as [|e0 h IH]; intros s e; cbn [app run_with exec_with].
  - destruct (hstep_with rd s e); reflexivity.
  - destruct (hstep_with rd s e0) as [s' o] eqn:E. cbn [fst]. rewrite IH. reflexivity.
Qed.

Lemma last_snoc {A} (l : list A) x d : last (l ++ [x]) d = x.
Proof. apply last_last. Qed.

(* the observation of an event depends on the state through the configuration only, when no operation comes from the cache *)
Lemma hstep_obs_cfg s1 s2 e : hs_cfg s1 = hs_cfg s2 -> uses_cache e = false ->
  snd (hstep s1 e) = snd (hstep s2 e).
Proof.
  intros Hc Hu. unfold hstep. destruct e; cbn [hstep_with snd read_live fst]; try reflexivity.
  - destruct h; [|discriminate]. cbn [op_used cache_after]. rewrite Hc.
    destruct (prepare_path tmpl params); try reflexivity.
    destruct (transport_eqb _ _ && reads_base_path _); reflexivity.
  - rewrite Hc; reflexivity.
  - rewrite Hc; reflexivity.
Qed.

Lemma history_independence c1 c2 h1 h2 e :
  final_cfg c1 h1 = final_cfg c2 h2 -> uses_cache e = false ->
  last (run_history (init_state c1) (h1 ++ [e])) ONone = last (run_history (init_state c2) (h2 ++ [e])) ONone.
Proof.
  intros Hc Hu. unfold run_history. rewrite !run_app, !last_snoc.
  apply hstep_obs_cfg; [|exact Hu]. rewrite !exec_cfg. exact Hc.
Qed.

(* WSGI: the path on the wire is the current base path joined with the filled template, for every history and every
   operation object (fresh or cached) *)
Lemma wsgi_wire_current c0 h hw tmpl params w r :
  let s := exec_history (init_state c0) h in
  cf_app (hs_cfg s) = TWsgi ->
  snd (hstep s (EvSend hw tmpl params)) = OSent w r ->
  exists f, prepare_path tmpl params = FOk f /\ w = expected_path (final_cfg c0 h) f.
Proof.
  intros s Happ. unfold hstep. cbn [hstep_with snd].
  assert (Hcfg : hs_cfg s = final_cfg c0 h) by (unfold s, exec_history; rewrite exec_cfg; reflexivity).
  destruct (prepare_path tmpl params) as [f| |]; try discriminate.
  intros H. exists f. split; [reflexivity|].
  assert (H' : send_obs (cfg_base_path (hs_cfg s)) (hs_cfg s) (op_used s hw tmpl) f = OSent w r).
  { destruct (transport_eqb _ _ && reads_base_path _); cbn [read_live fst snd] in H; exact H. }
  unfold send_obs in H'. rewrite Happ in H'.
  destruct (negb _); [discriminate|]. injection H' as <- _. rewrite <- Hcfg. reflexivity.
Qed.

Lemma full_path_current c0 h tmpl :
  snd (hstep (exec_history (init_state c0) h) (EvFullPath tmpl)) = OPath (expected_path (final_cfg c0 h) tmpl)
  /\ snd (hstep (exec_history (init_state c0) h) EvBasePath) = OPath (cfg_base_path (final_cfg c0 h)).
Proof.
  unfold hstep, exec_history. cbn [hstep_with snd read_live fst]. rewrite exec_cfg. split; reflexivity.
Qed.

(* --- the base the requests/ASGI transports join with is the base path the WSGI transport joins with *)
Definition slashed (u : burl) : str := if ends_with_slash (burl_text u) then bu_path u else bu_path u ++ [47].

Lemma slashed_rstrip prefix p :
  ends_with_slash prefix = false -> starts_with [47;47] (rev p) = false ->
  slashed {| bu_prefix := prefix; bu_path := rstrip_slash p |} = add_slash p.
Proof.
  intros Hp Hd. unfold slashed, burl_text. cbn [bu_prefix bu_path].
  assert (E : ends_with_slash (prefix ++ rstrip_slash p) = false).
  { destruct (rstrip_slash p) as [|c r] eqn:Er.
    - rewrite app_nil_r. exact Hp.
    - rewrite ends_with_slash_app by discriminate. rewrite <- Er. apply ends_with_slash_rstrip. }
  rewrite E. apply rstrip_add_slash. exact Hd.
Qed.

Lemma slashed_plain prefix p : p <> [] -> slashed {| bu_prefix := prefix; bu_path := p |} = add_slash p.
Proof.
  intros Hp. unfold slashed, burl_text, add_slash. cbn [bu_prefix bu_path].
  rewrite ends_with_slash_app by exact Hp. reflexivity.
Qed.

Lemma unsplit_abs prefix p : is_nil p || starts_with [47] p = true -> unsplit prefix p = {| bu_prefix := prefix; bu_path := p |}.
Proof.
  intros H. unfold unsplit. f_equal.
  destruct (is_nil p) eqn:E1; cbn [negb andb orb] in *.
  - rewrite andb_false_r. reflexivity.
  - rewrite H. cbn [negb]. rewrite andb_false_r. reflexivity.
Qed.

Lemma localhost_no_slash : ends_with_slash s_http_localhost = false.
Proof. reflexivity. Qed.

Lemma cfg_ok_parts c : cfg_ok c = true ->
  (is_nil (cfg_path c) || starts_with [47] (cfg_path c) = true)
  /\ starts_with [47;47] (rev (cfg_path c)) = false
  /\ no_dotdot (cfg_base_path c) = true.
Proof.
  unfold cfg_ok. intros H. repeat rewrite andb_true_iff in H. destruct H as [[[_ H1] H2] H3].
  apply negb_true_iff in H2. auto.
Qed.

Lemma add_slash_abs p : is_nil p || starts_with [47] p = true -> starts_with [47] (add_slash p) = true.
Proof.
  unfold add_slash. destruct p as [|c r]; [reflexivity|]. cbn [is_nil orb]. intros H.
  destruct (ends_with_slash (c :: r)); [exact H|]. cbn [app starts_with] in *. exact H.
Qed.

Lemma slashed_cfg c : cfg_ok c = true ->
  slashed (cfg_base_url c) = cfg_base_path c /\ slashed (normalize_base (cfg_base_url c)) = cfg_base_path c
  /\ starts_with [47] (cfg_base_path c) = true.
Proof.
  intros Hok. destruct (cfg_ok_parts c Hok) as (Habs & Hdd & _).
  unfold cfg_ok in Hok. repeat rewrite andb_true_iff in Hok. destruct Hok as [[[Hfirst _] _] _].
  unfold cfg_base_url, cfg_base_path, cfg_path in *. destruct (cf_base c) as [u|].
  - apply andb_true_iff in Hfirst. destruct Hfirst as [Hne Hpre].
    apply negb_true_iff in Hne. apply negb_true_iff in Hpre. rewrite Hne.
    split; [apply slashed_rstrip; assumption|]. split; [|apply add_slash_abs; exact Habs].
    unfold normalize_base. cbn [bu_prefix bu_path]. destruct (is_nil (bu_prefix u)).
    + rewrite unsplit_abs by (apply rstrip_abs; exact Habs). apply slashed_rstrip; [apply localhost_no_slash|exact Hdd].
    + apply slashed_rstrip; assumption.
  - apply andb_true_iff in Hfirst. destruct Hfirst as [Hloc Hsp].
    set (sp := spec_base_path (cf_spec c)) in *.
    assert (Hne : sp <> []) by (destruct sp; [discriminate|discriminate]).
    assert (Habs' : is_nil sp || starts_with [47] sp = true) by (rewrite Hsp; apply orb_true_r).
    rewrite unsplit_abs by exact Habs'.
    split; [apply slashed_plain; exact Hne|]. split; [|apply add_slash_abs; exact Habs'].
    unfold normalize_base. cbn [bu_prefix bu_path]. destruct (is_nil (cf_loc c)).
    + rewrite unsplit_abs by exact Habs'. apply slashed_plain; exact Hne.
    + apply slashed_plain; exact Hne.
Qed.

Lemma prepare_url_path_region c f : cfg_ok c = true -> no_dotdot (lstrip_slash f) = true ->
  prepare_url_path (cfg_base_url c) f = expected_path c f
  /\ prepare_url_path (normalize_base (cfg_base_url c)) f = expected_path c f.
Proof.
  intros Hok Hf. destruct (slashed_cfg c Hok) as (H1 & H2 & Habs).
  destruct (cfg_ok_parts c Hok) as (_ & _ & Hdd).
  unfold prepare_url_path, expected_path, get_full_path. fold (slashed (cfg_base_url c)). fold (slashed (normalize_base (cfg_base_url c))).
  rewrite H1, H2. split; apply urljoin_agree; assumption.
Qed.

Lemma burl_eqb_eq a b : burl_eqb a b = true -> a = b.
Proof.
  unfold burl_eqb. rewrite andb_true_iff, !str_eqb_spec. destruct a, b; cbn. intros [-> ->]; reflexivity.
Qed.
Lemma transport_eqb_eq a b : transport_eqb a b = true -> a = b.
Proof. destruct a, b; cbn; congruence. Qed.
Lemma transport_eqb_refl a : transport_eqb a a = true.
Proof. destruct a; reflexivity. Qed.

Lemma fresh_is_current c : op_current c (make_op c) = true.
Proof.
  unfold op_current, make_op, burl_eqb. cbn [os_base os_app]. rewrite !str_eqb_refl, transport_eqb_refl. reflexivity.
Qed.

Lemma send_region c o f : cfg_ok c = true -> op_current c o = true -> no_dotdot (lstrip_slash f) = true ->
  send_obs (cfg_base_path c) c o f =
  if cannot_send c then ORaises else OSent (expected_path c f) (reported_prefix c ++ expected_path c f).
Proof.
  intros Hok Hcur Hf. unfold op_current in Hcur. apply andb_true_iff in Hcur. destruct Hcur as [Hb Ha].
  apply burl_eqb_eq in Hb. destruct (prepare_url_path_region c f Hok Hf) as [P1 P2].
  unfold send_obs, cannot_send, reported_prefix, url_of. rewrite Ha, Hb. cbn [negb].
  destruct (cf_app c).
  - destruct (is_nil (bu_prefix (cfg_base_url c))); [reflexivity|]. rewrite P1. reflexivity.
  - rewrite P2. reflexivity.
  - rewrite P2. reflexivity.
Qed.

Lemma history_send_region c0 h hw tmpl params f :
  let s := exec_history (init_state c0) h in
  let c := final_cfg c0 h in
  cfg_ok c = true -> op_current c (op_used s hw tmpl) = true ->
  prepare_path tmpl params = FOk f -> no_dotdot (lstrip_slash f) = true ->
  snd (hstep s (EvSend hw tmpl params)) =
  if cannot_send c then ORaises else OSent (expected_path c f) (reported_prefix c ++ expected_path c f).
Proof.
  intros s c Hok Hcur Hp Hf.
  assert (Hcfg : hs_cfg s = c) by (unfold s, c, exec_history; rewrite exec_cfg; reflexivity).
  unfold hstep. cbn [hstep_with snd]. rewrite Hp.
  match goal with |- context [if ?b then _ else _] => destruct b end; cbn [snd read_live fst]; rewrite Hcfg; apply send_region; assumption.
Qed.

(* every send with a freshly made operation is in the region of the operation-is-current hypothesis *)
Lemma history_fresh_send_region c0 h tmpl params f :
  let c := final_cfg c0 h in
  cfg_ok c = true -> prepare_path tmpl params = FOk f -> no_dotdot (lstrip_slash f) = true ->
  snd (hstep (exec_history (init_state c0) h) (EvSend Fresh tmpl params)) =
  if cannot_send c then ORaises else OSent (expected_path c f) (reported_prefix c ++ expected_path c f).
Proof.
  intros c Hok Hp Hf. apply history_send_region; try assumption.
  cbn [op_used]. unfold exec_history. rewrite exec_cfg. apply fresh_is_current.
Qed.

(* --- witnesses *)
Definition s_loop : str := [104;116;116;112;58;47;47;104].            (* http://h *)
Definition s_items : str := [47;105;116;101;109;115].                 (* /items *)
Definition s_api : str := [47;97;112;105].                            (* /api *)
Definition s_v2 : str := [47;118;50].                                 (* /v2 *)
Definition s_srv : str := [47;115;114;118].                           (* /srv *)
Definition cfg0 (t : transport) : config :=
  {| cf_base := None; cf_loc := []; cf_spec := SpV3 [ {| bu_prefix := s_loop; bu_path := s_srv |} ]; cf_app := t |}.
Definition base_of (p : str) : option burl := Some {| bu_prefix := s_loop; bu_path := p |}.

(* an operation taken from schema[path][method] before configure(base_url=..) keeps the old base URL *)
Lemma cached_operation_refuted :
  let h := [EvBase (base_of s_api); EvSend Cached s_items []; EvBase (base_of s_v2)] in
  let s := exec_history (init_state (cfg0 TRequests)) h in
  let c := final_cfg (cfg0 TRequests) h in
  cfg_ok c = true /\ op_current c (op_used s Cached s_items) = false
  /\ expected_path c s_items = s_v2 ++ s_items
  /\ snd (hstep s (EvSend Cached s_items [])) = OSent (s_api ++ s_items) (s_loop ++ s_api ++ s_items)
  /\ snd (hstep s (EvSend Fresh s_items [])) = OSent (s_v2 ++ s_items) (s_loop ++ s_v2 ++ s_items)
  /\ (let sw := exec_history (init_state (cfg0 TWsgi)) h in
      snd (hstep sw (EvSend Cached s_items [])) = OSent (s_v2 ++ s_items) (s_loop ++ s_api ++ s_items)).
Proof. cbv zeta. repeat split; vm_compute; reflexivity. Qed.

(* outside cfg_ok: the empty base URL text (truth test in base_path, None test in get_base_url), a trailing double slash *)
Lemma base_shape_refuted :
  (let c := {| cf_base := Some {| bu_prefix := []; bu_path := [] |}; cf_loc := []; cf_spec := cf_spec (cfg0 TWsgi); cf_app := TWsgi |} in
   cfg_ok c = false
   /\ snd (hstep (init_state c) (EvSend Fresh s_items [])) = OSent (s_srv ++ s_items) (s_http_localhost ++ s_items))
  /\ (let c := {| cf_base := base_of (s_api ++ [47;47]); cf_loc := []; cf_spec := SpV3 []; cf_app := TWsgi |} in
      cfg_ok c = false
      /\ snd (hstep (init_state c) (EvSend Fresh [47] [])) = OSent (s_api ++ [47;47]) (s_loop ++ s_api ++ [47])).
Proof. cbv zeta. repeat split; vm_compute; reflexivity. Qed.

(* SENTINEL: were the base path computed once per schema object (read_memo), a WSGI send after configure(base_url=..) would
   keep going to the first base path; the present rule (read_live) follows the configuration *)
Lemma base_path_memo_sentinel_refuted :
  let h := [EvBase (base_of s_api); EvSend Fresh s_items []; EvBase (base_of s_v2); EvSend Fresh s_items []; EvFullPath s_items] in
  run_history_memo (init_state (cfg0 TWsgi)) h
  = [ONone; OSent (s_api ++ s_items) (s_loop ++ s_api ++ s_items); ONone;
     OSent (s_api ++ s_items) (s_loop ++ s_v2 ++ s_items); OPath (s_api ++ s_items)]
  /\ run_history (init_state (cfg0 TWsgi)) h
  = [ONone; OSent (s_api ++ s_items) (s_loop ++ s_api ++ s_items); ONone;
     OSent (s_v2 ++ s_items) (s_loop ++ s_v2 ++ s_items); OPath (s_v2 ++ s_items)]
  /\ expected_path (final_cfg (cfg0 TWsgi) h) s_items = s_v2 ++ s_items.
Proof. cbv zeta. repeat split; vm_compute; reflexivity. Qed.

Example history_nonvacuous :
  let h := [EvApp TAsgi; EvBase (base_of (s_api ++ [47])); EvSend Cached s_items []; EvSpec (SpV2 None); EvFullPath s_items] in
  let c := final_cfg (cfg0 TRequests) h in
  cfg_ok c = true /\ op_current c (op_used (exec_history (init_state (cfg0 TRequests)) h) Cached s_items) = true
  /\ cannot_send c = false /\ no_dotdot (lstrip_slash s_items) = true
  /\ expected_path c s_items = s_api ++ s_items.
Proof. cbv zeta. repeat split; vm_compute; reflexivity. Qed.

(* ------------------------------------------------------------------------------------------------ *)
(* H. exchanges: what a transport carries from one exchange to the next                              *)
(* ------------------------------------------------------------------------------------------------ *)
Lemma slot_eqb_eq a b : slot_eqb a b = true <-> a = b.
Proof.
  destruct a as [ta sa], b as [tb sb]. unfold slot_eqb. cbn [fst snd]. split.
  - intros H. apply andb_true_iff in H. destruct H as [H1 H2]. apply transport_eqb_eq in H1. subst tb.
    destruct sa as [x|], sb as [y|]; try discriminate; [|reflexivity]. apply N.eqb_eq in H2. subst y. reflexivity.
  - intros H. injection H as -> ->. rewrite transport_eqb_refl. destruct sb; [apply N.eqb_refl | reflexivity].
Qed.
Lemma slot_eqb_refl a : slot_eqb a a = true.
Proof. apply slot_eqb_eq. reflexivity. Qed.
Lemma slot_eqb_neq a b : a <> b -> slot_eqb a b = false.
Proof. intros H. destruct (slot_eqb a b) eqn:E; [|reflexivity]. apply slot_eqb_eq in E. contradiction. Qed.

Lemma jar_get_put k k' j js : jar_get k (jar_put k' j js) = if slot_eqb k k' then j else jar_get k js.
Proof.
  induction js as [|[k0 j0] js IH]; cbn [jar_put jar_get].
  - destruct (slot_eqb k k'); reflexivity.
  - destruct (slot_eqb k' k0) eqn:E0; cbn [jar_get].
    + apply slot_eqb_eq in E0. subst k0. destruct (slot_eqb k k'); reflexivity.
    + rewrite IH. destruct (slot_eqb k k0) eqn:E1; [|reflexivity].
      apply slot_eqb_eq in E1. subst k0. destruct (slot_eqb k k') eqn:E2; [|reflexivity].
      apply slot_eqb_eq in E2. subst k'. rewrite slot_eqb_refl in E0. discriminate.
Qed.

(* an exchange touches the jar of its own client object only *)
Lemma xstep_other rule e js ev k : xslot rule ev <> Some k -> jar_get k (fst (xstep rule e js ev)) = jar_get k js.
Proof.
  intros H. unfold xstep. destruct (xslot rule ev) as [k'|]; cbn [fst]; [|reflexivity].
  rewrite jar_get_put. rewrite slot_eqb_neq; [reflexivity|]. intros ->. apply H. reflexivity.
Qed.
Lemma xstep_same rule e js1 js2 ev k : xslot rule ev = Some k -> jar_get k js1 = jar_get k js2 ->
  jar_get k (fst (xstep rule e js1 ev)) = jar_get k (fst (xstep rule e js2 ev))
  /\ snd (xstep rule e js1 ev) = snd (xstep rule e js2 ev).
Proof.
  intros H A. unfold xstep. rewrite H. cbn [fst snd]. rewrite !jar_get_put, slot_eqb_refl, A. split; reflexivity.
Qed.

Lemma xexec_filter rule e ev k h : xslot rule ev = Some k -> forall js1 js2, jar_get k js1 = jar_get k js2 ->
  jar_get k (xexec rule e js1 h) = jar_get k (xexec rule e js2 (filter (same_slot rule ev) h)).
Proof.
  intros K. induction h as [|ev' h IH]; intros js1 js2 A; cbn [xexec filter]; [exact A|].
  unfold same_slot at 1. rewrite K. destruct (xslot rule ev') as [k'|] eqn:E'.
  - destruct (slot_eqb k k') eqn:E.
    + apply slot_eqb_eq in E. subst k'. cbn [xexec]. apply IH. apply (xstep_same rule e js1 js2 ev' k E' A).
    + apply IH. rewrite xstep_other; [exact A|]. rewrite E'. intros H. injection H as ->. rewrite slot_eqb_refl in E. discriminate.
  - apply IH. rewrite xstep_other; [exact A|]. rewrite E'. discriminate.
Qed.

(* NON-INTERFERENCE, any client rule: what the application receives in an exchange is decided by the exchanges that went
   through the same long-lived client object; everything else in the history - every other exchange, whatever the
   applications answered - can be deleted *)
Lemma exchange_noninterference rule e js h ev :
  snd (xstep rule e (xexec rule e js h) ev) = snd (xstep rule e (xexec rule e js (filter (same_slot rule ev) h)) ev).
Proof.
  unfold xstep. destruct (xslot rule ev) as [k|] eqn:K; cbn [snd]; [|reflexivity].
  rewrite (xexec_filter rule e ev k h K js js eq_refl). reflexivity.
Qed.

Lemma fresh_no_slot ev : no_session ev = true \/ xtransport ev = TAsgi -> xslot fresh_clients ev = None.
Proof.
  intros [H | H]; destruct ev as [t r | t [i|] c r]; cbn in *; try discriminate; try reflexivity;
    try (destruct t; reflexivity). subst t. reflexivity.
Qed.
(* THE CODE: without a session object of the user (and always on the ASGI transport) the request of an exchange is the
   request of that exchange alone, after every history and from every state of the session objects *)
Lemma exchange_alone e js h ev : no_session ev = true \/ xtransport ev = TAsgi ->
  snd (xstep fresh_clients e (xexec fresh_clients e js h) ev) = xalone e ev.
Proof. intros H. unfold xstep. rewrite (fresh_no_slot ev H). reflexivity. Qed.
Lemma exchange_run_alone e h : forall js, forallb no_session h = true -> xrun fresh_clients e js h = map (xalone e) h.
Proof.
  induction h as [|ev h IH]; intros js H; [reflexivity|]. cbn [forallb] in H. apply andb_true_iff in H. destruct H as [H1 H2].
  cbn [xrun map]. unfold xstep. rewrite (fresh_no_slot ev (or_introl H1)). cbn [fst snd]. rewrite (IH js H2). reflexivity.
Qed.
(* two histories, two answers of the application: the same exchange afterwards delivers the same request *)
Lemma exchange_independent e js1 js2 h1 h2 ev : no_session ev = true \/ xtransport ev = TAsgi ->
  snd (xstep fresh_clients e (xexec fresh_clients e js1 h1) ev) = snd (xstep fresh_clients e (xexec fresh_clients e js2 h2) ev).
Proof. intros H. rewrite !exchange_alone by exact H. reflexivity. Qed.

(* ---- what the request of an exchange carries *)
Lemma d_set_keys_In {A} x k (v : A) d : In x (map fst (d_set k v d)) -> x = k \/ In x (map fst d).
Proof.
  induction d as [|[k0 v0] d IH]; cbn [d_set map fst In].
  - intros [H | []]. left. symmetry. exact H.
  - destruct (str_eqb k k0) eqn:E; cbn [map fst In]; [tauto|]. intros [H | H]; [tauto|]. destruct (IH H); tauto.
Qed.
Lemma d_set_keys_nodup {A} k (v : A) d : NoDup (map fst d) -> NoDup (map fst (d_set k v d)).
Proof.
  induction d as [|[k0 v0] d IH]; cbn [d_set map fst]; intros H.
  - constructor; [intros [] | constructor].
  - destruct (str_eqb k k0) eqn:E; cbn [map fst]; [exact H|]. inversion H as [|? ? H1 H2]. subst.
    constructor; [|apply IH; exact H2]. intros Hin. destruct (d_set_keys_In _ _ _ _ Hin) as [-> | Hin']; [|contradiction].
    rewrite str_eqb_refl in E. discriminate.
Qed.
Lemma d_update_keys_nodup {A} (new d : list (str * A)) : NoDup (map fst d) -> NoDup (map fst (d_update d new)).
Proof.
  revert d. induction new as [|[k v] new IH]; intros d H; [exact H|].
  unfold d_update. cbn [fold_left fst snd]. change (fold_left _ new ?x) with (d_update x new).
  apply IH. apply d_set_keys_nodup. exact H.
Qed.
Lemma d_update_nil {A} (l : list (str * A)) : NoDup (map fst l) -> d_update [] l = l.
Proof. intros H. apply (d_update_nodup l []). exact H. Qed.
Lemma xown_nodup c : dict_ok (xc_cookies c) = true -> NoDup (map fst (xown c)).
Proof. intros H. apply d_update_keys_nodup. apply nodup_strs_spec. exact H. Qed.
(* a client that has seen nothing sends the cookies of the case, in the order of the case *)
Lemma wire_cookies_alone t c : dict_ok (xc_cookies c) = true -> wire_cookies t (xown c) [] = xown c.
Proof. intros H. destruct t; cbn [wire_cookies app]; try reflexivity. apply d_update_nil. apply xown_nodup. exact H. Qed.

Lemma ci_get_remove_same c h : ci_get c (ci_remove c h) = None.
Proof.
  induction h as [|[k0 v0] h IH]; [reflexivity|]. unfold ci_remove. cbn [filter fst].
  destruct (ci_eqb c k0) eqn:E; cbn [negb]; [exact IH|]. cbn [ci_get]. rewrite E. exact IH.
Qed.
Lemma ci_get_rev_none k h : ci_get k h = None -> ci_get k (rev h) = None.
Proof.
  induction h as [|[k0 v0] h IH]; [reflexivity|]. cbn [ci_get rev]. destruct (ci_eqb k k0) eqn:E; [discriminate|].
  intros H. rewrite ci_get_app, (IH H). cbn [ci_get]. rewrite E. reflexivity.
Qed.
Lemma ci_remove_In x c h : In x (ci_remove c h) -> In x h.
Proof. unfold ci_remove. intros H. apply filter_In in H. tauto. Qed.


(* lookup of Cookie in what the application receives, for a client with the jar [jar] *)
Lemma wire_cookie_lookup e t host prep own jar :
  ci_get s_cookie prep = None -> ci_get s_cookie (xe_std e) = None ->
  ci_get s_cookie (wire e t host prep own jar) = cookie_header_of (wire_cookies t own jar).
Proof.
  intros Hp Hs. unfold cookie_header_of.
  assert (Hreq : ci_get s_cookie (ci_update (xe_std e) prep) = None).
  { rewrite ci_get_update, (ci_get_rev_none _ _ Hp). exact Hs. }
  assert (Hsame : ci_get s_cookie [(s_cookie, render_cookies (wire_cookies t own jar))] = Some (render_cookies (wire_cookies t own jar))).
  { cbn [ci_get]. rewrite ci_eqb_refl. reflexivity. }
  destruct t; unfold wire.
  - rewrite ci_get_setdefault, Hreq. destruct (is_nil (wire_cookies TRequests own jar)).
    + rewrite Hreq. reflexivity.
    + rewrite ci_get_app, Hreq, Hsame. reflexivity.
  - destruct (is_nil (wire_cookies TWsgi own jar)).
    + apply ci_get_remove_same.
    + rewrite ci_get_app, ci_get_remove_same. exact Hsame.
  - rewrite ci_get_setdefault, Hreq. destruct (is_nil (wire_cookies TAsgi own jar)).
    + rewrite Hreq. reflexivity.
    + rewrite ci_get_app, Hreq, Hsame. reflexivity.
Qed.
(* nothing else: every header the application receives is the Host header, a default header of the client, a header
   of the case / of the call / User-Agent / test-case id (prepare_headers), or the Cookie header made of the cookies *)
Lemma wire_only_expected e t host prep own jar x : In x (wire e t host prep own jar) ->
  x = (s_host, host) \/ (t <> TWsgi /\ In x (xe_std e)) \/ In x prep \/ x = (s_cookie, render_cookies (wire_cookies t own jar)).
Proof.
  assert (Hreq : forall h', In x (ci_setdefault s_host host h') ->
                 (h' = ci_update (xe_std e) prep \/ h' = ci_update (xe_std e) prep ++ [(s_cookie, render_cookies (wire_cookies t own jar))]) ->
                 t <> TWsgi ->
                 x = (s_host, host) \/ (t <> TWsgi /\ In x (xe_std e)) \/ In x prep \/ x = (s_cookie, render_cookies (wire_cookies t own jar))).
  { intros h' H Hh Ht. destruct (ci_setdefault_In _ _ _ _ H) as [A | A]; [tauto|].
    assert (B : In x (ci_update (xe_std e) prep) \/ x = (s_cookie, render_cookies (wire_cookies t own jar))).
    { destruct Hh as [-> | ->]; [tauto|]. apply in_app_or in A. destruct A as [A | [A | []]]; [tauto | right; symmetry; exact A]. }
    destruct B as [B | B]; [|tauto]. destruct (ci_update_In _ _ _ B); tauto. }
  destruct t; unfold wire; intros H.
  - apply (Hreq _ H); [|discriminate].
    destruct (ci_get s_cookie (ci_update (xe_std e) prep)); [tauto|]. destruct (is_nil (wire_cookies TRequests own jar)); tauto.
  - assert (B : In x (ci_remove s_cookie (ci_update [(s_host, host)] prep)) \/ x = (s_cookie, render_cookies (wire_cookies TWsgi own jar))).
    { destruct (is_nil (wire_cookies TWsgi own jar)); [tauto|]. apply in_app_or in H. destruct H as [H | [H | []]]; [tauto | right; symmetry; exact H]. }
    destruct B as [B | B]; [|tauto]. apply ci_remove_In in B. destruct (ci_update_In _ _ _ B) as [C | [C | []]]; [tauto | left; symmetry; exact C].
  - apply (Hreq _ H); [|discriminate].
    destruct (ci_get s_cookie (ci_update (xe_std e) prep)); [tauto|]. destruct (is_nil (wire_cookies TAsgi own jar)); tauto.
Qed.

(* THE PROPERTY for an exchange without a session object of the user, after ANY history: the Cookie header is made of the
   cookies of the case (and of the call) and of nothing else; every other header has one of the four allowed origins.
   Region: the case brings no Cookie header of its own (finding F13 otherwise), its cookies are a dict. *)
Lemma exchange_carries_the_case e js h t c r :
  no_cookie_header e c = true -> std_has_no_cookie e = true -> dict_ok (xc_cookies c) = true ->
  let got := snd (xstep fresh_clients e (xexec fresh_clients e js h) (XSend t None c r)) in
  ci_get s_cookie got = cookie_header_of (xown c)
  /\ forall x, In x got ->
       x = (s_host, xe_host e t false) \/ (t <> TWsgi /\ In x (xe_std e)) \/ In x (xprep e c) \/ x = (s_cookie, render_cookies (xown c)).
Proof.
  intros H1 H2 H3. cbv zeta. rewrite exchange_alone by (left; reflexivity). unfold xalone, xreq.
  unfold no_cookie_header in H1. unfold std_has_no_cookie in H2.
  destruct (ci_get s_cookie (xprep e c)) eqn:E1; [discriminate|]. destruct (ci_get s_cookie (xe_std e)) eqn:E2; [discriminate|].
  split.
  - rewrite (wire_cookie_lookup e t _ _ _ _ E1 E2), (wire_cookies_alone t c H3). reflexivity.
  - intros x Hx. apply wire_only_expected in Hx. rewrite (wire_cookies_alone t c H3) in Hx. exact Hx.
Qed.

(* ---- where the cookies of ANY exchange come from, any client rule, sessions of the user included *)
Lemma d_set_In {V} (x : str * V) k v d : In x (d_set k v d) -> x = (k, v) \/ In x d.
Proof.
  induction d as [|[k0 v0] d IH]; cbn [d_set In].
  - intros [H | []]. left. symmetry. exact H.
  - destruct (str_eqb k k0) eqn:E; cbn [In].
    + apply str_eqb_spec in E. subst k0. intros [H | H]; [left; symmetry; exact H | tauto].
    + intros [H | H]; [tauto|]. destruct (IH H); tauto.
Qed.
Lemma d_update_In {V} (x : str * V) new d : In x (d_update d new) -> In x new \/ In x d.
Proof.
  revert d. induction new as [|[k v] new IH]; intros d H; [tauto|].
  unfold d_update in H. cbn [fold_left fst snd] in H. change (fold_left _ new ?y) with (d_update y new) in H.
  destruct (IH _ H) as [A | A]; [left; right; exact A|]. destruct (d_set_In _ _ _ _ A) as [B | B]; [left; left; symmetry; exact B | tauto].
Qed.
Lemma d_pop_In {V} (x : str * V) k d : In x (d_pop k d) -> In x d.
Proof.
  induction d as [|[k0 v0] d IH]; cbn [d_pop In]; [tauto|]. destruct (str_eqb k k0); cbn [In]; [tauto|]. intros [H | H]; [tauto | right; apply IH; exact H].
Qed.
Lemma d_remove_keys_In {V} (x : str * V) ks : forall d, In x (d_remove_keys ks d) -> In x d.
Proof. induction ks as [|k ks IH]; intros d H; [exact H|]. cbn [d_remove_keys] in H. apply IH in H. apply d_pop_In in H. exact H. Qed.

Lemma wire_cookies_In t own jar p : In p (wire_cookies t own jar) -> In p own \/ In p jar.
Proof. destruct t; cbn [wire_cookies]; intros H; try (apply in_app_or in H; tauto). apply d_update_In in H. tauto. Qed.
Lemma jar_after_In t jar own set p : In p (jar_after t jar own set) -> In p jar \/ In p own \/ In p set.
Proof.
  destruct t; cbn [jar_after]; intros H; try (apply d_update_In in H; tauto).
  apply d_remove_keys_In in H. apply d_update_In in H. destruct H as [H | H]; [tauto|]. apply d_update_In in H. tauto.
Qed.
(* a cookie pair in the jar of a client object was put there by an exchange through that object: a Set-Cookie of its
   answer, or (werkzeug) a cookie of its case *)
Lemma jar_provenance rule e k p h : forall js, In p (jar_get k (xexec rule e js h)) ->
  In p (jar_get k js) \/ exists ev', In ev' h /\ xslot rule ev' = Some k /\ (In p (xr_set (xresp_of ev')) \/ In p (xown_of ev')).
Proof.
  induction h as [|ev h IH]; intros js H; [left; exact H|]. cbn [xexec] in H. destruct (IH _ H) as [A | [ev' [A1 A2]]].
  - unfold xstep in A. destruct (xslot rule ev) as [k'|] eqn:E; cbn [fst] in A; [|tauto].
    rewrite jar_get_put in A. destruct (slot_eqb k k') eqn:E2; [|tauto]. apply slot_eqb_eq in E2. subst k'.
    assert (B : In p (jar_get k js) \/ In p (xown_of ev) \/ In p (xr_set (xresp_of ev))).
    { destruct ev as [t r | t s c r]; cbn [xjar_after xown_of xresp_of] in *; apply jar_after_In in A; cbn [In] in A; tauto. }
    destruct B as [B | B]; [tauto|]. right. exists ev. split; [left; reflexivity|]. split; [exact E | tauto].
  - right. exists ev'. split; [right; exact A1 | exact A2].
Qed.
Lemma exchange_cookie_provenance rule e h ev p : In p (xcookies_sent rule ev (xexec rule e [] h)) ->
  In p (xown_of ev) \/ exists ev', In ev' h /\ same_slot rule ev ev' = true /\ (In p (xr_set (xresp_of ev')) \/ In p (xown_of ev')).
Proof.
  intros H.
  assert (B : In p (xown_of ev) \/ exists k, xslot rule ev = Some k /\ In p (jar_get k (xexec rule e [] h))).
  { destruct ev as [t r | t s c r]; cbn [xcookies_sent xown_of] in *; apply wire_cookies_In in H; destruct H as [H | H]; try tauto;
      (destruct (xslot rule _) as [k|] eqn:E; [right; exists k; split; [reflexivity | exact H] | destruct H]). }
  destruct B as [B | [k [K B]]]; [tauto|]. right. destruct (jar_provenance rule e k p h [] B) as [[] | [ev' [A1 [A2 A3]]]].
  exists ev'. split; [exact A1|]. split; [|exact A3]. unfold same_slot. rewrite K, A2. apply slot_eqb_refl.
Qed.

(* ---- witnesses *)
Definition x_localhost : str := [108;111;99;97;108;104;111;115;116].
Definition x_sess : str := [115;101;115;115].
Definition x_S1 : str := [83;49].
Definition x_token : str := [116;111;107;101;110].
Definition x_t : str := [116].
Definition x_h1 : str := [104;61;49].                         (* h=1 *)
Definition x_sess_S1 : str := x_sess ++ [61] ++ x_S1.           (* sess=S1 *)
Definition x_token_t : str := x_token ++ [61] ++ x_t.           (* token=t *)
Definition xenv0 : xenv :=
  {| xe_std := [([65;99;99;101;112;116], [42;47;42])]; xe_ua := [115;116]; xe_host := fun _ _ => x_localhost |}.
Definition xcase0 : xcase := {| xc_headers := None; xc_cookies := None; xc_call_headers := None; xc_call_cookies := None; xc_id := [73;68] |}.
Definition xcase_cookie (h : option headers) (cs : option cookies) : xcase :=
  {| xc_headers := h; xc_cookies := cs; xc_call_headers := None; xc_call_cookies := None; xc_id := [73;68] |}.
Definition xquiet : xresp := {| xr_set := []; xr_redirect := false; xr_close := false |}.
Definition xsets : xresp := {| xr_set := [(x_sess, x_S1)]; xr_redirect := true; xr_close := true |}.

(* SENTINEL for the seeded regression C06_d: one werkzeug client per application (shared_wsgi_client) sends the cookie
   that the application set in an EARLIER exchange - a send or the loading of the schema - with a case that has no cookie;
   under the rule of the code (fresh_clients) the second request is the one of the case alone *)
Lemma shared_client_sentinel_refuted :
  let send1 := XSend TWsgi None xcase0 xsets in
  let send2 := XSend TWsgi None xcase0 xquiet in
  map (ci_get s_cookie) (xrun shared_wsgi_client xenv0 [] [send1; send2]) = [None; Some x_sess_S1]
  /\ map (ci_get s_cookie) (xrun shared_wsgi_client xenv0 [] [XLoad TWsgi xsets; send2]) = [None; Some x_sess_S1]
  /\ xrun shared_wsgi_client xenv0 [] [send1; send2] <> map (xalone xenv0) [send1; send2]
  /\ xrun fresh_clients xenv0 [] [send1; send2] = map (xalone xenv0) [send1; send2]
  /\ map (ci_get s_cookie) (xrun fresh_clients xenv0 [] [XLoad TWsgi xsets; send2]) = [None; None]
  /\ no_cookie_header xenv0 xcase0 = true /\ cookie_header_of (xown xcase0) = None.
Proof. cbv zeta. repeat split; try (vm_compute; reflexivity). vm_compute. discriminate. Qed.

(* finding C06-F13: a case that has a Cookie header of its own.  WSGI: the header is not delivered (werkzeug rebuilds
   HTTP_COOKIE from the jar of its client); requests / ASGI: the header is delivered and the cookies of the case are not *)
Lemma cookie_header_refuted :
  let c1 := xcase_cookie (Some [(s_cookie, x_h1)]) None in
  let c2 := xcase_cookie (Some [(s_cookie, x_h1)]) (Some [(x_token, x_t)]) in
  no_cookie_header xenv0 c1 = false /\ ci_get s_cookie (xprep xenv0 c1) = Some x_h1
  /\ ci_get s_cookie (xalone xenv0 (XSend TWsgi None c1 xquiet)) = None
  /\ cookie_header_of (xown c2) = Some x_token_t
  /\ ci_get s_cookie (xalone xenv0 (XSend TRequests None c2 xquiet)) = Some x_h1
  /\ ci_get s_cookie (xalone xenv0 (XSend TAsgi None c2 xquiet)) = Some x_h1
  /\ ci_get s_cookie (xalone xenv0 (XSend TWsgi None c2 xquiet)) = Some x_token_t.
Proof. cbv zeta. repeat split; vm_compute; reflexivity. Qed.

(* non-vacuity: a case with a cookie inside the region, after a history whose answers set cookies; a session object
   of the user DOES carry the cookie to the next exchange through it, and only through it *)
Example exchange_nonvacuous :
  let c := xcase_cookie (Some [([88;45;65], [49])]) (Some [(x_token, x_t)]) in
  no_cookie_header xenv0 c = true /\ std_has_no_cookie xenv0 = true /\ dict_ok (xc_cookies c) = true
  /\ map (ci_get s_cookie) (xrun fresh_clients xenv0 [] [XSend TWsgi None xcase0 xsets; XLoad TWsgi xsets; XSend TWsgi None c xquiet])
     = [None; None; Some x_token_t]
  /\ map (ci_get s_cookie) (xrun fresh_clients xenv0 []
       [XSend TWsgi (Some 0) xcase0 xsets; XSend TWsgi None xcase0 xquiet; XSend TWsgi (Some 1) xcase0 xquiet; XSend TRequests (Some 0) xcase0 xquiet;
        XSend TAsgi (Some 0) xcase0 xquiet; XSend TWsgi (Some 0) c xquiet])
     = [None; None; None; None; None; Some (x_sess_S1 ++ [59;32] ++ x_token_t)]
  /\ filter (same_slot fresh_clients (XSend TWsgi (Some 0) c xquiet))
       [XSend TWsgi (Some 0) xcase0 xsets; XSend TWsgi None xcase0 xquiet; XSend TWsgi (Some 1) xcase0 xquiet; XSend TRequests (Some 0) xcase0 xquiet]
     = [XSend TWsgi (Some 0) xcase0 xsets].
Proof. cbv zeta. repeat split; vm_compute; reflexivity. Qed.

(* ------------------------------------------------------------------------------------------------ *)
(* N. application/x-www-form-urlencoded bodies (Model section 15)                                     *)
(* ------------------------------------------------------------------------------------------------ *)
(* safe sets for which the form decoder reads quote_plus(s, safe) back and fields cannot be confused *)
Definition safe_ok (safe : N -> bool) : Prop :=
  forall b, safe b = true -> b < 128 /\ b <> 37 /\ b <> 43 /\ b <> 32 /\ b <> 38 /\ b <> 61.

Lemma form_safe_ok t : safe_ok (form_safe t).
Proof.
  intros b H. destruct t; cbn [form_safe] in H; try (unfold no_safe in H; discriminate).
  unfold werkzeug_safe in H. apply mem_spec in H. cbn [In] in H. lia.
Qed.

Definition fqb (safe : N -> bool) (b : N) : str := sp_to_plus (quote_byte (fun b => is_sp b || safe b) b).

Lemma hexd_range n : n < 16 -> hexd n <> 32 /\ hexd n <> 38 /\ hexd n <> 61 /\ hexd n <> 43.
Proof. intros H; unfold hexd; destruct (n <? 10) eqn:E; lia. Qed.

Lemma fqb_cases safe b :
  safe_ok safe -> b < 256 ->
  (b = 32 /\ fqb safe b = [43])
  \/ (always_safe b = true /\ fqb safe b = [b])
  \/ (b < 128 /\ b <> 37 /\ b <> 43 /\ b <> 32 /\ b <> 38 /\ b <> 61 /\ fqb safe b = [b])
  \/ (fqb safe b = pct_byte b).
Proof.
  intros Hs Hb. unfold fqb, quote_byte, is_sp.
  destruct (always_safe b) eqn:Ea.
  - right; left. split; [reflexivity|]. apply always_safe_props in Ea. cbn [orb sp_to_plus map].
    destruct (b =? 32) eqn:E; [lia | reflexivity].
  - cbn [orb]. destruct (b =? 32) eqn:E.
    + left. apply N.eqb_eq in E; subst b. split; reflexivity.
    + cbn [orb]. destruct (safe b) eqn:Es.
      * right; right; left. destruct (Hs b Es) as (H1 & H2 & H3 & H4 & H5 & H6).
        repeat (split; [assumption|]). cbn [sp_to_plus map]. rewrite E. reflexivity.
      * right; right; right. unfold pct_byte. cbn [sp_to_plus map].
        rewrite !hexd_not_sp by lia. reflexivity.
Qed.

Lemma fqb_decodes safe b r :
  safe_ok safe -> b < 256 -> pct_bytes true (fqb safe b ++ r) = omap (cons b) (pct_bytes true r).
Proof.
  intros Hs Hb. destruct (fqb_cases safe b Hs Hb) as [[-> ->] | [[Ha ->] | [(H1 & H2 & H3 & H4 & H5 & H6 & ->) | ->]]].
  - cbn [app pct_bytes]. cbn [N.eqb Pos.eqb N.leb N.compare Pos.compare Pos.compare_cont andb].
    destruct (pct_bytes true r); reflexivity.
  - cbn [app]. apply pct_bytes_safe; exact Ha.
  - cbn [app pct_bytes]. destruct (b =? 37) eqn:E1; [lia|]. destruct (128 <=? b) eqn:E2; [lia|].
    destruct (b =? 43) eqn:E3; [lia|]. rewrite andb_false_r. destruct (pct_bytes true r); reflexivity.
  - apply pct_bytes_pct_byte; exact Hb.
Qed.

Lemma always_safe_no_sep b : always_safe b = true -> b <> 38 /\ b <> 61.
Proof.
  unfold always_safe, is_upper, is_lower, is_digit, mem, existsb. intros H.
  repeat rewrite ?orb_true_iff, ?andb_true_iff, ?N.leb_le, ?N.eqb_eq in H. lia.
Qed.

Lemma fqb_free safe b c : safe_ok safe -> b < 256 -> c = 38 \/ c = 61 -> ~ In c (fqb safe b).
Proof.
  intros Hs Hb Hc. destruct (fqb_cases safe b Hs Hb) as [[-> ->] | [[Ha ->] | [(H1 & H2 & H3 & H4 & H5 & H6 & ->) | ->]]].
  - intros [H | []]; lia.
  - apply always_safe_no_sep in Ha. intros [H | []]; lia.
  - intros [H | []]; lia.
  - unfold pct_byte. assert (b / 16 < 16) by lia. assert (b mod 16 < 16) by lia.
    pose proof (hexd_range (b / 16) H). pose proof (hexd_range (b mod 16) H0).
    intros [Hi | [Hi | [Hi | []]]]; lia.
Qed.

Lemma sp_to_plus_flat safe bs : sp_to_plus (flat_map (quote_byte (fun b => is_sp b || safe b)) bs) = flat_map (fqb safe) bs.
Proof.
  induction bs as [|b bs IH]; [reflexivity|]. cbn [flat_map]. rewrite sp_to_plus_app, IH. reflexivity.
Qed.

Lemma fqb_flat_decodes safe bs :
  safe_ok safe -> Forall (fun b => b < 256) bs -> pct_bytes true (flat_map (fqb safe) bs) = Some bs.
Proof.
  intros Hs. induction 1 as [|b bs Hb _ IH]; [reflexivity|].
  cbn [flat_map]. rewrite fqb_decodes, IH by assumption. reflexivity.
Qed.

Lemma fqb_flat_free safe bs c :
  safe_ok safe -> Forall (fun b => b < 256) bs -> c = 38 \/ c = 61 -> ~ In c (flat_map (fqb safe) bs).
Proof.
  intros Hs HF Hc. induction HF as [|b bs Hb _ IH]; [intros []|].
  cbn [flat_map]. intros Hin. apply in_app_or in Hin. destruct Hin as [Hin | Hin]; [|exact (IH Hin)].
  exact (fqb_free safe b c Hs Hb Hc Hin).
Qed.

(* quote_plus(s, safe): read back by the form decoder; free of ampersand and equals sign *)
Lemma fq_spec safe s q :
  safe_ok safe -> fq safe s = Some q -> pct_decode_form q = Some s /\ ~ In 38 q /\ ~ In 61 q.
Proof.
  intros Hs. unfold fq, quote_with. destruct (utf8_encode s) as [bs|] eqn:E; [|discriminate].
  cbn [omap]. intros H; injection H as <-. apply utf8_roundtrip in E. destruct E as [E1 E2].
  rewrite sp_to_plus_flat. repeat split.
  - unfold pct_decode_form. rewrite fqb_flat_decodes by assumption. cbn [obind]. exact E1.
  - apply fqb_flat_free; auto.
  - apply fqb_flat_free; auto.
Qed.

Lemma fq_defined safe s : forallb is_scalar s = true -> exists q, fq safe s = Some q.
Proof. intros H. unfold fq, quote_with, utf8_encode. rewrite H. cbn [omap]. eexists; reflexivity. Qed.

Lemma decode_field_enc safe kv e : safe_ok safe -> enc_pair safe kv = Some e -> decode_field e = Some kv /\ ~ In 38 e.
Proof.
  intros Hs. unfold enc_pair. destruct kv as [k v]. cbn [fst snd].
  destruct (fq safe k) as [k'|] eqn:Ek; [|discriminate]. destruct (fq safe v) as [v'|] eqn:Ev; [|discriminate].
  intros H; injection H as <-.
  destruct (fq_spec safe k k' Hs Ek) as (Dk & Ak & Qk). destruct (fq_spec safe v v' Hs Ev) as (Dv & Av & Qv).
  split.
  - unfold decode_field. rewrite split_first_spec by exact Qk. cbn [rev app]. rewrite Dk. cbn [obind]. rewrite Dv. reflexivity.
  - intros Hin. apply in_app_or in Hin. destruct Hin as [Hin | [Hin | Hin]]; [exact (Ak Hin) | lia | exact (Av Hin)].
Qed.

Lemma all_some_inv {A B} (f : A -> option B) l r :
  all_some (map f l) = Some r -> length r = length l /\ Forall2 (fun x y => f x = Some y) l r.
Proof.
  revert r; induction l as [|x l IH]; intros r H; cbn [map all_some] in H.
  - injection H as <-. split; [reflexivity | constructor].
  - destruct (f x) as [y|] eqn:E; [|discriminate]. destruct (all_some (map f l)) as [r'|]; [|discriminate].
    cbn [omap] in H. injection H as <-. destruct (IH r' eq_refl) as [H1 H2].
    split; [cbn [length]; congruence | constructor; assumption].
Qed.

(* urlencode read back by the standard form decoder, for ALL lists of text pairs *)
Lemma urlencode_roundtrip safe ps w : safe_ok safe -> urlencode safe ps = Some w -> decode_form w = Some ps.
Proof.
  intros Hs. unfold urlencode. destruct (all_some (map (enc_pair safe) ps)) as [es|] eqn:E; [|discriminate].
  cbn [omap]. intros H; injection H as <-. apply all_some_inv in E. destruct E as [_ HF].
  assert (Hd : Forall2 (fun kv e => decode_field e = Some kv /\ ~ In 38 e) ps es).
  { induction HF as [|kv e ps es H1 _ IH]; constructor; [apply (decode_field_enc safe); assumption | exact IH]. }
  assert (Hne : es <> [[]]).
  { intros ->. inversion HF as [|kv e ps' es' H1 H2]; subst. unfold enc_pair in H1.
    destruct (fq safe (fst kv)); [|discriminate]. destruct (fq safe (snd kv)); [|discriminate].
    injection H1 as H1. destruct s; discriminate. }
  unfold decode_form. rewrite split_list_join.
  - clear Hne HF. induction Hd as [|kv e ps es [H1 _] _ IH]; [reflexivity|].
    cbn [map all_some]. rewrite H1, IH. reflexivity.
  - exact Hne.
  - clear Hne HF. induction Hd as [|kv e ps es [_ H2] _ IH]; constructor; assumption.
Qed.

Lemma urlencode_defined safe ps :
  forallb (fun kv => forallb is_scalar (fst kv) && forallb is_scalar (snd kv)) ps = true -> exists w, urlencode safe ps = Some w.
Proof.
  intros H. unfold urlencode.
  assert (E : exists es, all_some (map (enc_pair safe) ps) = Some es).
  { induction ps as [|[k v] ps IH]; [eexists; reflexivity|]. cbn [forallb fst snd] in H. apply andb_true_iff in H. destruct H as [H1 H2].
    apply andb_true_iff in H1. destruct H1 as [Hk Hv]. destruct (IH H2) as [es Ees].
    destruct (fq_defined safe _ Hk) as [k' Ek]. destruct (fq_defined safe _ Hv) as [v' Ev].
    assert (Ee : enc_pair safe (k, v) = Some (k' ++ 61 :: v')) by (unfold enc_pair; cbn [fst snd]; rewrite Ek, Ev; reflexivity).
    cbn [map all_some]. rewrite Ee, Ees. eexists; reflexivity. }
  destruct E as [es ->]. eexists; reflexivity.
Qed.

(* the texts of the items of a dict / of a prepared array = the specification pairs *)
Definition dict_items (d : list (str * pyv)) : list (fval * fval) := map (fun kv => (FLeaf (PStr (fst kv)), FLeaf (snd kv))) d.
Definition dict_tuples (d : list (str * pyv)) : list fval := map (fun kv => FTuple (FLeaf (PStr (fst kv))) (FLeaf (snd kv))) d.

Lemma texts_of_dict d : texts_of (dict_items d) = Some (pairs_of_dict d).
Proof.
  unfold texts_of, dict_items. rewrite map_map.
  rewrite (all_some_map _ (fun kv : str * pyv => leaf_pair (fst kv) (snd kv))).
  - cbn [omap]. unfold pairs_of_dict. rewrite flat_map_concat_map. reflexivity.
  - intros [k p] _. cbn [fst snd]. unfold pair_text, key_text. cbn [py_str]. destruct p; reflexivity.
Qed.

Lemma dicts_of_spec l ds : dicts_of l = Some ds -> l = map FDict ds.
Proof.
  unfold dicts_of. revert ds; induction l as [|x l IH]; intros ds H; cbn [map all_some] in H.
  - injection H as <-. reflexivity.
  - destruct x as [p|d|a b|l']; try discriminate. destruct (all_some _) as [r|]; [|discriminate].
    cbn [omap] in H. injection H as <-. cbn [map]. f_equal. apply IH. reflexivity.
Qed.

Lemma prepare_dicts ds : flat_map prep_item (map FDict ds) = dict_tuples (concat ds).
Proof.
  induction ds as [|d ds IH]; [reflexivity|]. cbn [map flat_map concat]. rewrite IH.
  unfold dict_tuples. rewrite map_app. reflexivity.
Qed.

Lemma items_of_tuples d : kv_items_of (FList (dict_tuples d)) = Some (dict_items d).
Proof.
  cbn [kv_items_of]. unfold dict_tuples, dict_items. rewrite map_map. apply all_some_map. intros kv _. reflexivity.
Qed.

Lemma pairs_scalar d :
  dict_scalar d = true ->
  forallb (fun kv : str * str => forallb is_scalar (fst kv) && forallb is_scalar (snd kv)) (pairs_of_dict d) = true.
Proof.
  unfold dict_scalar, pairs_of_dict. induction d as [|[k p] d IH]; [reflexivity|]. cbn [forallb flat_map fst snd].
  intros H. apply andb_true_iff in H. destruct H as [H1 H2]. apply andb_true_iff in H1. destruct H1 as [Hk Hp].
  rewrite forallb_app, (IH H2), andb_true_r. unfold pyv_scalar in Hp.
  destruct p as [|b|z|s]; cbn [leaf_pair forallb fst snd]; try reflexivity; rewrite Hk, Hp; reflexivity.
Qed.

Definition wire_of_pairs (t : transport) (ps : list (str * str)) : fwire :=
  match urlencode (form_safe t) ps with Some s => WBody s | None => WEncodeError end.

(* the wire of a form value prepared once = urlencode of its specification pairs *)
Lemma form_wire_prepared t v :
  form_shape v = true -> wsgi_array_form t v = false ->
  exists ps, pairs_of v = Some ps /\ form_wire t (prepare_urlencoded v) = wire_of_pairs t ps.
Proof.
  unfold form_shape. destruct v as [p|d|a b|l]; cbn [pairs_of]; try discriminate.
  - intros _ _. exists (pairs_of_dict d). split; [reflexivity|]. cbn [prepare_urlencoded].
    assert (E : form_wire t (FDict d) = encode_items (form_safe t) (dict_items d)) by (destruct t; reflexivity).
    rewrite E. unfold encode_items. rewrite texts_of_dict. reflexivity.
  - destruct (dicts_of l) as [ds|] eqn:Ed; [|discriminate]. cbn [omap]. intros _ Hw.
    exists (pairs_of_dict (concat ds)). split; [reflexivity|].
    apply dicts_of_spec in Ed. subst l. cbn [prepare_urlencoded]. rewrite prepare_dicts.
    assert (E : t <> TWsgi \/ ds = []).
    { destruct t; try (left; discriminate). right. destruct ds; [reflexivity | discriminate]. }
    destruct E as [E | ->]; [|destruct t; reflexivity].
    assert (E2 : form_wire t (FList (dict_tuples (concat ds)))
                 = match kv_items_of (FList (dict_tuples (concat ds))) with
                   | Some items => encode_items (form_safe t) items | None => WUnmodelled end)
      by (destruct t; [reflexivity | congruence | reflexivity]).
    rewrite E2, items_of_tuples. unfold encode_items. rewrite texts_of_dict. reflexivity.
Qed.

Lemma form_encodable_pairs v ps :
  form_encodable v = true -> pairs_of v = Some ps ->
  forallb (fun kv : str * str => forallb is_scalar (fst kv) && forallb is_scalar (snd kv)) ps = true.
Proof.
  destruct v as [p|d|a b|l]; cbn [form_encodable pairs_of]; try discriminate.
  - intros H E; injection E as <-. apply pairs_scalar; exact H.
  - destruct (dicts_of l) as [ds|]; [|discriminate]. cbn [omap]. intros H E; injection E as <-. apply pairs_scalar; exact H.
Qed.

(* MAIN: whatever the serializer of the code puts on the wire for a form value prepared once is read back, by the standard
   decoder, as the pairs the value stands for *)
Lemma form_body_roundtrip t v w :
  form_shape v = true -> wsgi_array_form t v = false ->
  form_path ser_as_is t v = WBody w -> decode_form w = pairs_of v.
Proof.
  intros Hs Hw. destruct (form_wire_prepared t v Hs Hw) as (ps & Ep & Ew).
  unfold form_path, ser_as_is. rewrite Ew, Ep. unfold wire_of_pairs.
  destruct (urlencode (form_safe t) ps) as [s|] eqn:E; [|discriminate]. intros H; injection H as <-.
  exact (urlencode_roundtrip _ _ _ (form_safe_ok t) E).
Qed.

(* and it IS a body whenever every text can be encoded *)
Lemma form_body_sent t v :
  form_shape v = true -> wsgi_array_form t v = false -> form_encodable v = true ->
  exists ps w, pairs_of v = Some ps /\ form_path ser_as_is t v = WBody w /\ decode_form w = Some ps.
Proof.
  intros Hs Hw He. destruct (form_wire_prepared t v Hs Hw) as (ps & Ep & Ew).
  destruct (urlencode_defined (form_safe t) ps (form_encodable_pairs v ps He Ep)) as [w E].
  exists ps, w. split; [exact Ep|]. split.
  - unfold form_path, ser_as_is. rewrite Ew. unfold wire_of_pairs. rewrite E. reflexivity.
  - exact (urlencode_roundtrip _ _ _ (form_safe_ok t) E).
Qed.

(* the serializer of the code adds no preparation: generation -> wire applies prepare_urlencoded exactly once; objects are
   fixed points of prepare_urlencoded, so for them even the sentinel rule changes nothing *)
Lemma form_prepared_once t v :
  form_path ser_as_is t v = form_wire t (prepare_urlencoded v)
  /\ (forall d, form_path ser_prepares_again t (FDict d) = form_path ser_as_is t (FDict d)).
Proof. split; [reflexivity | intros d; reflexivity]. Qed.

(* witnesses *)
Definition f_tag : str := [116;97;103].
Definition f_zero : str := [48].
Definition f_tag0 : fval := FList [FDict [(f_tag, PStr f_zero)]].      (* [{tag: 0}] with the text 0 *)
Definition f_tag0_wire : str := f_tag ++ [61] ++ f_zero.              (* tag=0 *)
(* %28%27tag%27%2C+%270%27%29=arbitrary-value *)
Definition f_tag0_twice : str :=
  [37;50;56;37;50;55] ++ f_tag ++ [37;50;55;37;50;67;43;37;50;55;48;37;50;55;37;50;57;61] ++ s_arbitrary.

Lemma form_wsgi_array_refuted :
  form_shape f_tag0 = true /\ form_encodable f_tag0 = true /\ wsgi_array_form TWsgi f_tag0 = true
  /\ form_path ser_as_is TWsgi f_tag0 = WRaises
  /\ form_path ser_as_is TRequests f_tag0 = WBody f_tag0_wire /\ form_path ser_as_is TAsgi f_tag0 = WBody f_tag0_wire.
Proof. vm_compute. repeat split; reflexivity. Qed.

Lemma form_prepared_twice_sentinel_refuted :
  form_shape f_tag0 = true /\ pairs_of f_tag0 = Some [(f_tag, f_zero)]
  /\ prepare_urlencoded (prepare_urlencoded f_tag0) <> prepare_urlencoded f_tag0
  /\ form_path ser_prepares_again TRequests f_tag0 = WBody f_tag0_twice
  /\ form_path ser_prepares_again TAsgi f_tag0 = WBody f_tag0_twice
  /\ decode_form f_tag0_twice <> pairs_of f_tag0
  /\ form_path ser_as_is TRequests f_tag0 = WBody f_tag0_wire
  /\ decode_form f_tag0_wire = pairs_of f_tag0.
Proof. vm_compute. repeat split; try reflexivity; discriminate. Qed.

Example form_nonvacuous :
  let v := FList [FDict [([97;32;38], PStr [61;233;43]); ([110], PInt 5)]; FDict []; FDict [([97;32;38], PBool true); ([122], PNone)]] in
  form_shape v = true /\ form_encodable v = true /\ wsgi_array_form TAsgi v = false
  /\ pairs_of v = Some [([97;32;38], [61;233;43]); ([110], [53]); ([97;32;38], s_True)]
  /\ form_path ser_as_is TAsgi v = WBody ([97;43;37;50;54;61;37;51;68;37;67;51;37;65;57;37;50;66;38;110;61;53;38;97;43;37;50;54;61] ++ s_True)
  /\ form_path ser_as_is TWsgi (FDict [([97], PStr [33;47;32])]) = WBody [97;61;33;47;43].
Proof. vm_compute. repeat split; reflexivity. Qed.

(* ------------------------------------------------------------------------------------------------ *)
(* 16. phases without a validity filter (after seed C06_g)                                           *)
(* ------------------------------------------------------------------------------------------------ *)

Definition s_id : str := [105;100].
Definition it_of (p : pyv) : item := [(s_id, VPrim p)].

Lemma matrix_ser name e p : p <> PNone ->
  serialize3 [def_path_prim name StMatrix e] [(name, VPrim p)] = Some [(name, sval (59 :: name ++ [61] ++ py_str p))].
Proof.
  intros Hp. unfold serialize3, ser3, def_path_prim. cbn [flat_map d_name ser3_one d_content d_in d_type d_style d_explode ser3_path map app composed fold_right fst snd].
  unfold apply_sfun. rewrite d_get_single. cbn [new_value]. destruct p; try congruence; cbn [omap]; rewrite d_set_single; reflexivity.
Qed.

Lemma matrix_primitive_all_phases name e p : p <> PNone ->
  let d := def_path_prim name StMatrix e in
  let it := [(name, VPrim p)] in
  let s := 59 :: name ++ [61] ++ py_str p in
  (path_text name (phase_path PhExamples [d] it) = Some s /\ dec_value FMatrixPrim name s = Some (CPrim (py_str p)) /\ is_nil s = false)
  /\ (forall seg, path_text name (phase_path PhCoverage [d] it) = Some seg -> read_segment (Some FMatrixPrim) name seg = Some (CPrim (py_str p)))
  /\ (forall seg, path_text name (phase_path PhFuzz [d] it) = Some seg -> read_segment (Some FMatrixPrim) name seg = Some (CPrim (py_str p))).
Proof.
  intros Hp d it s.
  assert (Hdec : dec_value FMatrixPrim name s = Some (CPrim (py_str p))).
  { unfold s. cbn [dec_value].
    replace (59 :: name ++ [61] ++ py_str p) with ((59 :: name ++ [61]) ++ py_str p) by (cbn; rewrite <- app_assoc; reflexivity).
    rewrite strip_prefix_app. reflexivity. }
  assert (Hread : forall q, quote_value s = Some q -> read_segment (Some FMatrixPrim) name q = Some (CPrim (py_str p))).
  { intros q Hq. unfold read_segment. rewrite (quote_value_form_roundtrip _ _ Hq). cbn [obind]. exact Hdec. }
  split; [|split].
  - unfold phase_path, d, it. rewrite (matrix_ser name e p Hp). unfold path_text. rewrite d_get_single. cbn. auto.
  - intros seg. unfold phase_path, d, it. rewrite (matrix_ser name e p Hp). cbn [quote_all sval].
    fold s. destruct (quote_value s) as [q|] eqn:Hq; cbn [omap stringify_item map path_text]; [|discriminate].
    cbn [path_text stringify_item map fst snd stringify_v sval js_str]. rewrite d_get_single. cbn [obind entry_str py_str].
    intros [= <-]. apply Hread. reflexivity.
  - intros seg. unfold phase_path, generated_path, d, it. rewrite (matrix_ser name e p Hp).
    destruct (is_valid_path _); [|discriminate]. cbn [quote_all sval]. fold s.
    destruct (quote_value s) as [q|] eqn:Hq; [|discriminate].
    cbn [path_text jsonify map fst snd jsonify_v jsonify_p sval]. rewrite d_get_single. cbn [obind entry_str py_str].
    intros [= <-]. apply Hread. reflexivity.
Qed.

(* label: the truth test makes 0, False and the empty string the empty text; the fuzzing phase drops it (is_valid_path), the
   examples and coverage phases SEND it: the path variable vanishes from the URL *)
Lemma label_falsy_reaches_the_wire :
  let d := def_path_prim s_id StLabel None in
  (forall p, In p [PInt 0; PBool false; PStr []] ->
     phase_path PhFuzz [d] (it_of p) = GFiltered
     /\ phase_path PhExamples [d] (it_of p) = GOk [(s_id, sval [])]
     /\ phase_path PhCoverage [d] (it_of p) = GOk [(s_id, sval [])])
  /\ read_segment (Some FLabelPrim) s_id [] = None
  /\ phase_path PhCoverage [d] (it_of (PInt 7)) = GOk [(s_id, sval [46;55])].
Proof.
  split; [|split; reflexivity].
  intros p [<-|[<-|[<-|[]]]]; vm_compute; repeat split; reflexivity.
Qed.

(* the seeded rule for matrix primitives *)
Lemma matrix_truthiness_sentinel_refuted :
  (forall name v, truthy v = true -> matrix_prim_truthy name v = new_value FMatrixPrim name v)
  /\ (forall p, In p [PInt 0; PBool false; PStr []] ->
       matrix_prim_truthy s_id (VPrim p) = Some []
       /\ new_value FMatrixPrim s_id (VPrim p) = Some (59 :: s_id ++ [61] ++ py_str p))
  /\ dec_value FMatrixPrim s_id [] = None
  /\ is_valid_path [(s_id, sval [])] = false
  /\ omap stringify_item (quote_all [(s_id, sval [])]) = Some [(s_id, sval [])].
Proof.
  split; [|split; [|repeat split; reflexivity]].
  - intros name v H. unfold matrix_prim_truthy. rewrite H. destruct v as [p| |]; try reflexivity.
    destruct p; try reflexivity. discriminate H.
  - intros p [<-|[<-|[<-|[]]]]; vm_compute; split; reflexivity.
Qed.

Example unfiltered_phases_nonvacuous :
  let d := def_path_prim s_id StMatrix (Some false) in
  phase_path PhExamples [d] (it_of (PInt 0)) = GOk [(s_id, sval [59;105;100;61;48])]
  /\ phase_path PhCoverage [d] (it_of (PInt 0)) = GOk [(s_id, sval [37;51;66;105;100;37;51;68;48])]
  /\ phase_path PhFuzz [d] (it_of (PBool false)) = GOk [(s_id, sval ([37;51;66;105;100;37;51;68] ++ s_False))]
  /\ phase_path PhCoverage [d] (it_of (PStr [])) = GOk [(s_id, sval [37;51;66;105;100;37;51;68])]
  /\ read_segment (Some FMatrixPrim) s_id [37;51;66;105;100;37;51;68] = Some (CPrim []).
Proof. vm_compute. repeat split; reflexivity. Qed.

(* the empty string of an unstyled path parameter: dropped by the fuzzing phase, sent as an empty segment by the other two *)
Lemma empty_path_value_refuted :
  forall st, In st [StNone; StSimple] ->
    let d := def_path_prim s_id st None in
    phase_path PhFuzz [d] (it_of (PStr [])) = GFiltered
    /\ path_text s_id (phase_path PhExamples [d] (it_of (PStr []))) = Some []
    /\ path_text s_id (phase_path PhCoverage [d] (it_of (PStr []))) = Some []
    /\ path_text s_id (phase_path PhCoverage [d] (it_of (PInt 0))) = Some [48].
Proof. intros st [<-|[<-|[]]]; vm_compute; repeat split; reflexivity. Qed.
